------------------------------ MODULE TonHmObj ------------------------------
(* The HashMap OBJECT machine (C09, C10): dictionary objects that are edited  *)
(* and serialised over their lifetime.                                        *)
(*                                                                            *)
(* State                                                                      *)
(*   stores : store id -> map (key bits -> [v |-> value bits, x |-> <<>>])     *)
(*   objs   : object id -> [w |-> key width, st |-> store id]                 *)
(* Several objects may stand over ONE store: HashMap(w, map_ = other.map) uses *)
(* the caller's dictionary itself (no copy), so an edit through either object *)
(* is an edit of both - that is the library's sequential meaning and is       *)
(* modelled, not idealised away.                                              *)
(* One action per public call; Do(s, c) is its complete meaning:              *)
(*   [ok |-> "yes", s |-> successor state, res |-> result] or [ok |-> "no"]   *)
(* Results: a serialisation is the canonical Patricia tree of the CURRENT map *)
(* (TonHashmap!Edge) - whatever was serialised, edited or parsed before - or  *)
(* "none" for the empty map; a parse of it returns the current map.           *)
EXTENDS TonHashmap
CONSTANT VW                       \* width of the values (unsigned integers)

St(stores, objs) == [stores |-> stores, objs |-> objs]
Yes(s, res) == [ok |-> "yes", s |-> s, res |-> res]
No == [ok |-> "no"]
With(f, k, v) == [i \in (DOMAIN f) \cup {k} |-> IF i = k THEN v ELSE f[i]]
Without(f, k) == [i \in (DOMAIN f) \ {k} |-> f[i]]
Entry(v) == [v |-> NatBits(v, VW), x |-> <<>>]
MapOfObj(s, o) == s.stores[s.objs[o].st]
PairsOf(mp) == {[k |-> k, v |-> mp[k].v] : k \in DOMAIN mp}
KeyFits(k, w) == k >= 0 /\ k < 2^w

Do(s, c) ==
    CASE c.op = "new" ->          \* HashMap(w): a fresh object over a fresh, empty store
            Yes(St(With(s.stores, c.st, [k \in {} |-> 0]), With(s.objs, c.o, [w |-> c.w, st |-> c.st])), [unit |-> 1])
      [] c.op = "new_over" ->     \* HashMap(w, map_ = other.map): a second object over the other's store
            Yes(St(s.stores, With(s.objs, c.o, [w |-> s.objs[c.other].w, st |-> s.objs[c.other].st])), [unit |-> 1])
      [] c.op = "set" ->          \* set / set_int_key / the entry dictionary: the key must fit the width
            IF ~KeyFits(c.k, s.objs[c.o].w) THEN No
            ELSE LET st == s.objs[c.o].st
                 IN Yes(St(With(s.stores, st, With(s.stores[st], NatBits(c.k, s.objs[c.o].w), Entry(c.v))), s.objs), [unit |-> 1])
      [] c.op = "del" ->          \* through the public entry dictionary (the only way to delete)
            LET st == s.objs[c.o].st  kb == NatBits(c.k, s.objs[c.o].w)
            IN Yes(St(With(s.stores, st, Without(s.stores[st], kb)), s.objs), [unit |-> 1])
      [] c.op = "ser" ->          \* serialize(): None for the empty map, else THE canonical tree of the current map
            LET mp == MapOfObj(s, c.o)
            IN Yes(s, IF DOMAIN mp = {} THEN [none |-> 1] ELSE [tree |-> Edge(mp, s.objs[c.o].w)])
      [] c.op = "parse" ->        \* serialise, then read back through a parse route: the current map, ascending
            Yes(s, [pairs |-> PairsOf(MapOfObj(s, c.o))])
      [] c.op = "forget" ->
            Yes(St(s.stores, Without(s.objs, c.o)), [unit |-> 1])
=============================================================================
