------------------------------- MODULE TonBoc -------------------------------
(* The TON bag-of-cells wire format (crypto/tl/boc.tlb, vm/boc.cpp):         *)
(*   serialized_boc#b5ee9c72, serialized_boc_idx#68ff65f3,                   *)
(*   serialized_boc_idx_crc32c#acc3a728.                                     *)
(* Decode is a STRICT decoder (every constraint of the format is checked);   *)
(* Encode produces the bytes for every encoder freedom.                      *)
(* In a bag, cells are numbered 0.. in the order they appear and references  *)
(* point to LATER cells; here bag order is 1-based ("bheap").                *)
EXTENDS TonBits, TonCrc, TonSha
C == INSTANCE TonCell WITH Hash <- Sha256, HLen <- 32, MaxBits <- 1023, MaxRefs <- 4, MaxDepth <- 1023

MagicGeneric == <<181, 238, 156, 114>>
MagicIdx     == <<104, 255, 101, 243>>
MagicIdxCrc  == <<172, 195, 167, 40>>

Err(why) == [ok |-> FALSE, why |-> why]

\* ------------------------------------------------------------------ header
\* an index field that may hold more than TLC's integers do (4-byte fields of corrupted input): anything from 2^30 up is
\* reported as 2^30, which is larger than any cell count this model accepts (so the index is dangling)
UBig(B, off, len) == IF SmallBE(B, off, len) /\ UBE(B, off, len) < 1073741824 THEN UBE(B, off, len) ELSE 1073741824
Header(B) ==
    IF Len(B) < 6 THEN Err("short_header")
    ELSE LET magic == Sub(B, 1, 4) IN
    IF magic \notin {MagicGeneric, MagicIdx, MagicIdxCrc} THEN Err("magic")
    ELSE LET gen      == magic = MagicGeneric
             fl       == B[5]
             size     == IF gen THEN fl % 8 ELSE fl
             offb     == B[6]
             hasidx   == IF gen THEN (fl \div 128) % 2 = 1 ELSE TRUE
             hascrc   == IF gen THEN (fl \div 64) % 2 = 1 ELSE magic = MagicIdxCrc
             hascache == IF gen THEN (fl \div 32) % 2 = 1 ELSE FALSE
             flags    == IF gen THEN (fl \div 8) % 4 ELSE 0
             p0       == 7
    IN IF size < 1 \/ size > 4 THEN Err("size")
       ELSE IF offb < 1 \/ offb > 8 THEN Err("off_bytes")
       ELSE IF flags # 0 THEN Err("flags")
       ELSE IF hascache /\ ~hasidx THEN Err("cache_without_index")
       ELSE IF Len(B) < p0 - 1 + 3 * size + offb THEN Err("short_header")
       ELSE IF ~(SmallBE(B, p0, size) /\ SmallBE(B, p0 + size, size) /\ SmallBE(B, p0 + 2 * size, size)
                 /\ SmallBE(B, p0 + 3 * size, offb)) THEN Err("count_too_large_for_this_model")
       ELSE LET cells  == UBE(B, p0, size)
                roots  == UBE(B, p0 + size, size)
                absent == UBE(B, p0 + 2 * size, size)
                tot    == UBE(B, p0 + 3 * size, offb)
                p1     == p0 + 3 * size + offb
                nrl    == IF gen THEN roots ELSE 0
                p2     == p1 + nrl * size
                p3     == IF hasidx THEN p2 + cells * offb ELSE p2
                total  == p3 - 1 + tot + (IF hascrc THEN 4 ELSE 0)
       IN IF roots < 1 THEN Err("no_roots")
          ELSE IF ~gen /\ roots # 1 THEN Err("legacy_roots")
          ELSE IF absent # 0 THEN Err("absent")
          ELSE IF roots > cells THEN Err("roots_gt_cells")
          ELSE IF cells > Len(B) \/ tot > Len(B) THEN Err("counts_exceed_input")
          ELSE IF Len(B) < total THEN Err("truncated")
          ELSE IF Len(B) > total THEN Err("trailing_bytes")
          ELSE [ok |-> TRUE, gen |-> gen, size |-> size, offb |-> offb, hasidx |-> hasidx, hascrc |-> hascrc,
                hascache |-> hascache, cells |-> cells, roots |-> roots, tot |-> tot,
                rootlist |-> IF gen THEN [k \in 1..roots |-> UBig(B, p1 + (k - 1) * size, size) + 1] ELSE <<1>>,
                idxoff |-> p2, dataoff |-> p3, endoff |-> p3 + tot]

\* ------------------------------------------------------------------ cells
\* length in bytes of the cell starting at off (needs 2 readable bytes)
CellLenAt(B, off, size) ==
    LET d1 == B[off]  d2 == B[off + 1]
        wh == (d1 \div 16) % 2
    IN 2 + wh * (C!Pop(d1 \div 32) + 1) * 34 + (d2 \div 2) + (d2 % 2) + (d1 % 8) * size

\* start offsets of all cells plus the end (cells + 1 entries), by sequential scan; <<>> when a cell overruns
RECURSIVE ScanFrom(_, _, _, _, _)
ScanFrom(B, h, k, off, acc) ==
    IF k > h.cells THEN Append(acc, off)
    ELSE IF off + 1 >= h.endoff THEN <<>>
    ELSE LET len == CellLenAt(B, off, h.size)
         IN IF off + len > h.endoff THEN <<>> ELSE ScanFrom(B, h, k + 1, off + len, Append(acc, off))
\* offsets claimed by someone else (an index, a harness hint) are accepted only if locally consistent
OffsOk(B, h, offs) ==
    /\ Len(offs) = h.cells + 1
    /\ offs[1] = h.dataoff
    /\ offs[h.cells + 1] = h.endoff
    /\ \A k \in 1..h.cells : offs[k] + 1 < h.endoff /\ offs[k + 1] = offs[k] + CellLenAt(B, offs[k], h.size)

RawCell(B, h, off) ==
    LET d1 == B[off]  d2 == B[off + 1]
        nr == d1 % 8  ex == (d1 \div 8) % 2  wh == (d1 \div 16) % 2  lm == d1 \div 32
        nh == C!Pop(lm) + 1
        dsz == (d2 \div 2) + (d2 % 2)
        doff == off + 2 + wh * nh * 34
        data == Sub(B, doff, dsz)
        bs == IF d2 % 2 = 0 THEN [n |-> 8 * dsz, y |-> data] ELSE StripCompletion(data)
    IN [d1 |-> d1, d2 |-> d2, nr |-> nr, ex |-> ex, wh |-> wh, lm |-> lm,
        tagok |-> (d2 % 2 = 1 => data[dsz] % 128 # 0),
        n |-> bs.n, y |-> bs.y,
        shash |-> IF wh = 1 THEN [j \in 1..nh |-> Sub(B, off + 2 + (j - 1) * 32, 32)] ELSE <<>>,
        sdepth |-> IF wh = 1 THEN [j \in 1..nh |-> UBE(B, off + 2 + nh * 32 + (j - 1) * 2, 2)] ELSE <<>>,
        refs |-> [j \in 1..(IF nr <= 4 THEN nr ELSE 0) |-> UBig(B, doff + dsz + (j - 1) * h.size, h.size) + 1]]

\* an explicit sequence value: TLC keeps [k \in 1..N |-> e] as an unevaluated function and re-evaluates e at every
\* application (and all of them at every Len); large bags need each cell decoded once
Tup(f) == SubSeq(f, 1, Len(f))
\* bag order -> children-first heap (index k |-> N + 1 - k)
Flip(bheap) == LET N == Len(bheap) IN
    [k \in 1..N |-> LET c == bheap[N + 1 - k] IN [c EXCEPT !.r = [j \in 1..Len(c.r) |-> N + 1 - c.r[j]]]]
\* level masks only (no hashing)
MasksOf(heap) == FoldLeft(LAMBDA info, k : Append(info, [mask |-> C!MaskOf(heap[k], info)]), <<>>, [k \in 1..Len(heap) |-> k])

\* Decode with optional offsets hint (<<>> = scan).  deep = also verify stored hashes (needs SHA-256)
DecodeWith(B, hint, deep) ==
    LET h == Header(B) IN
    IF ~h.ok THEN h
    ELSE IF h.hascrc /\ Crc32cLE(SubSeq(B, 1, Len(B) - 4)) # SubSeq(B, Len(B) - 3, Len(B)) THEN Err("crc")
    ELSE LET offs == IF hint = <<>> THEN ScanFrom(B, h, 1, h.dataoff, <<>>) ELSE hint IN
    IF offs = <<>> \/ ~OffsOk(B, h, offs) THEN Err("cell_overrun")
    ELSE LET raw == Tup([k \in 1..h.cells |-> RawCell(B, h, offs[k])]) IN
    IF \E k \in 1..h.cells : raw[k].nr > 4 THEN Err("absent_or_bad_refcount")
    ELSE IF \E k \in 1..h.cells : ~raw[k].tagok THEN Err("completion_tag")
    ELSE IF \E k \in 1..h.cells : raw[k].ex = 1 /\ raw[k].n < 8 THEN Err("exotic_without_type")
    ELSE IF \E k \in 1..h.cells : \E j \in 1..raw[k].nr : raw[k].refs[j] > h.cells THEN Err("dangling_ref")
    ELSE IF \E k \in 1..h.cells : \E j \in 1..raw[k].nr : raw[k].refs[j] <= k THEN Err("backward_or_self_ref")
    ELSE IF \E j \in 1..h.roots : h.rootlist[j] > h.cells THEN Err("dangling_root")
    ELSE IF h.hasidx /\ \E k \in 1..h.cells :
                LET e == UBE(B, h.idxoff + (k - 1) * h.offb, h.offb)
                IN ~SmallBE(B, h.idxoff + (k - 1) * h.offb, h.offb)
                   \/ (IF h.hascache THEN e \div 2 ELSE e) # offs[k + 1] - h.dataoff
         THEN Err("index_not_cumulative")
    ELSE LET bheap == Tup([k \in 1..h.cells |-> [t |-> IF raw[k].ex = 1 THEN raw[k].y[1] ELSE 0,
                                                 n |-> raw[k].n, y |-> raw[k].y, r |-> raw[k].refs]])
             heap  == Tup(Flip(bheap))
             N     == h.cells
             masks == MasksOf(heap)
    IN IF \E k \in 1..N : heap[k].t \notin {0, 1, 2, 3, 4} THEN Err("unknown_exotic_type")
       ELSE IF \E k \in 1..N : heap[k].t = 1 /\ (heap[k].n < 16 \/ heap[k].r # <<>>) THEN Err("bad_pruned")
       ELSE IF \E k \in 1..N : (heap[k].t = 3 /\ Len(heap[k].r) # 1) \/ (heap[k].t = 4 /\ Len(heap[k].r) # 2) THEN Err("bad_merkle")
       ELSE IF \E k \in 1..N : masks[N + 1 - k].mask # raw[k].lm THEN Err("level_mask")
       ELSE IF Cardinality({bheap[k] : k \in 1..N}) # N THEN Err("duplicate_cell")
       ELSE IF deep /\ (\E k \in 1..N : raw[k].wh = 1)
                 /\ LET info == C!InfoAll(heap) IN
                    \E k \in 1..N : raw[k].wh = 1 /\
                        LET kk == N + 1 - k
                            lv == SelectSeq(<<0, 1, 2, 3>>, LAMBDA l : l <= C!Lvl(info[kk].mask) /\ C!IsSig(info[kk].mask, l))
                        IN \E j \in 1..Len(lv) : raw[k].shash[j] # C!HashAt(heap, info, kk, lv[j])
                                                 \/ raw[k].sdepth[j] # C!DepthAt(heap, info, kk, lv[j])
            THEN Err("stored_hash_mismatch")
       ELSE [ok |-> TRUE, hdr |-> h, heap |-> heap, bheap |-> bheap,
             roots |-> [j \in 1..h.roots |-> N + 1 - h.rootlist[j]], offs |-> offs,
             withhashes |-> {k \in 1..N : raw[k].wh = 1}]

Decode(B) == DecodeWith(B, <<>>, TRUE)

\* ------------------------------------------------------------------ encoder
\* f = [magic \in {"generic","idx","idxcrc"}, size, offb, idx, crc, cache, wh (stored hashes on every cell)]
MinBytes(v) == IF v < 256 THEN 1 ELSE IF v < 65536 THEN 2 ELSE IF v < 16777216 THEN 3 ELSE 4
EncCell(bheap, k, f, masks, info) ==
    LET c  == bheap[k]
        N  == Len(bheap)
        kk == N + 1 - k
        m  == masks[kk].mask
        lv == SelectSeq(<<0, 1, 2, 3>>, LAMBDA l : l <= C!Lvl(m) /\ C!IsSig(m, l))
        heap == Flip(bheap)
    IN <<Len(c.r) + (IF c.t # 0 THEN 8 ELSE 0) + (IF f.wh THEN 16 ELSE 0) + 32 * m, C!D2(c)>>
       \o (IF f.wh THEN Flat([j \in 1..Len(lv) |-> C!HashAt(heap, info, kk, lv[j])])
                         \o Flat([j \in 1..Len(lv) |-> BE(C!DepthAt(heap, info, kk, lv[j]), 2)])
           ELSE <<>>)
       \o C!Data(c)
       \o Flat([j \in 1..Len(c.r) |-> BE(c.r[j] - 1, f.size)])
\* masks/info are passed in so that deliberately corrupted bags can be encoded with the original values
EncodeRaw(bheap, roots, f, masks, info) ==
    LET N     == Len(bheap)
        cbs   == [k \in 1..N |-> EncCell(bheap, k, f, masks, info)]
        ends  == FoldLeft(LAMBDA a, k : Append(a, (IF a = <<>> THEN 0 ELSE a[Len(a)]) + Len(cbs[k])), <<>>, [k \in 1..N |-> k])
        tot   == IF N = 0 THEN 0 ELSE ends[N]
        index == Flat([k \in 1..N |-> BE(IF f.cache THEN 2 * ends[k] ELSE ends[k], f.offb)])
        hdr   == IF f.magic = "generic"
                 THEN MagicGeneric
                      \o <<(IF f.idx THEN 128 ELSE 0) + (IF f.crc THEN 64 ELSE 0) + (IF f.cache THEN 32 ELSE 0) + f.size, f.offb>>
                      \o BE(N, f.size) \o BE(Len(roots), f.size) \o BE(0, f.size) \o BE(tot, f.offb)
                      \o Flat([j \in 1..Len(roots) |-> BE(roots[j] - 1, f.size)])
                      \o (IF f.idx THEN index ELSE <<>>)
                 ELSE (IF f.magic = "idx" THEN MagicIdx ELSE MagicIdxCrc) \o <<f.size, f.offb>>
                      \o BE(N, f.size) \o BE(1, f.size) \o BE(0, f.size) \o BE(tot, f.offb) \o index
        body  == hdr \o Flat(cbs)
    IN IF (f.magic = "generic" /\ f.crc) \/ f.magic = "idxcrc" THEN body \o Crc32cLE(body) ELSE body
Encode(bheap, roots, f) ==
    LET heap == Flip(bheap)
    IN EncodeRaw(bheap, roots, f, MasksOf(heap), IF f.wh THEN C!InfoAll(heap) ELSE <<>>)
\* which freedoms are admissible for a bag
TotSize(bheap, f) == SumSeq([k \in 1..Len(bheap) |-> 2 + (IF f.wh THEN 34 * 4 ELSE 0) + Len(bheap[k].y) + Len(bheap[k].r) * f.size])
\* exact size of the cell data (stored hashes are counted by the level mask, no hashing needed)
ExactTot(bheap, f) ==
    LET N == Len(bheap)
        masks == MasksOf(Flip(bheap))
        nlv(k) == LET m == masks[N + 1 - k].mask IN Cardinality({l \in 0..3 : l <= C!Lvl(m) /\ C!IsSig(m, l)})
    IN SumSeq([k \in 1..N |-> 2 + (IF f.wh THEN 34 * nlv(k) ELSE 0) + Len(C!Data(bheap[k])) + Len(bheap[k].r) * f.size])
FitsOff(v, offb) == offb >= 4 \/ v < 256 ^ offb
FreedomOk(bheap, roots, f) ==
    /\ f.size \in 1..4 /\ f.offb \in 1..8
    \* "offset widths are sufficient": the total size, and every index entry (doubled when cache bits are on), fits off_bytes
    /\ FitsOff(ExactTot(bheap, f), f.offb) /\ ((f.idx /\ f.cache) => FitsOff(2 * ExactTot(bheap, f), f.offb))
    /\ f.size >= MinBytes(Len(bheap))
    /\ f.cache => f.idx
    /\ f.magic # "generic" => (f.idx /\ ~f.cache /\ roots = <<1>> /\ (f.crc <=> f.magic = "idxcrc"))
    /\ Len(roots) >= 1 /\ \A j \in 1..Len(roots) : roots[j] \in 1..Len(bheap)
    /\ \A k \in 1..Len(bheap) : \A j \in 1..Len(bheap[k].r) : bheap[k].r[j] > k /\ bheap[k].r[j] <= Len(bheap)

\* ------------------------------------------------------------------ structure comparison
\* m maps cells of heap1 to cells of heap2 (both children-first): same content, references commute
IsoVia(heap1, heap2, m) ==
    /\ Len(m) = Len(heap1)
    /\ \A k \in 1..Len(heap1) :
          /\ m[k] \in 1..Len(heap2)
          /\ heap1[k].t = heap2[m[k]].t /\ heap1[k].n = heap2[m[k]].n /\ heap1[k].y = heap2[m[k]].y
          /\ Len(heap1[k].r) = Len(heap2[m[k]].r)
          /\ \A j \in 1..Len(heap1[k].r) : m[heap1[k].r[j]] = heap2[m[k]].r[j]
Onto(m, n) == {m[k] : k \in 1..Len(m)} = 1..n

\* ------------------------------------------------------------------ corruption operators
FlipBit(B, i) == LET k == ((i - 1) \div 8) + 1  b == 7 - ((i - 1) % 8)           \* i-th bit, 1-based, MSB first
                 IN [B EXCEPT ![k] = IF (@ \div 2^b) % 2 = 1 THEN @ - 2^b ELSE @ + 2^b]
Truncate(B, n) == SubSeq(B, 1, n)
Extend(B, tail) == B \o tail
=============================================================================
