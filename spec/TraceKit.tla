------------------------------ MODULE TraceKit ------------------------------
(* Trace validation kit shared by every per-property trace specification.   *)
(*                                                                          *)
(* The recorded execution is an ndjson file (env TRACE_FILE), one record    *)
(* per observed library call / case.  The trace spec consumes exactly one   *)
(* record per step.  Validation never stops at the first mismatch: for      *)
(* every record the set of FAILED CLAUSES is computed by the property's     *)
(* specification operators and accumulated in `verdicts`; the final state        *)
(* writes the verdict file (env OUT_FILE).  The POSTCONDITION KitPost       *)
(* checks that every record was consumed.                                   *)
EXTENDS Naturals, Sequences, SequencesExt, FiniteSets, TLC, Json, IOUtils

Trace == ndJsonDeserialize(IOEnv.TRACE_FILE)

VARIABLES pos, verdicts
kitVars == <<pos, verdicts>>

KitInit == pos = 1 /\ verdicts = <<>>

\* stateless use: F(rec) is the set of clause names the record violates
KitNext(F(_)) ==
    /\ pos <= Len(Trace)
    /\ LET v == F(Trace[pos])
       IN verdicts' = IF v = {} THEN verdicts ELSE Append(verdicts, [i |-> Trace[pos].i, failed |-> SetToSeq(v)])
    /\ pos' = pos + 1

KitDone == (pos = Len(Trace) + 1) => ndJsonSerialize(IOEnv.OUT_FILE, <<[n |-> Len(Trace), bad |-> verdicts]>>)
KitPost == TLCGet("stats").diameter - 1 = Len(Trace)

\* helpers for clause sets
Clause(name, holds) == IF holds THEN {} ELSE {name}
Has(rec, f) == f \in DOMAIN rec
=============================================================================
