------------------------------ MODULE TraceKit ------------------------------
(* Trace validation kit shared by every per-property trace specification.   *)
(*                                                                          *)
(* The recorded execution is an ndjson file (env TRACE_FILE), one record    *)
(* per observed library call / case.  The trace spec consumes exactly one   *)
(* record per step.  Validation never stops at the first mismatch: for      *)
(* every record the set of FAILED CLAUSES is computed by the property's     *)
(* specification operators and accumulated in `bad`; the final state        *)
(* writes the verdict file (env OUT_FILE).  The POSTCONDITION KitPost       *)
(* checks that every record was consumed.                                   *)
EXTENDS Naturals, Sequences, SequencesExt, FiniteSets, TLC, Json, IOUtils

Trace == ndJsonDeserialize(IOEnv.TRACE_FILE)

VARIABLES l, bad
kitVars == <<l, bad>>

KitInit == l = 1 /\ bad = <<>>

\* stateless use: F(rec) is the set of clause names the record violates
KitNext(F(_)) ==
    /\ l <= Len(Trace)
    /\ LET v == F(Trace[l])
       IN bad' = IF v = {} THEN bad ELSE Append(bad, [i |-> Trace[l].i, failed |-> SetToSeq(v)])
    /\ l' = l + 1

KitDone == (l = Len(Trace) + 1) => ndJsonSerialize(IOEnv.OUT_FILE, <<[n |-> Len(Trace), bad |-> bad]>>)
KitPost == TLCGet("stats").diameter - 1 = Len(Trace)

\* helpers for clause sets
Clause(name, holds) == IF holds THEN {} ELSE {name}
Has(rec, f) == f \in DOMAIN rec
=============================================================================
