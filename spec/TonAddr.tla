------------------------------- MODULE TonAddr -------------------------------
(* Text forms of a standard TON address.                                     *)
(*   raw       "<workchain decimal>:<64 hex digits>"                          *)
(*   friendly  base64 (standard or URL-safe alphabet) of the 36 bytes         *)
(*             tag | workchain (int8) | account id (32) | CRC-16/XMODEM (BE)  *)
(*             tag = 0x11 bounceable, 0x51 non-bounceable, +0x80 test-only    *)
(* Text is a sequence of ASCII codes.                                         *)
EXTENDS TonBits, TonCrc

\* ---- base64
AlphaStd == <<65,66,67,68,69,70,71,72,73,74,75,76,77,78,79,80,81,82,83,84,85,86,87,88,89,90,
              97,98,99,100,101,102,103,104,105,106,107,108,109,110,111,112,113,114,115,116,117,118,119,120,121,122,
              48,49,50,51,52,53,54,55,56,57,43,47>>
AlphaUrl == [AlphaStd EXCEPT ![63] = 45, ![64] = 95]
\* 3k bytes -> 4k symbols (0..63)
Symbols(bytes) == Flat([g \in 1..(Len(bytes) \div 3) |->
                     LET a == bytes[3*g-2]  b == bytes[3*g-1]  c == bytes[3*g]
                     IN <<a \div 4, (a % 4) * 16 + b \div 16, (b % 16) * 4 + c \div 64, c % 64>>])
Unsymbols(sy) == Flat([g \in 1..(Len(sy) \div 4) |->
                     LET p == sy[4*g-3]  q == sy[4*g-2]  r == sy[4*g-1]  s == sy[4*g]
                     IN <<p * 4 + q \div 16, (q % 16) * 16 + r \div 4, (r % 4) * 64 + s>>])
SymOf(ch) == \* symbol value of an ASCII code in either alphabet, 64 = not a base64 character
    IF ch >= 65 /\ ch <= 90 THEN ch - 65 ELSE IF ch >= 97 /\ ch <= 122 THEN ch - 71
    ELSE IF ch >= 48 /\ ch <= 57 THEN ch + 4 ELSE IF ch = 43 \/ ch = 45 THEN 62 ELSE IF ch = 47 \/ ch = 95 THEN 63 ELSE 64
B64(bytes, url) == LET sy == Symbols(bytes)  al == IF url THEN AlphaUrl ELSE AlphaStd IN [i \in 1..Len(sy) |-> al[sy[i] + 1]]

\* ---- rendering
Tag(bounce, test) == (IF bounce THEN 17 ELSE 81) + (IF test THEN 128 ELSE 0)
WcByte(wc) == IF wc >= 0 THEN wc ELSE wc + 256
Payload(wc, hash, bounce, test) == LET p == <<Tag(bounce, test), WcByte(wc)>> \o hash IN p \o Crc16(p)
Friendly(wc, hash, bounce, test, url) == B64(Payload(wc, hash, bounce, test), url)
HexDigit(v) == IF v < 10 THEN 48 + v ELSE 87 + v
Hex(bytes) == Flat([i \in 1..Len(bytes) |-> <<HexDigit(bytes[i] \div 16), HexDigit(bytes[i] % 16)>>])
RECURSIVE Dec(_)
Dec(n) == IF n < 10 THEN <<48 + n>> ELSE Dec(n \div 10) \o <<48 + (n % 10)>>
Raw(wc, hash) == (IF wc < 0 THEN <<45>> \o Dec(-wc) ELSE Dec(wc)) \o <<58>> \o Hex(hash)

\* ---- parsing the friendly form: [ok, wc, hash, bounce, test]
ParseFriendly(text) ==
    IF Len(text) # 48 \/ \E i \in 1..48 : SymOf(text[i]) = 64 THEN [ok |-> FALSE]
    ELSE LET b == Unsymbols([i \in 1..48 |-> SymOf(text[i])])
             tag == b[1] % 128
         IN IF Crc16(SubSeq(b, 1, 34)) # SubSeq(b, 35, 36) THEN [ok |-> FALSE]
            ELSE IF tag \notin {17, 81} THEN [ok |-> FALSE]
            ELSE [ok |-> TRUE, wc |-> IF b[2] >= 128 THEN b[2] - 256 ELSE b[2], hash |-> SubSeq(b, 3, 34),
                  bounce |-> tag = 17, test |-> b[1] >= 128]

\* a single-symbol substitution at position p (1..48) by XOR-ing the 6-bit difference d (1..63): the error
\* pattern as 36 bytes.  CRC-16/XMODEM is linear, so the substituted text is valid iff the CRC register of the
\* error pattern is zero.
ErrPattern(p, d) == Unsymbols([i \in 1..48 |-> IF i = p THEN d ELSE 0])
=============================================================================
