------------------------------ MODULE TlbSchema ------------------------------
(* Hand transcription, as TonTlb data, of the block.tlb constructors that the *)
(* C15 / C16 / C17 checks cover.  Field names are block.tlb's.                *)
EXTENDS Naturals, Sequences
S == INSTANCE TonTlb WITH Schema <- <<>>
Zero(n) == S!Zero(n)  One(n) == S!One(n)  UMax(n, m) == S!UMax(n, m)  UPos(n) == S!UPos(n)
U(n) == S!U(n)  I(n) == S!I(n)  Bits(n) == S!Bits(n)  Bool == S!Bool  VarU(n) == S!VarU(n)  VarI(n) == S!VarI(n)
Grams == S!Grams  Leq(n) == S!Leq(n)  AddrInt == S!AddrInt  AddrExt == S!AddrExt  CC == S!CC  Maybe(t) == S!Maybe(t)
Either(l, r) == S!Either(l, r)  Ref(t) == S!Ref(t)  RefCell == S!RefCell  AnyRest == S!AnyRest  Named(nm) == S!Named(nm)
HmE(n, t) == S!HmE(n, t)  Hm(n, t) == S!Hm(n, t)  If(fl, t) == S!If(fl, t)  IfBit(fl, b, t) == S!IfBit(fl, b, t)
BinTree(t) == S!BinTree(t)  HmS(n, t) == S!HmS(n, t)
Lite(t) == S!Lite(t)  HmAug(n, t, x) == S!HmAug(n, t, x)  HmAugE(n, t, x) == S!HmAugE(n, t, x)  RefAny == S!RefAny
RefPick(fl, t0, t1) == S!RefPick(fl, t0, t1)  F(name, t) == S!F(name, t)  Alt(cn, tag, fs) == S!Alt(cn, tag, fs)
UnitT == S!UnitT
AltC(cn, tag, fs, cons) == S!AltC(cn, tag, fs, cons)  URange(n, lo, hi) == S!URange(n, lo, hi)  Pick(fl, t0, t1) == S!Pick(fl, t0, t1)
Tag32(a, b, c, d) == S!BytesToBits(<<a, b, c, d>>)
Tag8(a) == S!BytesToBits(<<a>>)

ShardStateFields == << F("global_id", I(32)), F("shard_id", Named("ShardIdent")),
        F("seq_no", U(32)), F("vert_seq_no", U(32)), F("gen_utime", U(32)), F("gen_lt", U(64)), F("min_ref_mc_seqno", U(32)),
        F("out_msg_queue_info", RefCell), F("before_split", Bool),
        F("accounts", Ref(HmAugE(256, Lite(Named("ShardAccount")), Named("DepthBalanceInfo")))),
        F("r1", Ref(Named("ShardStateR"))), F("custom", Maybe(Ref(Lite(Named("McStateExtra"))))) >>

TheSchema == [
  Grams |-> << Alt("grams", <<>>, << F("amount", VarU(16)) >>) >>,
  StorageUsedShort |-> << Alt("storage_used_short", <<>>, << F("cells", VarU(7)), F("bits", VarU(7)) >>) >>,
  StorageUsed |-> << Alt("storage_used", <<>>, << F("cells", VarU(7)), F("bits", VarU(7)), F("public_cells", VarU(7)) >>) >>,
  StorageInfo |-> << Alt("storage_info", <<>>, << F("used", Named("StorageUsed")), F("last_paid", U(32)), F("due_payment", Maybe(VarU(16))) >>) >>,
  AccStatusChange |-> << Alt("acst_unchanged", <<0>>, <<>>), Alt("acst_frozen", <<1,0>>, <<>>), Alt("acst_deleted", <<1,1>>, <<>>) >>,
  AccountStatus |-> << Alt("acc_state_uninit", <<0,0>>, <<>>), Alt("acc_state_frozen", <<0,1>>, <<>>), Alt("acc_state_active", <<1,0>>, <<>>), Alt("acc_state_nonexist", <<1,1>>, <<>>) >>,
  TrStoragePhase |-> << Alt("tr_phase_storage", <<>>, << F("storage_fees_collected", VarU(16)), F("storage_fees_due", Maybe(VarU(16))), F("status_change", Named("AccStatusChange")) >>) >>,
  TrCreditPhase |-> << Alt("tr_phase_credit", <<>>, << F("due_fees_collected", Maybe(VarU(16))), F("credit", CC) >>) >>,
  TrBouncePhase |-> << Alt("tr_phase_bounce_negfunds", <<0,0>>, <<>>),
                       Alt("tr_phase_bounce_nofunds", <<0,1>>, << F("msg_size", Named("StorageUsedShort")), F("req_fwd_fees", VarU(16)) >>),
                       Alt("tr_phase_bounce_ok", <<1>>, << F("msg_size", Named("StorageUsedShort")), F("msg_fees", VarU(16)), F("fwd_fees", VarU(16)) >>) >>,
  ComputeSkipReason |-> << Alt("cskip_no_state", <<0,0>>, <<>>), Alt("cskip_bad_state", <<0,1>>, <<>>), Alt("cskip_no_gas", <<1,0>>, <<>>), Alt("cskip_suspended", <<1,1,0>>, <<>>) >>,
  ComputeVmRest |-> << Alt("rest", <<>>, << F("gas_used", VarU(7)), F("gas_limit", VarU(7)), F("gas_credit", Maybe(VarU(3))), F("mode", I(8)), F("exit_code", I(32)), F("exit_arg", Maybe(I(32))), F("vm_steps", U(32)), F("vm_init_state_hash", Bits(256)), F("vm_final_state_hash", Bits(256)) >>) >>,
  TrComputePhase |-> << Alt("tr_phase_compute_skipped", <<0>>, << F("reason", Named("ComputeSkipReason")) >>),
                        Alt("tr_phase_compute_vm", <<1>>, << F("success", Bool), F("msg_state_used", Bool), F("account_activated", Bool), F("gas_fees", VarU(16)), F("rest", Ref(Named("ComputeVmRest"))) >>) >>,
  TrActionPhase |-> << Alt("tr_phase_action", <<>>, << F("success", Bool), F("valid", Bool), F("no_funds", Bool), F("status_change", Named("AccStatusChange")),
        F("total_fwd_fees", Maybe(VarU(16))), F("total_action_fees", Maybe(VarU(16))), F("result_code", I(32)), F("result_arg", Maybe(I(32))),
        F("tot_actions", U(16)), F("spec_actions", U(16)), F("skipped_actions", U(16)), F("msgs_created", U(16)), F("action_list_hash", Bits(256)), F("tot_msg_size", Named("StorageUsedShort")) >>) >>,
  SplitMergeInfo |-> << Alt("split_merge_info", <<>>, << F("cur_shard_pfx_len", U(6)), F("acc_split_depth", U(6)), F("this_addr", Bits(256)), F("sibling_addr", Bits(256)) >>) >>,
  TransactionDescr |-> <<
     Alt("trans_ord", <<0,0,0,0>>, << F("credit_first", Bool), F("storage_ph", Maybe(Named("TrStoragePhase"))), F("credit_ph", Maybe(Named("TrCreditPhase"))), F("compute_ph", Named("TrComputePhase")), F("action", Maybe(Ref(Named("TrActionPhase")))), F("aborted", Bool), F("bounce", Maybe(Named("TrBouncePhase"))), F("destroyed", Bool) >>),
     Alt("trans_storage", <<0,0,0,1>>, << F("storage_ph", Named("TrStoragePhase")) >>),
     Alt("trans_tick_tock", <<0,0,1>>, << F("is_tock", Bool), F("storage_ph", Named("TrStoragePhase")), F("compute_ph", Named("TrComputePhase")), F("action", Maybe(Ref(Named("TrActionPhase")))), F("aborted", Bool), F("destroyed", Bool) >>),
     Alt("trans_split_prepare", <<0,1,0,0>>, << F("split_info", Named("SplitMergeInfo")), F("storage_ph", Maybe(Named("TrStoragePhase"))), F("compute_ph", Named("TrComputePhase")), F("action", Maybe(Ref(Named("TrActionPhase")))), F("aborted", Bool), F("destroyed", Bool) >>),
     Alt("trans_merge_prepare", <<0,1,1,0>>, << F("split_info", Named("SplitMergeInfo")), F("storage_ph", Named("TrStoragePhase")), F("aborted", Bool) >>),
     Alt("trans_split_install", <<0,1,0,1>>, << F("split_info", Named("SplitMergeInfo")), F("prepare_transaction", Ref(Lite(Named("Transaction")))), F("installed", Bool) >>),
     Alt("trans_merge_install", <<0,1,1,1>>, << F("split_info", Named("SplitMergeInfo")), F("prepare_transaction", Ref(Lite(Named("Transaction")))),
          F("storage_ph", Maybe(Named("TrStoragePhase"))), F("credit_ph", Maybe(Named("TrCreditPhase"))), F("compute_ph", Named("TrComputePhase")),
          F("action", Maybe(Ref(Named("TrActionPhase")))), F("aborted", Bool), F("destroyed", Bool) >>) >>,
  IntermediateAddress |-> << Alt("interm_addr_regular", <<0>>, << F("use_dest_bits", Leq(96)) >>), Alt("interm_addr_simple", <<1,0>>, << F("workchain_id", I(8)), F("addr_pfx", U(64)) >>), Alt("interm_addr_ext", <<1,1>>, << F("workchain_id", I(32)), F("addr_pfx", U(64)) >>) >>,
  MsgMetadata |-> << Alt("msg_metadata", <<0,0,0,0>>, << F("depth", U(32)), F("initiator_addr", AddrInt), F("initiator_lt", U(64)) >>) >>,
  ShardIdent |-> << Alt("shard_ident", <<0,0>>, << F("shard_pfx_bits", Leq(60)), F("workchain_id", I(32)), F("shard_prefix", U(64)) >>) >>,
  ExtBlkRef |-> << Alt("ext_blk_ref", <<>>, << F("end_lt", U(64)), F("seq_no", U(32)), F("root_hash", Bits(256)), F("file_hash", Bits(256)) >>) >>,
  BlkMasterInfo |-> << Alt("master_info", <<>>, << F("master", Named("ExtBlkRef")) >>) >>,
  GlobalVersion |-> << Alt("capabilities", <<1,1,0,0,0,1,0,0>>, << F("version", U(32)), F("capabilities", U(64)) >>) >>,
  FutureSplitMerge |-> << Alt("fsm_none", <<0>>, <<>>), Alt("fsm_split", <<1,0>>, << F("split_utime", U(32)), F("interval", U(32)) >>), Alt("fsm_merge", <<1,1>>, << F("merge_utime", U(32)), F("interval", U(32)) >>) >>,
  ShardDescrRest |-> << Alt("rest", <<>>, << F("fees_collected", CC), F("funds_created", CC) >>) >>,
  ShardDescr |-> <<
     Alt("shard_descr", <<1,0,1,1>>, << F("seq_no", U(32)), F("reg_mc_seqno", U(32)), F("start_lt", U(64)), F("end_lt", U(64)), F("root_hash", Bits(256)), F("file_hash", Bits(256)), F("before_split", Bool), F("before_merge", Bool), F("want_split", Bool), F("want_merge", Bool), F("nx_cc_updated", Bool), F("flags", Zero(3)), F("next_catchain_seqno", U(32)), F("next_validator_shard", U(64)), F("min_ref_mc_seqno", U(32)), F("gen_utime", U(32)), F("split_merge_at", Named("FutureSplitMerge")), F("fees_collected", CC), F("funds_created", CC) >>),
     Alt("shard_descr_new", <<1,0,1,0>>, << F("seq_no", U(32)), F("reg_mc_seqno", U(32)), F("start_lt", U(64)), F("end_lt", U(64)), F("root_hash", Bits(256)), F("file_hash", Bits(256)), F("before_split", Bool), F("before_merge", Bool), F("want_split", Bool), F("want_merge", Bool), F("nx_cc_updated", Bool), F("flags", Zero(3)), F("next_catchain_seqno", U(32)), F("next_validator_shard", U(64)), F("min_ref_mc_seqno", U(32)), F("gen_utime", U(32)), F("split_merge_at", Named("FutureSplitMerge")), F("rest", Ref(Named("ShardDescrRest"))) >>) >>,
  SigPubKey |-> << Alt("ed25519_pubkey", <<1,0,0,0,1,1,1,0, 1,0,0,0,0,0,0,1, 0,0,1,0,0,1,1,1, 1,0,0,0,1,0,1,0>>, << F("pubkey", Bits(256)) >>) >>,
  ValidatorDescr |-> << Alt("validator", <<0,1,0,1,0,0,1,1>>, << F("public_key", Named("SigPubKey")), F("weight", U(64)) >>),
                        Alt("validator_addr", <<0,1,1,1,0,0,1,1>>, << F("public_key", Named("SigPubKey")), F("weight", U(64)), F("adnl_addr", Bits(256)) >>) >>,
  CatchainConfig |-> << Alt("catchain_config", <<1,1,0,0,0,0,0,1>>, << F("mc_catchain_lifetime", U(32)), F("shard_catchain_lifetime", U(32)), F("shard_validators_lifetime", U(32)), F("shard_validators_num", U(32)) >>),
                        Alt("catchain_config_new", <<1,1,0,0,0,0,1,0>>, << F("flags", Zero(7)), F("shuffle_mc_validators", Bool), F("mc_catchain_lifetime", U(32)), F("shard_catchain_lifetime", U(32)), F("shard_validators_lifetime", U(32)), F("shard_validators_num", U(32)) >>) >>,
  KeyMaxLt |-> << Alt("key_max_lt", <<>>, << F("key", Bool), F("max_end_lt", U(64)) >>) >>,
  KeyExtBlkRef |-> << Alt("key_ext_blk_ref", <<>>, << F("key", Bool), F("blk_ref", Named("ExtBlkRef")) >>) >>,
  Counters |-> << Alt("counters", <<>>, << F("last_updated", U(32)), F("total", U(64)), F("cnt2048", U(64)), F("cnt65536", U(64)) >>) >>,
  CreatorStats |-> << Alt("creator_info", <<0,1,0,0>>, << F("mc_blocks", Named("Counters")), F("shard_blocks", Named("Counters")) >>) >>,
  ValidatorInfo |-> << Alt("validator_info", <<>>, << F("validator_list_hash_short", U(32)), F("catchain_seqno", U(32)), F("nx_cc_updated", Bool) >>) >>,
  DepthBalanceInfo |-> << Alt("depth_balance", <<>>, << F("split_depth", Leq(30)), F("balance", CC) >>) >>,
  TickTock |-> << Alt("tick_tock", <<>>, << F("tick", Bool), F("tock", Bool) >>) >>,
  \* ---- messages and state-init
  StateInit |-> << Alt("state_init", <<>>, << F("split_depth", Maybe(U(5))), F("special", Maybe(Named("TickTock"))), F("code", Maybe(RefCell)),
                                             F("data", Maybe(RefCell)), F("library", Maybe(RefCell)) >>) >>,
  CommonMsgInfo |-> <<
     Alt("int_msg_info", <<0>>, << F("ihr_disabled", Bool), F("bounce", Bool), F("bounced", Bool), F("src", AddrInt), F("dest", AddrInt),
                                   F("value", CC), F("ihr_fee", Grams), F("fwd_fee", Grams), F("created_lt", U(64)), F("created_at", U(32)) >>),
     Alt("ext_in_msg_info", <<1, 0>>, << F("src", AddrExt), F("dest", AddrInt), F("import_fee", Grams) >>),
     Alt("ext_out_msg_info", <<1, 1>>, << F("src", AddrInt), F("dest", AddrExt), F("created_lt", U(64)), F("created_at", U(32)) >>) >>,
  Message |-> << Alt("message", <<>>, << F("info", Named("CommonMsgInfo")),
                                         F("init", Maybe(Either(Named("StateInit"), Ref(Named("StateInit"))))),
                                         F("body", Either(AnyRest, RefCell)) >>) >>,
  \* ---- accounts
  AccountState |-> << Alt("account_uninit", <<0, 0>>, <<>>), Alt("account_active", <<1>>, << F("state_init", Named("StateInit")) >>),
                      Alt("account_frozen", <<0, 1>>, << F("state_hash", Bits(256)) >>) >>,
  AccountStorage |-> << Alt("account_storage", <<>>, << F("last_trans_lt", U(64)), F("balance", CC), F("state", Named("AccountState")) >>) >>,
  Account |-> << Alt("account", <<1>>, << F("addr", AddrInt), F("storage_stat", Named("StorageInfo")), F("storage", Named("AccountStorage")) >>),
                 Alt("account_none", <<0>>, <<>>) >>,
  HashUpdate |-> << Alt("update_hashes", Tag8(114), << F("old_hash", Bits(256)), F("new_hash", Bits(256)) >>) >>,
  \* ---- stand-alone wrappers of the library
  CurrencyCollection |-> << Alt("currencies", <<>>, << F("cc", CC) >>) >>,
  WalletV3Data |-> << Alt("wallet_v3_data", <<>>, << F("seqno", U(32)), F("wallet_id", U(32)), F("public_key", Bits(256)) >>) >>,
  WalletV4Data |-> << Alt("wallet_v4_data", <<>>, << F("seqno", U(32)), F("wallet_id", U(32)), F("public_key", Bits(256)), F("plugins", Maybe(RefCell)) >>) >>,
  NftItemData |-> << Alt("nft_item_data", <<>>, << F("index", U(64)), F("collection_address", AddrInt), F("owner_address", AddrInt), F("content", RefCell) >>) >>,
  NftItemSaleFees |-> << Alt("nft_item_sale_fees", <<>>, << F("marketplace_fee_address", AddrInt), F("marketplace_fee", Grams),
                                                           F("royalty_address", AddrInt), F("royalty_amount", Grams) >>) >>,
  NftItemSaleData |-> << Alt("nft_item_sale_data", <<>>, << F("is_complete", Bool), F("created_at", U(32)), F("marketplace_address", AddrInt),
        F("nft_address", AddrInt), F("nft_owner_address", AddrInt), F("full_price", Grams), F("fees_cell", Ref(Named("NftItemSaleFees"))),
        F("can_deploy_by_external", Bool) >>) >>,
  \* ---- envelopes
  MsgEnvelope |-> << Alt("msg_envelope", <<0, 1, 0, 0>>, << F("cur_addr", Named("IntermediateAddress")), F("next_addr", Named("IntermediateAddress")),
                                                          F("fwd_fee_remaining", Grams), F("msg", Ref(Named("Message"))) >>) >>,
  \* ---- block header parts
  BlkPrevInfo0 |-> << Alt("prev_blk_info", <<>>, << F("prev", Named("ExtBlkRef")) >>) >>,
  BlkPrevInfo1 |-> << Alt("prev_blks_info", <<>>, << F("prev1", Ref(Named("ExtBlkRef"))), F("prev2", Ref(Named("ExtBlkRef"))) >>) >>,
  BlockInfo |-> << Alt("block_info", Tag32(155, 199, 169, 135), <<
        F("version", U(32)), F("not_master", Bool), F("after_merge", Bool), F("before_split", Bool), F("after_split", Bool),
        F("want_split", Bool), F("want_merge", Bool), F("key_block", Bool), F("vert_seqno_incr", Bool), F("flags", UMax(8, 1)),
        F("seq_no", U(32)), F("vert_seq_no", UPos(32)), F("shard", Named("ShardIdent")), F("gen_utime", U(32)), F("start_lt", U(64)), F("end_lt", U(64)),
        F("gen_validator_list_hash_short", U(32)), F("gen_catchain_seqno", U(32)), F("min_ref_mc_seqno", U(32)), F("prev_key_block_seqno", U(32)),
        F("gen_software", IfBit("flags", 0, Named("GlobalVersion"))), F("master_ref", If("not_master", Ref(Named("BlkMasterInfo")))),
        F("prev_ref", RefPick("after_merge", Named("BlkPrevInfo0"), Named("BlkPrevInfo1"))),
        F("prev_vert_ref", If("vert_seqno_incr", Ref(Named("BlkPrevInfo0")))) >>) >>,
  ValueFlowA |-> << Alt("a", <<>>, << F("from_prev_blk", CC), F("to_next_blk", CC), F("imported", CC), F("exported", CC) >>) >>,
  ValueFlowB |-> << Alt("b", <<>>, << F("fees_imported", CC), F("recovered", CC), F("created", CC), F("minted", CC) >>) >>,
  ValueFlow |-> << Alt("value_flow", Tag32(184, 228, 141, 251), << F("a", Ref(Named("ValueFlowA"))), F("fees_collected", CC), F("b", Ref(Named("ValueFlowB"))) >>),
                   Alt("value_flow_v2", Tag32(62, 191, 152, 183), << F("a", Ref(Named("ValueFlowA"))), F("fees_collected", CC), F("burned", CC),
                                                                     F("b", Ref(Named("ValueFlowB"))) >>) >>,
  ValidatorSet |-> << Alt("validators", Tag8(17), << F("utime_since", U(32)), F("utime_until", U(32)), F("total", UPos(16)), F("main", One(16)),
                                                     F("list", Hm(16, Named("ValidatorDescr"))) >>),
                      Alt("validators_ext", Tag8(18), << F("utime_since", U(32)), F("utime_until", U(32)), F("total", UPos(16)), F("main", One(16)),
                                                         F("total_weight", U(64)), F("list", HmE(16, Named("ValidatorDescr"))) >>) >>,
  \* ---- transactions
  \* transaction$0111 account_addr:bits256 lt:uint64 prev_trans_hash:bits256 prev_trans_lt:uint64 now:uint32 outmsg_cnt:uint15
  \*   orig_status:AccountStatus end_status:AccountStatus ^[ in_msg:(Maybe ^(Message Any)) out_msgs:(HashmapE 15 ^(Message Any)) ]
  \*   total_fees:CurrencyCollection state_update:^(HASH_UPDATE Account) description:^TransactionDescr = Transaction;
  TransactionR1 |-> << Alt("r1", <<>>, << F("in_msg", Maybe(Ref(Lite(Named("Message"))))), F("out_msgs", HmE(15, Ref(Lite(Named("Message"))))) >>) >>,
  Transaction |-> << Alt("transaction", <<0,1,1,1>>, << F("account_addr", Bits(256)), F("lt", U(64)), F("prev_trans_hash", Bits(256)), F("prev_trans_lt", U(64)),
        F("now", U(32)), F("outmsg_cnt", U(15)), F("orig_status", Named("AccountStatus")), F("end_status", Named("AccountStatus")),
        F("r1", Ref(Named("TransactionR1"))), F("total_fees", CC), F("state_update", Ref(Named("HashUpdate"))),
        F("description", Ref(Named("TransactionDescr"))) >>) >>,
  \* account_descr$_ account:^Account last_trans_hash:bits256 last_trans_lt:uint64 = ShardAccount;
  ShardAccount |-> << Alt("account_descr", <<>>, << F("account", Ref(Named("Account"))), F("last_trans_hash", Bits(256)), F("last_trans_lt", U(64)) >>) >>,
  \* acc_trans#5 account_addr:bits256 transactions:(HashmapAug 64 ^Transaction CurrencyCollection) state_update:^(HASH_UPDATE Account) = AccountBlock;
  AccountBlock |-> << Alt("acc_trans", <<0,1,0,1>>, << F("account_addr", Bits(256)), F("transactions", HmAug(64, Ref(Lite(Named("Transaction"))), CC)),
        F("state_update", Ref(Named("HashUpdate"))) >>) >>,
  \* import_fees$_ fees_collected:Grams value_imported:CurrencyCollection = ImportFees;
  ImportFees |-> << Alt("import_fees", <<>>, << F("fees_collected", Grams), F("value_imported", CC) >>) >>,
  \* msg_envelope_v2#5 ... emitted_lt:(Maybe uint64) metadata:(Maybe MsgMetadata) (library docstring; newer than the bundled block.tlb)
  MsgEnvelopeAny |-> << Alt("msg_envelope", <<0, 1, 0, 0>>, << F("cur_addr", Named("IntermediateAddress")), F("next_addr", Named("IntermediateAddress")),
                                                            F("fwd_fee_remaining", Grams), F("msg", Ref(Lite(Named("Message")))) >>),
                        Alt("msg_envelope_v2", <<0, 1, 0, 1>>, << F("cur_addr", Named("IntermediateAddress")), F("next_addr", Named("IntermediateAddress")),
                                                               F("fwd_fee_remaining", Grams), F("msg", Ref(Lite(Named("Message")))),
                                                               F("emitted_lt", Maybe(U(64))), F("metadata", Maybe(Named("MsgMetadata"))) >>) >>,
  \* InMsg (block.tlb + the deferred kinds of the library docstring)
  InMsg |-> <<
     Alt("msg_import_ext", <<0,0,0>>, << F("msg", Ref(Lite(Named("Message")))), F("transaction", Ref(Lite(Named("Transaction")))) >>),
     Alt("msg_import_ihr", <<0,1,0>>, << F("msg", Ref(Lite(Named("Message")))), F("transaction", Ref(Lite(Named("Transaction")))), F("ihr_fee", Grams), F("proof_created", RefCell) >>),
     Alt("msg_import_imm", <<0,1,1>>, << F("in_msg", Ref(Lite(Named("MsgEnvelopeAny")))), F("transaction", Ref(Lite(Named("Transaction")))), F("fwd_fee", Grams) >>),
     Alt("msg_import_fin", <<1,0,0>>, << F("in_msg", Ref(Lite(Named("MsgEnvelopeAny")))), F("transaction", Ref(Lite(Named("Transaction")))), F("fwd_fee", Grams) >>),
     Alt("msg_import_tr", <<1,0,1>>, << F("in_msg", Ref(Lite(Named("MsgEnvelopeAny")))), F("out_msg", Ref(Lite(Named("MsgEnvelopeAny")))), F("transit_fee", Grams) >>),
     Alt("msg_discard_fin", <<1,1,0>>, << F("in_msg", Ref(Lite(Named("MsgEnvelopeAny")))), F("transaction_id", U(64)), F("fwd_fee", Grams) >>),
     Alt("msg_discard_tr", <<1,1,1>>, << F("in_msg", Ref(Lite(Named("MsgEnvelopeAny")))), F("transaction_id", U(64)), F("fwd_fee", Grams), F("proof_delivered", RefCell) >>),
     Alt("msg_import_deferred_fin", <<0,0,1,0,0>>, << F("in_msg", Ref(Lite(Named("MsgEnvelopeAny")))), F("transaction", Ref(Lite(Named("Transaction")))), F("fwd_fee", Grams) >>),
     Alt("msg_import_deferred_tr", <<0,0,1,0,1>>, << F("in_msg", Ref(Lite(Named("MsgEnvelopeAny")))), F("out_msg", Ref(Lite(Named("MsgEnvelopeAny")))) >>) >>,
  OutMsg |-> <<
     Alt("msg_export_ext", <<0,0,0>>, << F("msg", Ref(Lite(Named("Message")))), F("transaction", Ref(Lite(Named("Transaction")))) >>),
     Alt("msg_export_imm", <<0,1,0>>, << F("out_msg", Ref(Lite(Named("MsgEnvelopeAny")))), F("transaction", Ref(Lite(Named("Transaction")))), F("reimport", Ref(Lite(Named("InMsg")))) >>),
     Alt("msg_export_new", <<0,0,1>>, << F("out_msg", Ref(Lite(Named("MsgEnvelopeAny")))), F("transaction", Ref(Lite(Named("Transaction")))) >>),
     Alt("msg_export_tr", <<0,1,1>>, << F("out_msg", Ref(Lite(Named("MsgEnvelopeAny")))), F("imported", Ref(Lite(Named("InMsg")))) >>),
     Alt("msg_export_deq", <<1,1,0,0>>, << F("out_msg", Ref(Lite(Named("MsgEnvelopeAny")))), F("import_block_lt", U(63)) >>),
     Alt("msg_export_deq_short", <<1,1,0,1>>, << F("msg_env_hash", Bits(256)), F("next_workchain", I(32)), F("next_addr_pfx", U(64)), F("import_block_lt", U(64)) >>),
     Alt("msg_export_tr_req", <<1,1,1>>, << F("out_msg", Ref(Lite(Named("MsgEnvelopeAny")))), F("imported", Ref(Lite(Named("InMsg")))) >>),
     Alt("msg_export_deq_imm", <<1,0,0>>, << F("out_msg", Ref(Lite(Named("MsgEnvelopeAny")))), F("reimport", Ref(Lite(Named("InMsg")))) >>),
     Alt("msg_export_new_defer", <<1,0,1,0,0>>, << F("out_msg", Ref(Lite(Named("MsgEnvelopeAny")))), F("transaction", Ref(Lite(Named("Transaction")))) >>),
     Alt("msg_export_deferred_tr", <<1,0,1,0,1>>, << F("out_msg", Ref(Lite(Named("MsgEnvelopeAny")))), F("imported", Ref(Lite(Named("InMsg")))) >>) >>,
  \* ---- masterchain extras
  \* _ (HashmapE 32 ^(BinTree ShardDescr)) = ShardHashes;   _ config_addr:bits256 config:^(Hashmap 32 ^Cell) = ConfigParams;
  \* _ (HashmapAugE 32 KeyExtBlkRef KeyMaxLt) = OldMcBlocksInfo;
  \* block_create_stats#17 counters:(HashmapE 256 CreatorStats) / block_create_stats_ext#34 counters:(HashmapAugE 256 CreatorStats uint32)
  ConfigParams |-> << Alt("config_params", <<>>, << F("config_addr", Bits(256)), F("config", Ref(HmS(32, RefCell))) >>) >>,
  BlockCreateStats |-> << Alt("block_create_stats", Tag8(23), << F("counters", HmE(256, Named("CreatorStats"))) >>),
                          Alt("block_create_stats_ext", Tag8(52), << F("counters", HmAugE(256, Named("CreatorStats"), U(32))) >>) >>,
  \* masterchain_state_extra#cc26 shard_hashes:ShardHashes config:ConfigParams ^[ flags:(## 16) { flags <= 1 } validator_info:ValidatorInfo
  \*   prev_blocks:OldMcBlocksInfo after_key_block:Bool last_key_block:(Maybe ExtBlkRef) block_create_stats:(flags . 0)?BlockCreateStats ]
  \*   global_balance:CurrencyCollection = McStateExtra;
  McStateExtraR |-> << Alt("r1", <<>>, << F("flags", UMax(16, 1)), F("validator_info", Named("ValidatorInfo")),
        F("prev_blocks", HmAugE(32, Named("KeyExtBlkRef"), Named("KeyMaxLt"))), F("after_key_block", Bool),
        F("last_key_block", Maybe(Named("ExtBlkRef"))), F("block_create_stats", IfBit("flags", 0, Named("BlockCreateStats"))) >>) >>,
  McStateExtra |-> << Alt("masterchain_state_extra", <<1,1,0,0,1,1,0,0, 0,0,1,0,0,1,1,0>>, <<
        F("shard_hashes", HmE(32, Ref(BinTree(Lite(Named("ShardDescr")))))), F("config", Named("ConfigParams")),
        F("r1", Ref(Named("McStateExtraR"))), F("global_balance", CC) >>) >>,
  \* shard_fee_created#_ fees:CurrencyCollection create:CurrencyCollection;  _ (HashmapAugE 96 ShardFeeCreated ShardFeeCreated) = ShardFees;
  ShardFeeCreated |-> << Alt("shard_fee_created", <<>>, << F("fees", CC), F("create", CC) >>) >>,
  \* masterchain_block_extra#cca5 key_block:(## 1) shard_hashes:ShardHashes shard_fees:ShardFees
  \*   ^[ prev_blk_signatures:(HashmapE 16 CryptoSignaturePair) recover_create_msg:(Maybe ^InMsg) mint_msg:(Maybe ^InMsg) ]
  \*   config:key_block?ConfigParams = McBlockExtra;
  \* sig_pair$_ node_id_short:bits256 sign:CryptoSignature;  ed25519_signature#5 R:bits256 s:bits256
  \* The library hands back these parts unparsed (signature pairs as the leaf's remaining slice, the two messages and the
  \* shard-fee dictionary as cells), so they are transcribed structurally: a HashmapAugE is a bit, an optional reference
  \* and the root extra that follows it.
  McBlockExtraR |-> << Alt("r1", <<>>, << F("prev_blk_signatures", HmE(16, AnyRest)),
        F("recover_create_msg", Maybe(RefCell)), F("mint_msg", Maybe(RefCell)) >>) >>,
  McBlockExtra |-> << Alt("masterchain_block_extra", <<1,1,0,0,1,1,0,0, 1,0,1,0,0,1,0,1>>, <<
        F("key_block", Bool), F("shard_hashes", HmE(32, Ref(BinTree(Lite(Named("ShardDescr")))))),
        F("shard_fees", Maybe(RefCell)), F("shard_fees_extra", Named("ShardFeeCreated")),
        F("r1", Ref(Named("McBlockExtraR"))), F("config", If("key_block", Named("ConfigParams"))) >>) >>,
  \* ---- configuration parameter values (config.py)
  ConfigProposalSetup |-> << Alt("cfg_vote_cfg", Tag8(54), << F("min_tot_rounds", U(8)), F("max_tot_rounds", U(8)), F("min_wins", U(8)), F("max_losses", U(8)),
        F("min_store_sec", U(32)), F("max_store_sec", U(32)), F("bit_price", U(32)), F("cell_price", U(32)) >>) >>,
  ConfigVotingSetup |-> << Alt("cfg_vote_setup", Tag8(145), << F("normal_params", Ref(Named("ConfigProposalSetup"))), F("critical_params", Ref(Named("ConfigProposalSetup"))) >>) >>,
  ComplaintPricing |-> << Alt("complaint_prices", Tag8(26), << F("deposit", Grams), F("bit_price", Grams), F("cell_price", Grams) >>) >>,
  BlockCreateFees |-> << Alt("block_grams_created", Tag8(107), << F("masterchain_block_fee", Grams), F("basechain_block_fee", Grams) >>) >>,
  StoragePrices |-> << Alt("storage_prices", Tag8(204), << F("utime_since", U(32)), F("bit_price_ps", U(64)), F("cell_price_ps", U(64)),
        F("mc_bit_price_ps", U(64)), F("mc_cell_price_ps", U(64)) >>) >>,
  GasLimitsPrices |-> << Alt("gas_prices", Tag8(221), << F("gas_price", U(64)), F("gas_limit", U(64)), F("gas_credit", U(64)), F("block_gas_limit", U(64)),
                                                      F("freeze_due_limit", U(64)), F("delete_due_limit", U(64)) >>),
                         Alt("gas_prices_ext", Tag8(222), << F("gas_price", U(64)), F("gas_limit", U(64)), F("special_gas_limit", U(64)), F("gas_credit", U(64)),
                                                          F("block_gas_limit", U(64)), F("freeze_due_limit", U(64)), F("delete_due_limit", U(64)) >>),
                         Alt("gas_flat_pfx", Tag8(209), << F("flat_gas_limit", U(64)), F("flat_gas_price", U(64)), F("other", Lite(Named("GasLimitsPrices"))) >>) >>,
  \* param_limits#c3 underload:# soft_limit:# { underload <= soft_limit } hard_limit:# { soft_limit <= hard_limit } = ParamLimits;
  ParamLimits |-> << AltC("param_limits", Tag8(195), << F("underload", U(32)), F("soft_limit", U(32)), F("hard_limit", U(32)) >>,
                          << <<"underload", "soft_limit">>, <<"soft_limit", "hard_limit">> >>) >>,
  BlockLimits |-> << Alt("block_limits", Tag8(93), << F("bytes", Named("ParamLimits")), F("gas", Named("ParamLimits")), F("lt_delta", Named("ParamLimits")) >>) >>,
  MsgForwardPrices |-> << Alt("msg_forward_prices", Tag8(234), << F("lump_price", U(64)), F("bit_price", U(64)), F("cell_price", U(64)),
        F("ihr_price_factor", U(32)), F("first_frac", U(16)), F("next_frac", U(16)) >>) >>,
  \* wfmt_basic#1 vm_version:int32 vm_mode:uint64 = WorkchainFormat 1;  wfmt_ext#0 min_addr_len:(## 12) max_addr_len:(## 12) addr_len_step:(## 12)
  \*   { min_addr_len >= 64 } { min_addr_len <= max_addr_len } { max_addr_len <= 1023 } { addr_len_step <= 1023 } workchain_type_id:(## 32) { >= 1 } = WorkchainFormat 0;
  WorkchainFormat1 |-> << Alt("wfmt_basic", <<0,0,0,1>>, << F("vm_version", I(32)), F("vm_mode", U(64)) >>) >>,
  WorkchainFormat0 |-> << AltC("wfmt_ext", <<0,0,0,0>>, << F("min_addr_len", URange(12, 64, 1023)), F("max_addr_len", URange(12, 64, 1023)),
        F("addr_len_step", URange(12, 0, 1023)), F("workchain_type_id", UPos(32)) >>, << <<"min_addr_len", "max_addr_len">> >>) >>,
  WcSplitMergeTimings |-> << Alt("wc_split_merge_timings", <<0,0,0,0>>, << F("split_merge_delay", U(32)), F("split_merge_interval", U(32)),
        F("min_split_merge_interval", U(32)), F("max_split_merge_delay", U(32)) >>) >>,
  \* workchain#a6 / workchain_v2#a7 ... { actual_min_split <= min_split } basic:(## 1) ... flags:(## 13) { flags = 0 } ... format:(WorkchainFormat basic)
  WorkchainDescr |-> <<
     AltC("workchain", Tag8(166), << F("enabled_since", U(32)), F("actual_min_split", U(8)), F("min_split", U(8)), F("max_split", U(8)),
          F("basic", Bool), F("active", Bool), F("accept_msgs", Bool), F("flags", Zero(13)), F("zerostate_root_hash", Bits(256)),
          F("zerostate_file_hash", Bits(256)), F("version", U(32)), F("format", Pick("basic", Named("WorkchainFormat0"), Named("WorkchainFormat1"))) >>,
          << <<"actual_min_split", "min_split">> >>),
     AltC("workchain_v2", Tag8(167), << F("enabled_since", U(32)), F("actual_min_split", U(8)), F("min_split", U(8)), F("max_split", U(8)),
          F("basic", Bool), F("active", Bool), F("accept_msgs", Bool), F("flags", Zero(13)), F("zerostate_root_hash", Bits(256)),
          F("zerostate_file_hash", Bits(256)), F("version", U(32)), F("format", Pick("basic", Named("WorkchainFormat0"), Named("WorkchainFormat1"))),
          F("split_merge_timings", Named("WcSplitMergeTimings")) >>, << <<"actual_min_split", "min_split">> >>) >>,
  ConsensusConfig |-> <<
     Alt("consensus_config", Tag8(214), << F("round_candidates", UPos(32)), F("next_candidate_delay_ms", U(32)), F("consensus_timeout_ms", U(32)),
          F("fast_attempts", U(32)), F("attempt_duration", U(32)), F("catchain_max_deps", U(32)), F("max_block_bytes", U(32)), F("max_collated_bytes", U(32)) >>),
     Alt("consensus_config_new", Tag8(215), << F("flags", Zero(7)), F("new_catchain_ids", Bool), F("round_candidates", UPos(8)), F("next_candidate_delay_ms", U(32)),
          F("consensus_timeout_ms", U(32)), F("fast_attempts", U(32)), F("attempt_duration", U(32)), F("catchain_max_deps", U(32)), F("max_block_bytes", U(32)),
          F("max_collated_bytes", U(32)) >>),
     Alt("consensus_config_v3", Tag8(216), << F("flags", Zero(7)), F("new_catchain_ids", Bool), F("round_candidates", UPos(8)), F("next_candidate_delay_ms", U(32)),
          F("consensus_timeout_ms", U(32)), F("fast_attempts", U(32)), F("attempt_duration", U(32)), F("catchain_max_deps", U(32)), F("max_block_bytes", U(32)),
          F("max_collated_bytes", U(32)), F("proto_version", U(16)) >>),
     Alt("consensus_config_v4", Tag8(217), << F("flags", Zero(7)), F("new_catchain_ids", Bool), F("round_candidates", UPos(8)), F("next_candidate_delay_ms", U(32)),
          F("consensus_timeout_ms", U(32)), F("fast_attempts", U(32)), F("attempt_duration", U(32)), F("catchain_max_deps", U(32)), F("max_block_bytes", U(32)),
          F("max_collated_bytes", U(32)), F("proto_version", U(16)), F("catchain_max_blocks_coeff", U(32)) >>) >>,
  \* suspended_address_list#00 addresses:(HashmapE 288 Unit) suspended_until:uint32 = SuspendedAddressList;
  SuspendedAddressList |-> << Alt("suspended_address_list", Tag8(0), << F("addresses", HmE(288, UnitT)), F("suspended_until", U(32)) >>) >>,
  OracleBridgeParams |-> << Alt("oracle_bridge_params", <<>>, << F("bridge_address", Bits(256)), F("oracle_mutlisig_address", Bits(256)),
        F("oracles", HmE(256, U(256))), F("external_chain_address", Bits(256)) >>) >>,
  JettonBridgePrices |-> << Alt("jetton_bridge_prices", <<>>, << F("bridge_burn_fee", Grams), F("bridge_mint_fee", Grams), F("wallet_min_tons_for_storage", Grams),
        F("wallet_gas_consumption", Grams), F("minter_min_tons_for_storage", Grams), F("discover_gas_consumption", Grams) >>) >>,
  JettonBridgeParams |-> <<
     Alt("jetton_bridge_params_v0", Tag8(0), << F("bridge_address", Bits(256)), F("oracles_address", Bits(256)), F("oracles", HmE(256, U(256))),
          F("state_flags", U(8)), F("burn_bridge_fee", Grams) >>),
     Alt("jetton_bridge_params_v1", Tag8(1), << F("bridge_address", Bits(256)), F("oracles_address", Bits(256)), F("oracles", HmE(256, U(256))),
          F("state_flags", U(8)), F("prices", Ref(Named("JettonBridgePrices"))), F("external_chain_address", Bits(256)) >>) >>,
  \* ---- configuration parameters themselves (ConfigParam n)
  ConfigParam0 |-> << Alt("cp0", <<>>, << F("config_addr", Bits(256)) >>) >>,
  \* burning_config#01 blackhole_addr:(Maybe bits256) fee_burn_nom:# fee_burn_denom:# { fee_burn_nom <= fee_burn_denom } { fee_burn_denom >= 1 }
  ConfigParam5 |-> << AltC("burning_config", Tag8(1), << F("blackhole_addr", Maybe(Bits(256))), F("fee_burn_nom", U(32)), F("fee_burn_denom", UPos(32)) >>,
                            << <<"fee_burn_nom", "fee_burn_denom">> >>) >>,
  ConfigParam6 |-> << Alt("cp6", <<>>, << F("mint_new_price", Grams), F("mint_add_price", Grams) >>) >>,
  ConfigParam7 |-> << Alt("cp7", <<>>, << F("to_mint", HmE(32, VarU(32))) >>) >>,
  ConfigParam9 |-> << Alt("cp9", <<>>, << F("mandatory_params", Hm(32, UnitT)) >>) >>,
  ConfigParam12 |-> << Alt("cp12", <<>>, << F("workchains", HmE(32, Lite(Named("WorkchainDescr")))) >>) >>,
  ConfigParam15 |-> << Alt("cp15", <<>>, << F("validators_elected_for", U(32)), F("elections_start_before", U(32)), F("elections_end_before", U(32)),
        F("stake_held_for", U(32)) >>) >>,
  \* { max_validators >= max_main_validators } { max_main_validators >= min_validators } { min_validators >= 1 }
  ConfigParam16 |-> << AltC("cp16", <<>>, << F("max_validators", U(16)), F("max_main_validators", U(16)), F("min_validators", UPos(16)) >>,
                            << <<"max_main_validators", "max_validators">>, <<"min_validators", "max_main_validators">> >>) >>,
  ConfigParam17 |-> << Alt("cp17", <<>>, << F("min_stake", Grams), F("max_stake", Grams), F("min_total_stake", Grams), F("max_stake_factor", U(32)) >>) >>,
  ConfigParam18 |-> << Alt("cp18", <<>>, << F("prices", Hm(32, Lite(Named("StoragePrices")))) >>) >>,
  ConfigParam31 |-> << Alt("cp31", <<>>, << F("fundamental_smc_addr", HmE(256, UnitT)) >>) >>,
  ConfigParam32 |-> << Alt("cp32", <<>>, << F("prev_validators", Lite(Named("ValidatorSet"))) >>) >>,
  \* _ elector_addr:bits256 = ConfigParam 1;  _ minter_addr:bits256 = ConfigParam 2;  _ fee_collector_addr:bits256 = ConfigParam 3;
  \* _ dns_root_addr:bits256 = ConfigParam 4;  _ critical_params:(Hashmap 32 True) = ConfigParam 10;
  ConfigParam1 |-> << Alt("cp1", <<>>, << F("elector_addr", Bits(256)) >>) >>,
  ConfigParam2 |-> << Alt("cp2", <<>>, << F("minter_addr", Bits(256)) >>) >>,
  ConfigParam3 |-> << Alt("cp3", <<>>, << F("fee_collector_addr", Bits(256)) >>) >>,
  ConfigParam4 |-> << Alt("cp4", <<>>, << F("dns_root_addr", Bits(256)) >>) >>,
  ConfigParam10 |-> << Alt("cp10", <<>>, << F("critical_params", Hm(32, UnitT)) >>) >>,
  \* _ prev_temp_validators:ValidatorSet = ConfigParam 33; cur_validators 34; cur_temp_validators 35; next_validators 36; next_temp_validators 37
  ConfigParam33 |-> << Alt("cp33", <<>>, << F("prev_temp_validators", Lite(Named("ValidatorSet"))) >>) >>,
  ConfigParam34 |-> << Alt("cp34", <<>>, << F("cur_validators", Lite(Named("ValidatorSet"))) >>) >>,
  ConfigParam35 |-> << Alt("cp35", <<>>, << F("cur_temp_validators", Lite(Named("ValidatorSet"))) >>) >>,
  ConfigParam36 |-> << Alt("cp36", <<>>, << F("next_validators", Lite(Named("ValidatorSet"))) >>) >>,
  ConfigParam37 |-> << Alt("cp37", <<>>, << F("next_temp_validators", Lite(Named("ValidatorSet"))) >>) >>,
  \* ---- stand-alone dictionary types
  \* _ (HashmapAugE 32 KeyExtBlkRef KeyMaxLt) = OldMcBlocksInfo;   _ (HashmapAugE 256 ShardAccount DepthBalanceInfo) = ShardAccounts;
  OldMcBlocksInfo |-> << Alt("old_mc_blocks_info", <<>>, << F("d", HmAugE(32, Named("KeyExtBlkRef"), Named("KeyMaxLt"))) >>) >>,
  ShardAccounts |-> << Alt("shard_accounts", <<>>, << F("d", HmAugE(256, Lite(Named("ShardAccount")), Named("DepthBalanceInfo"))) >>) >>,
  \* ---- highload wallet data (custom/wallet.py)
  \* wallet_message$_ send_mode:uint8 message:^MessageAny = WalletMessage;
  \* highload_wallet_data#_ wallet_id:uint32 last_cleaned:uint64 public_key:bits256 old_queries:(HashmapE 64 WalletMessage) = HighloadWalletData;
  WalletMessage |-> << Alt("wallet_message", <<>>, << F("send_mode", U(8)), F("message", Ref(Lite(Named("Message")))) >>) >>,
  HighloadWalletData |-> << Alt("highload_wallet_data", <<>>, << F("wallet_id", U(32)), F("last_cleaned", U(64)), F("public_key", Bits(256)),
        F("old_queries", HmE(64, Named("WalletMessage"))) >>) >>,
  \* ---- output action lists:  out_list_empty$_ = OutList 0;  out_list$_ {n:#} prev:^(OutList n) action:OutAction = OutList (n + 1);
  \* (the length parameter n is part of the type: one transcribed type per length)
  OutList0 |-> << Alt("out_list_empty", <<>>, <<>>) >>,
  OutList1 |-> << Alt("out_list", <<>>, << F("prev", Ref(Named("OutList0"))), F("action", Named("OutAction")) >>) >>,
  OutList2 |-> << Alt("out_list", <<>>, << F("prev", Ref(Named("OutList1"))), F("action", Named("OutAction")) >>) >>,
  OutList3 |-> << Alt("out_list", <<>>, << F("prev", Ref(Named("OutList2"))), F("action", Named("OutAction")) >>) >>,
  \* ---- output actions
  \* libref_hash$0 lib_hash:bits256 = LibRef;  libref_ref$1 library:^Cell = LibRef;
  LibRef |-> << Alt("libref_hash", <<0>>, << F("lib_hash", Bits(256)) >>), Alt("libref_ref", <<1>>, << F("library", RefCell) >>) >>,
  \* action_send_msg#0ec3c86d mode:(## 8) out_msg:^(MessageRelaxed Any);  action_set_code#ad4de08e new_code:^Cell;
  \* action_reserve_currency#36e6b809 mode:(## 8) currency:CurrencyCollection;  action_change_library#26fa1dd4 mode:(## 7) libref:LibRef
  \* (out_msg is generated as a Message: every Message is a MessageRelaxed)
  OutAction |-> << Alt("action_send_msg", Tag32(14, 195, 200, 109), << F("mode", U(8)), F("out_msg", Ref(Lite(Named("Message")))) >>),
                   Alt("action_set_code", Tag32(173, 77, 224, 142), << F("new_code", RefCell) >>),
                   Alt("action_reserve_currency", Tag32(54, 230, 184, 9), << F("mode", U(8)), F("currency", CC) >>),
                   Alt("action_change_library", Tag32(38, 250, 29, 212), << F("mode", U(7)), F("libref", Named("LibRef")) >>) >>,
  \* ---- shard state
  \* shard_state#9023afe2 global_id:int32 shard_id:ShardIdent seq_no:uint32 vert_seq_no:# gen_utime:uint32 gen_lt:uint64 min_ref_mc_seqno:uint32
  \*   out_msg_queue_info:^OutMsgQueueInfo before_split:(## 1) accounts:^ShardAccounts ^[ overload_history:uint64 underload_history:uint64
  \*   total_balance:CurrencyCollection total_validator_fees:CurrencyCollection libraries:(HashmapE 256 LibDescr) master_ref:(Maybe BlkMasterInfo) ]
  \*   custom:(Maybe ^McStateExtra) = ShardStateUnsplit;     _ (HashmapAugE 256 ShardAccount DepthBalanceInfo) = ShardAccounts;
  \* (the library keeps out_msg_queue_info as a cell and the library descriptors as their leaf slices)
  ShardStateR |-> << Alt("r1", <<>>, << F("overload_history", U(64)), F("underload_history", U(64)), F("total_balance", CC),
        F("total_validator_fees", CC), F("libraries", HmE(256, AnyRest)), F("master_ref", Maybe(Named("BlkMasterInfo"))) >>) >>,
  ShardStateUnsplit |-> << Alt("shard_state", Tag32(144, 35, 175, 226), ShardStateFields) >>,
  \* _ ShardStateUnsplit = ShardState;   split_state#5f327da5 left:^ShardStateUnsplit right:^ShardStateUnsplit = ShardState;
  \* (the first alternative has no tag of its own: it is told apart by shard_state's tag, so its fields are transcribed in place)
  ShardState |-> << Alt("shard_state_unsplit_", Tag32(144, 35, 175, 226), ShardStateFields),
                    Alt("split_state", Tag32(95, 50, 125, 165), << F("left", Ref(Lite(Named("ShardStateUnsplit")))),
                                                                  F("right", Ref(Lite(Named("ShardStateUnsplit")))) >>) >>,
  \* ---- the block itself
  \* block_extra in_msg_descr:^InMsgDescr out_msg_descr:^OutMsgDescr account_blocks:^ShardAccountBlocks rand_seed:bits256 created_by:bits256
  \*   custom:(Maybe ^McBlockExtra) = BlockExtra;   InMsgDescr = HashmapAugE 256 InMsg ImportFees, OutMsgDescr = HashmapAugE 256 OutMsg
  \*   CurrencyCollection, ShardAccountBlocks = HashmapAugE 256 AccountBlock CurrencyCollection.
  BlockExtra |-> << Alt("block_extra", Tag32(74, 51, 246, 253), <<
        F("in_msg_descr", Ref(HmAugE(256, Lite(Named("InMsg")), Named("ImportFees")))), F("out_msg_descr", Ref(HmAugE(256, Lite(Named("OutMsg")), CC))),
        F("account_blocks", Ref(HmAugE(256, Lite(Named("AccountBlock")), CC))), F("rand_seed", Bits(256)), F("created_by", Bits(256)),
        F("custom", Maybe(Ref(Lite(Named("McBlockExtra"))))) >>) >>,
  \* block#11ef55aa global_id:int32 info:^BlockInfo value_flow:^ValueFlow state_update:^(MERKLE_UPDATE ShardState) extra:^BlockExtra = Block;
  Block |-> << Alt("block", Tag32(17, 239, 85, 170), << F("global_id", I(32)), F("info", Ref(Named("BlockInfo"))), F("value_flow", Ref(Named("ValueFlow"))),
        F("state_update", RefAny), F("extra", Ref(Lite(Named("BlockExtra")))) >>) >>
]
\* constructor labels: where the library names a constructor differently from block.tlb (data, compared by TLC);
\* "" = the library reports the alternative as an absent object; constructors not listed carry their block.tlb name
Labels == [
  acst_unchanged |-> "unchanged", acst_frozen |-> "frozen", acst_deleted |-> "deleted",
  acc_state_uninit |-> "uninitialized", acc_state_frozen |-> "frozen", acc_state_active |-> "active", acc_state_nonexist |-> "nonexist",
  cskip_no_state |-> "no_state", cskip_bad_state |-> "bad_state", cskip_no_gas |-> "no_gas", cskip_suspended |-> "suspended",
  tr_phase_compute_skipped |-> "skipped", tr_phase_compute_vm |-> "vm",
  tr_phase_bounce_negfunds |-> "negfunds", tr_phase_bounce_nofunds |-> "nofunds", tr_phase_bounce_ok |-> "ok",
  trans_ord |-> "ordinary", trans_storage |-> "storage", trans_tick_tock |-> "tick_tock", trans_split_prepare |-> "split_prepare",
  trans_split_install |-> "split_install", trans_merge_prepare |-> "merge_prepare", trans_merge_install |-> "merge_install",
  fsm_none |-> "", account_none |-> "", shard_state_unsplit_ |-> "_",
  \* anonymous ^[ ... ] groups of block.tlb, transcribed as auxiliary one-alternative types: no constructor of their own
  rest |-> "*", a |-> "*", b |-> "*", r1 |-> "*"
]
\* configuration parameters that are another type under a new name (block.tlb: "_ GlobalVersion = ConfigParam 8;" ...): the
\* library has one parser class per parameter; each is exercised with the values of the type it stands for
SameAs == [
  ConfigParam8 |-> "GlobalVersion", ConfigParam11 |-> "ConfigVotingSetup", ConfigParam13 |-> "ComplaintPricing", ConfigParam14 |-> "BlockCreateFees",
  ConfigParam20 |-> "GasLimitsPrices", ConfigParam21 |-> "GasLimitsPrices", ConfigParam22 |-> "BlockLimits", ConfigParam23 |-> "BlockLimits",
  ConfigParam24 |-> "MsgForwardPrices", ConfigParam25 |-> "MsgForwardPrices", ConfigParam28 |-> "CatchainConfig", ConfigParam29 |-> "ConsensusConfig",
  ConfigParam44 |-> "SuspendedAddressList", ConfigParam71 |-> "OracleBridgeParams", ConfigParam72 |-> "OracleBridgeParams",
  ConfigParam73 |-> "OracleBridgeParams", ConfigParam79 |-> "JettonBridgeParams", ConfigParam81 |-> "JettonBridgeParams", ConfigParam82 |-> "JettonBridgeParams",
  BlkPrevInfoA |-> "BlkPrevInfo0", BlkPrevInfoB |-> "BlkPrevInfo1"
]
TypeOf(nm) == IF nm \in DOMAIN SameAs THEN SameAs[nm] ELSE nm
LabelOf(c) == IF c \in DOMAIN Labels THEN Labels[c] ELSE c
=============================================================================
