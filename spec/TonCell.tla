------------------------------- MODULE TonCell -------------------------------
(* TON cells: descriptors, level masks, per-level hashes and depths          *)
(* (ordinary, pruned-branch, library, Merkle-proof and Merkle-update cells), *)
(* as defined by the TVM whitepaper 3.1.4-3.1.7 and TON's DataCell::create.  *)
(*                                                                           *)
(* A cell is a record [t, n, y, r]:                                          *)
(*   t  type: 0 ordinary, otherwise the exotic type byte (1 pruned branch,   *)
(*      2 library reference, 3 Merkle proof, 4 Merkle update)                *)
(*   n  number of data bits, y zero-padded data bytes (a TonBits BitStr)     *)
(*   r  references: indices of EARLIER cells of the same heap                *)
(* A heap is a sequence of cells in which children precede parents.          *)
(* The hash function and its length are parameters: Sha256/32 for traces,    *)
(* an injective symbolic hash for model checking.                            *)
EXTENDS TonBits, Bitwise
CONSTANTS Hash(_), HLen, MaxBits, MaxRefs, MaxDepth

ORD == 0  PRUNED == 1  LIBRARY == 2  MPROOF == 3  MUPDATE == 4

\* ---- level-mask algebra (masks are 0..7, levels 0..3)
Pop(m)      == (m % 2) + ((m \div 2) % 2) + ((m \div 4) % 2)           \* hash index of the top level
Lvl(m)      == IF m >= 4 THEN 3 ELSE IF m >= 2 THEN 2 ELSE IF m >= 1 THEN 1 ELSE 0
Apply(m, l) == m % (2^l)                                                 \* mask restricted to levels <= l
IsSig(m, l) == l = 0 \/ (m \div 2^(l - 1)) % 2 = 1
HashIndex(m, l) == Pop(Apply(m, l))

\* ---- descriptors
D1(c, m) == Len(c.r) + (IF c.t # ORD THEN 8 ELSE 0) + 32 * m
D2(c)    == (c.n \div 8) + ((c.n + 7) \div 8)
Data(c)  == PadCompletion([n |-> c.n, y |-> c.y])

IsMerkle(c) == c.t = MPROOF \/ c.t = MUPDATE

\* info of a computed cell: [mask, hs, ds] -- the hashes/depths the cell itself owns:
\* one per significant level for non-pruned cells, only the top one for a pruned branch
MaskOf(c, info) ==
    IF c.t = ORD THEN FoldLeft(LAMBDA a, j : a | info[j].mask, 0, c.r)
    ELSE IF c.t = PRUNED THEN Data(c)[2]
    ELSE IF c.t = LIBRARY THEN 0
    ELSE IF c.t = MPROOF THEN info[c.r[1]].mask \div 2
    ELSE (info[c.r[1]].mask | info[c.r[2]].mask) \div 2

\* hash / depth of a computed cell (c raw, inf its info) at level l \in 0..3
HashOf(c, inf, l) ==
    LET m == inf.mask  hi == HashIndex(m, l)
    IN IF c.t = PRUNED
       THEN IF hi # Pop(m) THEN Sub(Data(c), 3 + HLen * hi, HLen) ELSE inf.hs[1]
       ELSE inf.hs[hi + 1]
DepthOf(c, inf, l) ==
    LET m == inf.mask  hi == HashIndex(m, l)
    IN IF c.t = PRUNED
       THEN IF hi # Pop(m) THEN UBE(Data(c), 3 + HLen * Pop(m) + 2 * hi, 2) ELSE inf.ds[1]
       ELSE inf.ds[hi + 1]

\* the representation whose hash is the level-li hash; prev = hashes computed so far
ReprAt(c, m, li, prev, cds, chs) ==
    <<D1(c, Apply(m, li)), D2(c)>>
    \o (IF prev = <<>> THEN Data(c) ELSE prev[Len(prev)])
    \o Flat([j \in 1..Len(cds) |-> BE(cds[j], 2)])
    \o Flat(chs)

\* the standard representation of an ordinary level-0 cell k (C01): descriptors, padded data, children's depths, children's hashes
Repr0(heap, info, k) ==
    LET c == heap[k] IN
    ReprAt(c, 0, 0, <<>>, [j \in 1..Len(c.r) |-> DepthOf(heap[c.r[j]], info[c.r[j]], 0)],
                          [j \in 1..Len(c.r) |-> HashOf(heap[c.r[j]], info[c.r[j]], 0)])

Compute(c, heap, info) ==
    LET m    == MaskOf(c, info)
        sig  == SelectSeq(<<0, 1, 2, 3>>, LAMBDA l : l <= Lvl(m) /\ IsSig(m, l))
        lv   == IF c.t = PRUNED THEN <<sig[Len(sig)]>> ELSE sig
        step(acc, li) ==
            LET cl  == IF IsMerkle(c) THEN li + 1 ELSE li
                cds == [j \in 1..Len(c.r) |-> DepthOf(heap[c.r[j]], info[c.r[j]], cl)]
                chs == [j \in 1..Len(c.r) |-> HashOf(heap[c.r[j]], info[c.r[j]], cl)]
            IN [hs |-> Append(acc.hs, Hash(ReprAt(c, m, li, acc.hs, cds, chs))),
                ds |-> Append(acc.ds, IF c.r = <<>> THEN 0 ELSE 1 + FoldLeft(Max2, 0, cds))]
        res  == FoldLeft(step, [hs |-> <<>>, ds |-> <<>>], lv)
    IN [mask |-> m, hs |-> res.hs, ds |-> res.ds]

\* infos of a whole heap (children first)
InfoAll(heap) == FoldLeft(LAMBDA info, k : Append(info, Compute(heap[k], heap, info)),
                          <<>>, [k \in 1..Len(heap) |-> k])
HashAt(heap, info, k, l)  == HashOf(heap[k], info[k], l)
DepthAt(heap, info, k, l) == DepthOf(heap[k], info[k], l)
TopHash(heap, info, k)    == info[k].hs[Len(info[k].hs)]      \* the representation hash (Cell.hash)

\* ---- which cells are spec-valid (TON DataCell::create); info = infos of the EARLIER cells
Shape(c) == /\ c.n <= MaxBits /\ Len(c.r) <= MaxRefs
            /\ Len(c.y) = (c.n + 7) \div 8
            /\ (c.n % 8 # 0 => c.y[Len(c.y)] % 2^(8 - (c.n % 8)) = 0)
ValidCell(c, heap, info) ==
    /\ Shape(c)
    /\ \A j \in 1..Len(c.r) : c.r[j] \in 1..Len(info)
    /\ CASE c.t = ORD -> TRUE
         [] c.t = PRUNED ->
              /\ c.r = <<>> /\ c.n >= 16
              /\ c.y[1] = PRUNED /\ c.y[2] \in 1..7
              /\ c.n = 16 + Pop(c.y[2]) * (8 * HLen + 16)
         [] c.t = LIBRARY -> c.r = <<>> /\ c.n = 8 + 8 * HLen /\ c.y[1] = LIBRARY
         [] c.t = MPROOF ->
              /\ Len(c.r) = 1 /\ c.n = 8 + 8 * (HLen + 2) /\ c.y[1] = MPROOF
              /\ Sub(c.y, 2, HLen) = HashOf(heap[c.r[1]], info[c.r[1]], 0)
              /\ UBE(c.y, 2 + HLen, 2) = DepthOf(heap[c.r[1]], info[c.r[1]], 0)
         [] c.t = MUPDATE ->
              /\ Len(c.r) = 2 /\ c.n = 8 + 16 * (HLen + 2) /\ c.y[1] = MUPDATE
              /\ Sub(c.y, 2, HLen) = HashOf(heap[c.r[1]], info[c.r[1]], 0)
              /\ Sub(c.y, 2 + HLen, HLen) = HashOf(heap[c.r[2]], info[c.r[2]], 0)
              /\ UBE(c.y, 2 + 2 * HLen, 2) = DepthOf(heap[c.r[1]], info[c.r[1]], 0)
              /\ UBE(c.y, 4 + 2 * HLen, 2) = DepthOf(heap[c.r[2]], info[c.r[2]], 0)
         [] OTHER -> FALSE
    \* level <= 3 and depth <= MaxDepth at every level
    /\ LET inf == Compute(c, heap, info)
       IN inf.mask \in 0..7 /\ \A i \in 1..Len(inf.ds) : inf.ds[i] <= MaxDepth

\* ---- constructors of exotic cells (TON create_pruned_branch / create_merkle_proof / _update)
\* pruned branch standing for cell k at level lvl (1..3): mask = mask(k) | 2^(lvl-1),
\* one stored hash and depth per significant level below lvl... (exactly: per hash index of the NEW mask below its top)
MkPruned(heap, info, k, lvl) ==
    LET m   == info[k].mask | 2^(lvl - 1)
        lvs == SelectSeq(<<0, 1, 2>>, LAMBDA l : l < Lvl(m) /\ IsSig(m, l))
        hs  == Flat([j \in 1..Len(lvs) |-> HashAt(heap, info, k, lvs[j])])
        ds  == Flat([j \in 1..Len(lvs) |-> BE(DepthAt(heap, info, k, lvs[j]), 2)])
        y   == <<PRUNED, m>> \o hs \o ds
    IN [t |-> PRUNED, n |-> 8 * Len(y), y |-> y, r |-> <<>>]
MkMerkleProof(heap, info, k) ==
    LET y == <<MPROOF>> \o HashAt(heap, info, k, 0) \o BE(DepthAt(heap, info, k, 0), 2)
    IN [t |-> MPROOF, n |-> 8 * Len(y), y |-> y, r |-> <<k>>]
MkMerkleUpdate(heap, info, k1, k2) ==
    LET y == <<MUPDATE>> \o HashAt(heap, info, k1, 0) \o HashAt(heap, info, k2, 0)
                \o BE(DepthAt(heap, info, k1, 0), 2) \o BE(DepthAt(heap, info, k2, 0), 2)
    IN [t |-> MUPDATE, n |-> 8 * Len(y), y |-> y, r |-> <<k1, k2>>]
MkLibrary(h) == [t |-> LIBRARY, n |-> 8 * (1 + HLen), y |-> <<LIBRARY>> \o h, r |-> <<>>]
MkOrd(bits, refs) == LET bs == BitStrOf(bits) IN [t |-> ORD, n |-> bs.n, y |-> bs.y, r |-> refs]

\* structural unfolding of cell k (a tree; used to state hash-equality = structural equality)
RECURSIVE Unfold(_, _)
Unfold(heap, k) == [t |-> heap[k].t, n |-> heap[k].n, y |-> heap[k].y,
                    r |-> [j \in 1..Len(heap[k].r) |-> Unfold(heap, heap[k].r[j])]]
=============================================================================
