----------------------------- MODULE TlbCompare -----------------------------
(* Leaf-by-leaf comparison of what a library parser reports (obs, produced by *)
(* the schema-free object walker) with the abstract value the TonTlb          *)
(* interpreter gives every leaf of an encoded value (flat).  Shared by the    *)
(* C15 and C16 trace specifications.  "Logical equality" normalisations are   *)
(* explicit here: an empty dictionary may be reported as none; a constructor  *)
(* is identified by the library's label for it (TlbSchema!Labels).            *)
EXTENDS TlbSchema, FiniteSets
HasF(rec, f) == f \in DOMAIN rec
CtorOk(a, o) == \/ LabelOf(a.ctor) = "*"                                 \* auxiliary group, not a constructor
                \/ HasF(o, "skip")                                       \* the library object carries no constructor label
                \/ (LabelOf(a.ctor) = "" /\ HasF(o, "none"))             \* alternative reported as an absent object
                \/ (LabelOf(a.ctor) \notin {"", "*"} /\ HasF(o, "label") /\ o.label = LabelOf(a.ctor))
Same0(a, o) == \/ o = a
               \/ (HasF(o, "skip") /\ ~HasF(a, "ctor"))
               \/ (HasF(a, "dict") /\ a.dict = <<>> /\ HasF(o, "none"))
               \/ (HasF(a, "ctor") /\ CtorOk(a, o))
\* extras of an augmented dictionary: one list of leaves per extra, in the parser's depth-first order
ExtrasOk(a, o) == /\ HasF(o, "extras") /\ Len(o.extras) = Len(a.extras)
                  /\ \A j \in 1..Len(a.extras) :
                        /\ Len(o.extras[j]) = Len(a.extras[j])
                        /\ \A i \in 1..Len(a.extras[j]) : Same0(a.extras[j][i].a, o.extras[j][i])
Same(a, o) == IF HasF(a, "extras") THEN ExtrasOk(a, o) ELSE Same0(a, o)
LeafName(l) == IF l.path = <<>> THEN "root" ELSE l.path[Len(l.path)]
\* the set of failed clauses of one parse record [type, flat, obs, rem | err]
ParseFailed(r) ==
    IF HasF(r, "err") THEN {"parse_raised_" \o r.type}
    ELSE UNION {IF Same(r.flat[i].a, r.obs[i]) THEN {}
                ELSE {(IF HasF(r.flat[i].a, "ctor") THEN "constructor_wrong_" ELSE "field_wrong_") \o r.type \o "." \o LeafName(r.flat[i])}
                : i \in 1..Len(r.flat)}
         \cup (IF r.rem.bits = 0 /\ r.rem.refs = 0 THEN {} ELSE {"consumed_exact_" \o r.type})
=============================================================================
