------------------------------ MODULE TonBits ------------------------------
(* Bits, bytes and big integers for the TON data model.                     *)
(*                                                                          *)
(* TLC integers are 32-bit.  Everything that may exceed 2^31-1 is a         *)
(* sequence: bytes are Seq(0..255), bit strings are Seq({0,1}) (model       *)
(* level) or a "BitStr" record [n |-> bit length, y |-> zero padded bytes]  *)
(* (trace level, up to 1023 bits), big integers are sign-magnitude records  *)
(* [neg |-> 0/1, mag |-> big-endian bytes without leading zeros].           *)
EXTENDS Naturals, Integers, Sequences, SequencesExt, FiniteSets, TLC

Bit  == {0, 1}
Byte == 0..255

Max2(a, b) == IF a > b THEN a ELSE b
Min2(a, b) == IF a < b THEN a ELSE b
Flat(ss)   == FoldLeft(LAMBDA a, x : a \o x, <<>>, ss)
Rep(n, x)  == [i \in 1..n |-> x]
Sub(s, off, len) == SubSeq(s, off, off + len - 1)         \* 1-based offset
RevSeq(s)  == [i \in 1..Len(s) |-> s[Len(s) + 1 - i]]
SumSeq(s)  == FoldLeft(LAMBDA a, x : a + x, 0, s)
Pow2(k)    == 2^k                                           \* k <= 30 only

\* ---- small unsigned integers <-> big-endian / little-endian bytes (value < 2^31)
RECURSIVE UAcc(_, _, _, _)
UAcc(bs, off, len, acc) == IF len = 0 THEN acc ELSE UAcc(bs, off + 1, len - 1, acc * 256 + bs[off])
UBE(bs, off, len) == UAcc(bs, off, len, 0)
\* the bytes beyond the low four must be zero for the value to be representable
BE(v, n) == [i \in 1..n |-> IF n - i > 3 THEN 0 ELSE (v \div 256^(n - i)) % 256]
LE(v, n) == [i \in 1..n |-> IF i > 4 THEN 0 ELSE (v \div 256^(i - 1)) % 256]
\* TRUE iff the len-byte big-endian field at off holds a value < 2^31
SmallBE(bs, off, len) == \A i \in 0..(len - 1) : (len - i > 4 => bs[off + i] = 0) /\ (len - i = 4 => bs[off + i] < 128)

\* ---- bit sequences <-> bytes
BitsOfByte(b) == [i \in 1..8 |-> (b \div 2^(8 - i)) % 2]
BytesToBits(bs) == Flat([i \in 1..Len(bs) |-> BitsOfByte(bs[i])])
ByteOfBits(bits, k) == bits[8*k-7]*128 + bits[8*k-6]*64 + bits[8*k-5]*32 + bits[8*k-4]*16
                       + bits[8*k-3]*8 + bits[8*k-2]*4 + bits[8*k-1]*2 + bits[8*k]
BitsToBytes(bits) == [k \in 1..(Len(bits) \div 8) |-> ByteOfBits(bits, k)]   \* Len(bits) % 8 = 0
ZeroPad(bits) == IF Len(bits) % 8 = 0 THEN bits ELSE bits \o Rep(8 - (Len(bits) % 8), 0)

\* ---- BitStr: [n, y] with y = ceil(n/8) bytes, unused low bits zero
BitStrOf(bits) == [n |-> Len(bits), y |-> BitsToBytes(ZeroPad(bits))]
BitsOf(bs) == SubSeq(BytesToBits(bs.y), 1, bs.n)
WellFormedBitStr(bs) ==
    /\ Len(bs.y) = (bs.n + 7) \div 8
    /\ bs.n % 8 # 0 => bs.y[Len(bs.y)] % 2^(8 - (bs.n % 8)) = 0
BitAt(bs, i) == (bs.y[((i - 1) \div 8) + 1] \div 2^(7 - ((i - 1) % 8))) % 2      \* 1-based
\* TON completion tag: a 1 bit then zeros up to the byte boundary, only when n % 8 # 0
PadCompletion(bs) ==
    IF bs.n % 8 = 0 THEN bs.y
    ELSE [bs.y EXCEPT ![Len(bs.y)] = @ + 2^(7 - (bs.n % 8))]
RECURSIVE Tz(_)
Tz(b) == IF b % 2 = 1 THEN 0 ELSE 1 + Tz(b \div 2)                          \* trailing zeros, b # 0
\* inverse: padded bytes with tag -> BitStr ; requires last byte # 0
\* (total: data without a completion tag - empty, or last byte 0 - denotes nothing; callers check the tag separately)
StripCompletion(y) ==
    IF y = <<>> \/ y[Len(y)] = 0 THEN [n |-> 0, y |-> <<>>]
    ELSE LET k == Len(y)  t == Tz(y[k])
         IN [n |-> 8 * k - 1 - t, y |-> IF t = 7 THEN SubSeq(y, 1, k - 1) ELSE [y EXCEPT ![k] = @ - 2^t]]

\* ---- two's complement / unsigned encodings of small values as bit sequences (model level)
NatBits(v, w) == [i \in 1..w |-> IF w - i > 30 THEN 0 ELSE (v \div 2^(w - i)) % 2]
RECURSIVE BitsNat(_)
BitsNat(bits) == IF bits = <<>> THEN 0 ELSE 2 * BitsNat(SubSeq(bits, 1, Len(bits) - 1)) + bits[Len(bits)]
UIntFitsSmall(v, w) == v >= 0 /\ (w > 30 \/ v < 2^w)
IntFitsSmall(v, w)  == w >= 1 /\ (w > 31 \/ (v >= -(2^(w - 1)) /\ v < 2^(w - 1)))
IntBitsSmall(v, w)  == IF v >= 0 THEN NatBits(v, w)
                       ELSE LET m == NatBits(-v - 1, w) IN [i \in 1..w |-> 1 - m[i]]     \* ~(|v|-1)
BitsIntSmall(bits)  == IF bits = <<>> THEN 0
                       ELSE IF bits[1] = 0 THEN BitsNat(bits)
                       ELSE -(BitsNat([i \in 1..Len(bits) |-> 1 - bits[i]]) + 1)

\* ---- big integers: [neg, mag] sign-magnitude, mag big-endian bytes, no leading zero, zero = [0, <<>>]
BigWF(x)   == x.neg \in {0, 1} /\ (x.mag # <<>> => x.mag[1] # 0) /\ (x.mag = <<>> => x.neg = 0)
RECURSIVE StripLead(_)
StripLead(bs) == IF bs # <<>> /\ bs[1] = 0 THEN StripLead(Tail(bs)) ELSE bs
RECURSIVE BitLen8(_)
BitLen8(b) == IF b = 0 THEN 0 ELSE 1 + BitLen8(b \div 2)
MagBitLen(mag) == IF mag = <<>> THEN 0 ELSE 8 * (Len(mag) - 1) + BitLen8(mag[1])
\* magnitude (byte sequence) minus one; mag # <<>>
RECURSIVE DecMag(_)
DecMag(mag) == LET k == Len(mag) IN
    IF mag[k] > 0 THEN [mag EXCEPT ![k] = @ - 1] ELSE DecMag(SubSeq(mag, 1, k - 1)) \o <<255>>
IsPow2Mag(mag) == mag # <<>> /\ mag[1] \in {1,2,4,8,16,32,64,128} /\ \A i \in 2..Len(mag) : mag[i] = 0
\* fits w unsigned bits / w signed (two's complement) bits
BigUFits(x, w) == x.neg = 0 /\ MagBitLen(x.mag) <= w
BigSFits(x, w) == IF x.neg = 0 THEN MagBitLen(x.mag) <= w - 1
                  ELSE MagBitLen(x.mag) <= w - 1 \/ (MagBitLen(x.mag) = w /\ IsPow2Mag(x.mag))
\* left-pad magnitude bytes to k bytes
PadMag(mag, k) == Rep(k - Len(mag), 0) \o mag
\* w-bit big-endian encoding as a bit sequence (w <= 1023)
BigUBits(x, w) == LET k == (w + 7) \div 8  all == BytesToBits(PadMag(x.mag, k)) IN SubSeq(all, 8 * k - w + 1, 8 * k)
BigSBits(x, w) == IF x.neg = 0 THEN BigUBits(x, w)
                  ELSE LET d == StripLead(DecMag(x.mag))                    \* |v| - 1
                           u == BigUBits([neg |-> 0, mag |-> d], w)
                       IN [i \in 1..w |-> 1 - u[i]]
BigOfUBits(bits) == LET k == (Len(bits) + 7) \div 8
                        all == Rep(8 * k - Len(bits), 0) \o bits
                    IN [neg |-> 0, mag |-> StripLead(BitsToBytes(all))]
\* magnitude plus one
RECURSIVE IncMag(_)
IncMag(mag) == IF mag = <<>> THEN <<1>>
               ELSE LET k == Len(mag) IN IF mag[k] < 255 THEN [mag EXCEPT ![k] = @ + 1]
                                        ELSE IncMag(SubSeq(mag, 1, k - 1)) \o <<0>>
BigOfSBits(bits) == IF bits = <<>> \/ bits[1] = 0 THEN BigOfUBits(bits)
                    ELSE LET inv == BigOfUBits([i \in 1..Len(bits) |-> 1 - bits[i]])
                         IN [neg |-> 1, mag |-> IncMag(inv.mag)]
\* minimal byte length of the TL-B VarUInteger / VarInteger payload
MinBytesU(x) == Len(x.mag)
MinBytesS(x) == IF x.mag = <<>> THEN 0
                ELSE IF x.neg = 0 THEN (MagBitLen(x.mag) + 1 + 7) \div 8
                ELSE IF IsPow2Mag(x.mag) THEN (MagBitLen(x.mag) + 7) \div 8
                ELSE (MagBitLen(x.mag) + 1 + 7) \div 8
BigOfNat(v) == [neg |-> 0, mag |-> StripLead(BE(v, 4))]
BigOfInt(v) == IF v >= 0 THEN BigOfNat(v) ELSE [neg |-> 1, mag |-> StripLead(BE(-v, 4))]
=============================================================================
