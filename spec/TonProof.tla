------------------------------- MODULE TonProof -------------------------------
(* Merkle proof checks (C11) as predicates over heaps of TonCell cells.       *)
(* Parameterised like TonCell (real or symbolic hash).                        *)
EXTENDS TonBits
CONSTANTS Hash(_), HLen
C == INSTANCE TonCell WITH MaxBits <- 1023, MaxRefs <- 4, MaxDepth <- 1023

\* generic check: cell k must be a Merkle proof whose stored hash is h and whose child really has level-0 hash h
CheckProof(heap, info, k, h) ==
    /\ heap[k].t = C!MPROOF
    /\ Len(heap[k].r) = 1
    /\ heap[k].n >= 8 * (1 + HLen) /\ Sub(heap[k].y, 2, HLen) = h
    /\ C!HashAt(heap, info, heap[k].r[1], 0) = h
\* block header: the (possibly pruned) block root must have level-0 hash = the block's root hash;
\* the new state hash is the level-0 hash of the second child of the state-update cell (third reference)
CheckBlockHeader(heap, info, k, h) == C!HashAt(heap, info, k, 0) = h
StateHashOf(heap, info, k) == C!HashAt(heap, info, heap[heap[k].r[3]].r[2], 0)
\* ... but the block hash commits to the new state only through the Merkle update cell's stored new_hash field (the update's own
\* hash covers its data and its children's LEVEL-1 hashes): the child's level-0 hash is the committed state hash only if the cell is
\* a well-formed Merkle update (TON refuses to load one whose stored hashes differ from its children's level-0 hashes).  A pruned
\* branch with two stored hashes under the update can carry the genuine level-1 hash and ANY level-0 hash.
UpdateCommitsNewState(heap, info, k) ==
    /\ Len(heap[k].r) >= 3
    /\ LET c == heap[heap[k].r[3]] IN
       /\ c.t = C!MUPDATE /\ Len(c.r) = 2 /\ c.n = 8 + 16 * (HLen + 2)
       /\ Sub(c.y, 2 + HLen, HLen) = C!HashAt(heap, info, c.r[2], 0)
CheckBlockHeaderState(heap, info, k, h) == CheckBlockHeader(heap, info, k, h) /\ UpdateCommitsNewState(heap, info, k)
\* account: the claimed account cell must BE the committed one: its own representation hash (all levels) equals the
\* level-0 hash the proof commits to; a pruned branch that merely carries that hash has a different representation hash
AccountCellOk(heapP, infoP, committed, heapA, infoA, claimed) ==
    C!TopHash(heapA, infoA, claimed) = C!HashAt(heapP, infoP, committed, 0)
=============================================================================
