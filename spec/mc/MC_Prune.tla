------------------------------ MODULE MC_Prune ------------------------------
(* Directed machine for Merkle pruning (C02, C11): start from any ordinary   *)
(* tree, wrap it in up to MaxWrap Merkle-proof cells, then replace subtrees  *)
(* by pruned branches (at a level above the number of enclosing Merkle       *)
(* cells).  Invariants: the level-0 hash and depth of the root never change  *)
(* (pruning invariance), every cell produced is spec-valid, level masks are  *)
(* the expected ones, and the Merkle proof of the pruned tree is accepted    *)
(* against the ORIGINAL root hash (completeness of CheckProof).              *)
EXTENDS TonBits, TonSha, Json, TLC
CONSTANTS MaxWrap, TreeDepth, MaxKids, DataLens, Symbolic, Emit

SymHash(x) == <<x>>
TheHash(x) == IF Symbolic THEN SymHash(x) ELSE Sha256(x)
TheHLen == IF Symbolic THEN 1 ELSE 32
C == INSTANCE TonCell WITH Hash <- TheHash, HLen <- TheHLen, MaxBits <- 1023, MaxRefs <- 4, MaxDepth <- 1023

\* abstract trees
DataSet == {[i \in 1..n |-> IF n <= 2 THEN 1 ELSE (i + (i \div 7)) % 2] : n \in DataLens}
Ord(d, kids)  == [k |-> "ord", d |-> d, kids |-> kids]
Pr(of, lvl)   == [k |-> "pruned", of |-> of, lvl |-> lvl]
Mp(kid)       == [k |-> "mproof", kids |-> <<kid>>]
Seqs(S, n)    == UNION {[1..j -> S] : j \in 0..n}
RECURSIVE Trees(_)
Trees(d) == IF d = 0 THEN {Ord(x, <<>>) : x \in DataSet}
            ELSE {Ord(x, ks) : x \in DataSet, ks \in Seqs(Trees(d - 1), MaxKids)}

\* flatten an abstract tree onto a heap; result [heap, root]
RECURSIVE Flatten(_, _)
Flatten(t, heap) ==
    IF t.k = "pruned"
    THEN LET f == Flatten(t.of, heap)
             inf == C!InfoAll(f.heap)
         IN [heap |-> Append(f.heap, C!MkPruned(f.heap, inf, f.root, t.lvl)), root |-> Len(f.heap) + 1]
    ELSE LET step(acc, kid) == LET f == Flatten(kid, acc.heap) IN [heap |-> f.heap, roots |-> Append(acc.roots, f.root)]
             ks == FoldLeft(step, [heap |-> heap, roots |-> <<>>], t.kids)
         IN IF t.k = "ord"
            THEN [heap |-> Append(ks.heap, C!MkOrd(t.d, ks.roots)), root |-> Len(ks.heap) + 1]
            ELSE [heap |-> Append(ks.heap, C!MkMerkleProof(ks.heap, C!InfoAll(ks.heap), ks.roots[1])), root |-> Len(ks.heap) + 1]

\* paths to non-pruned proper subtrees, with the number of Merkle cells above them
RECURSIVE Sites(_, _, _)
Sites(t, path, d) ==
    IF t.k = "pruned" THEN {}
    ELSE LET dd == IF t.k = "mproof" THEN d + 1 ELSE d
         IN UNION {{[p |-> Append(path, j), d |-> dd]} \cup Sites(t.kids[j], Append(path, j), dd) : j \in 1..Len(t.kids)}
RECURSIVE Replace(_, _, _)
Replace(t, path, new) == IF path = <<>> THEN new
                         ELSE [t EXCEPT !.kids[path[1]] = Replace(t.kids[path[1]], Tail(path), new)]
RECURSIVE At(_, _)
At(t, path) == IF path = <<>> THEN t ELSE At(t.kids[path[1]], Tail(path))

\* highest pruned level inside a subtree (= level of its mask when no Merkle cell is inside)
RECURSIVE TopLvl(_)
TopLvl(t) == IF t.k = "pruned" THEN t.lvl
             ELSE FoldLeft(Max2, 0, [j \in 1..Len(t.kids) |-> TopLvl(t.kids[j])])
VARIABLES tree, orig
vars == <<tree, orig>>
Init == /\ orig \in Trees(TreeDepth) /\ tree = orig
Wrap == /\ tree = orig                                   \* wrap before pruning
        /\ LET w == IF tree.k = "mproof" THEN (IF tree.kids[1].k = "mproof" THEN 2 ELSE 1) ELSE 0
           IN w < MaxWrap
        /\ tree' = Mp(tree) /\ orig' = Mp(orig)
Prune == \E s \in Sites(tree, <<>>, 0) :
            /\ At(tree, s.p).k = "ord"
            /\ \E lvl \in (s.d + 1)..3 :
                  /\ lvl > TopLvl(At(tree, s.p))             \* TON prunes at a level above the cell's own
                  /\ tree' = Replace(tree, s.p, Pr(At(tree, s.p), lvl))
                  /\ UNCHANGED orig
Next == Wrap \/ Prune
Spec == Init /\ [][Next]_vars

FT == Flatten(tree, <<>>)
FO == Flatten(orig, <<>>)
IT == C!InfoAll(FT.heap)
IO == C!InfoAll(FO.heap)
PruningInvariance ==
    /\ C!HashAt(FT.heap, IT, FT.root, 0) = C!HashAt(FO.heap, IO, FO.root, 0)
    /\ C!DepthAt(FT.heap, IT, FT.root, 0) = C!DepthAt(FO.heap, IO, FO.root, 0)
AllValid == \A k \in 1..Len(FT.heap) : C!ValidCell(FT.heap[k], FT.heap, SubSeq(IT, 1, k - 1))
\* the proof over the pruned tree is accepted against the original hash; the proof cell has level 0
\* when every pruned branch sits at level (enclosing Merkle cells + 1)
RECURSIVE Tight(_, _)
Tight(t, d) == IF t.k = "pruned" THEN t.lvl = d
               ELSE \A j \in 1..Len(t.kids) : Tight(t.kids[j], IF t.k = "mproof" THEN d + 1 ELSE d)
CheckProof(heap, info, k, h) == heap[k].t = C!MPROOF /\ Sub(heap[k].y, 2, TheHLen) = h
                                /\ C!HashAt(heap, info, heap[k].r[1], 0) = h
Complete ==
    LET heap == Append(FT.heap, C!MkMerkleProof(FT.heap, IT, FT.root))
        info == C!InfoAll(heap)
    IN /\ CheckProof(heap, info, Len(heap), C!HashAt(FO.heap, IO, FO.root, 0))
       /\ (Tight(Mp(tree), 0) => info[Len(heap)].mask = 0)
Export == Emit => PrintT(ToJson([heap |-> FT.heap, root |-> FT.root, oheap |-> FO.heap, oroot |-> FO.root]))
=============================================================================
