------------------------------ MODULE MC_Proof ------------------------------
(* Soundness of the generic Merkle proof check with an injective symbolic     *)
(* hash (C11): for every target tree T and every candidate proof body P from  *)
(* the forgery space (ordinary cells over ordinary or pruned leaves carrying  *)
(* ANY hash token of the universe or junk, ANY stored depth),                 *)
(*     CheckProof(MerkleProof(P), Hash(T))  =>  P matches T                    *)
(* where P matches T iff P equals T outside pruned positions and every pruned *)
(* branch stands for the subtree at its position (right hash; right depth     *)
(* unless the whole tree is pruned - the check never reads that depth, and    *)
(* the property does not ask it to).  A verifier that compares only the       *)
(* stored hash is refuted (negative control WeakSound).                       *)
EXTENDS TonBits, TLC
CONSTANTS TreeDepth, MaxKids, DataLens, CandDepth

SymHash(x) == <<x>>
C == INSTANCE TonCell WITH Hash <- SymHash, HLen <- 1, MaxBits <- 1023, MaxRefs <- 4, MaxDepth <- 1023
P == INSTANCE TonProof WITH Hash <- SymHash, HLen <- 1

DataSet == {[i \in 1..n |-> 1] : n \in DataLens}
Ord(d, kids) == [k |-> "ord", d |-> d, kids |-> kids]
Pr(tok, dp)  == [k |-> "pruned", tok |-> tok, dp |-> dp]
Seqs(S, n)   == UNION {[1..j -> S] : j \in 0..n}
RECURSIVE Trees(_)
Trees(d) == IF d = 0 THEN {Ord(x, <<>>) : x \in DataSet}
            ELSE {Ord(x, ks) : x \in DataSet, ks \in Seqs(Trees(d - 1), MaxKids)}
RECURSIVE Flatten(_, _)
Flatten(t, heap) ==
    IF t.k = "pruned"
    THEN LET y == <<1, 1>> \o t.tok \o BE(t.dp, 2)
         IN [heap |-> Append(heap, [t |-> 1, n |-> 8 * Len(y), y |-> y, r |-> <<>>]), root |-> Len(heap) + 1]
    ELSE LET step(acc, kid) == LET f == Flatten(kid, acc.heap) IN [heap |-> f.heap, roots |-> Append(acc.roots, f.root)]
             ks == FoldLeft(step, [heap |-> heap, roots |-> <<>>], t.kids)
         IN [heap |-> Append(ks.heap, C!MkOrd(t.d, ks.roots)), root |-> Len(ks.heap) + 1]
H0(t) == LET f == Flatten(t, <<>>) IN C!HashAt(f.heap, C!InfoAll(f.heap), f.root, 0)
D0(t) == LET f == Flatten(t, <<>>) IN C!DepthAt(f.heap, C!InfoAll(f.heap), f.root, 0)
RECURSIVE Subtrees(_)
Subtrees(t) == {t} \cup UNION {Subtrees(t.kids[j]) : j \in 1..Len(t.kids)}

VARIABLES target, cand
Junk == <<<<0>>>>
Tokens(t) == {H0(s) : s \in Subtrees(t)} \cup {Junk}
RECURSIVE Cands(_, _)
Cands(t, d) == LET leaves == {Ord(x, <<>>) : x \in DataSet} \cup {Pr(tok, dp) : tok \in Tokens(t), dp \in 0..(TreeDepth + 1)}
               IN IF d = 0 THEN leaves
                  ELSE leaves \cup {Ord(x, ks) : x \in DataSet, ks \in Seqs(Cands(t, d - 1), MaxKids)}
Init == target \in Trees(TreeDepth) /\ cand \in Cands(target, CandDepth)
Next == UNCHANGED <<target, cand>>

RECURSIVE Matches(_, _, _)
Matches(p, t, isRoot) ==
    IF p.k = "pruned" THEN p.tok = H0(t) /\ (isRoot \/ p.dp = D0(t))
    ELSE /\ p.d = t.d /\ Len(p.kids) = Len(t.kids)
         /\ \A j \in 1..Len(p.kids) : Matches(p.kids[j], t.kids[j], FALSE)
ProofOf(p, h, dp) == LET f == Flatten(p, <<>>)
                         y == <<3>> \o h \o BE(dp, 2)
                     IN [heap |-> Append(f.heap, [t |-> 3, n |-> 8 * Len(y), y |-> y, r |-> <<f.root>>]), root |-> Len(f.heap) + 1]
Accepts(p, h, dp, want) == LET pf == ProofOf(p, h, dp) IN P!CheckProof(pf.heap, C!InfoAll(pf.heap), pf.root, want)
\* the verifier accepts only matching candidates, whatever hash/depth the forger writes into the proof cell
Sound == \A h \in {H0(target), H0(cand), Junk} : \A dp \in {D0(target), 0} :
             Accepts(cand, h, dp, H0(target)) => Matches(cand, target, TRUE)
\* and accepts every matching candidate that carries the right stored hash
Complete == Matches(cand, target, TRUE) => Accepts(cand, H0(target), D0(target), H0(target))
\* negative control: comparing only the stored hash is unsound
WeakCheck(heap, k, h) == heap[k].t = 3 /\ Sub(heap[k].y, 2, 1) = h
WeakSound == LET pf == ProofOf(cand, H0(target), D0(target)) IN WeakCheck(pf.heap, pf.root, H0(target)) => Matches(cand, target, TRUE)
=============================================================================
