------------------------------- MODULE MC_Bag -------------------------------
(* M for the Builder/Slice/Cell machine TonBag with scaled-down limits.      *)
(* The machine takes every enabled call from a finite menu.  Invariants:     *)
(*   Capacity        no reachable cell/builder/slice exceeds the limits      *)
(*   RoundTrip       reading a cell back with the type sequence it was       *)
(*                   written with returns the stored values, leaves nothing  *)
(*   PeekEqLoad      a peek returns what the load returns                    *)
(*   CellsImmutable  (action property) no step changes an existing cell      *)
(*   FrameOne        (action property) a step changes at most one existing   *)
(*                   object (the builder/slice it is applied to)             *)
(* and constant-level encoding lemmas (ASSUMEs below).                       *)
EXTENDS TonBits, TLC, Json
CONSTANTS MaxBits, MaxRefs, MaxDepth, MaxObjs, MaxSteps, Record
B == INSTANCE TonBag

\* hist: the calls made so far - kept only when Record is TRUE (simulation runs that export behaviours for replay into the
\* library); exhaustive runs leave it empty so that it does not multiply states
\* gone: how many objects have been forgotten (identifiers are never reused; only refusal steps of recorded runs forget)
VARIABLES objs, typed, steps, hist, gone
vars == <<objs, typed, steps, hist, gone>>

Bld == {i \in DOMAIN objs : objs[i].k = "builder"}
Cel == {i \in DOMAIN objs : objs[i].k = "cell"}
Slc == {i \in DOMAIN objs : objs[i].k = "slice"}
NewId == Cardinality(DOMAIN objs) + gone + 1

UVals == {0, 1, 2, 5, 7, 8, 15, 16}
SVals == {-9, -8, -5, -1, 0, 1, 4, 7, 8}
VarU == {0, 1, 255, 256, 65535, 65536}
VarS == {0, 1, -1, 127, 128, -128, -129, 32767, 32768, -32768, -32769}
Addrs == {[kind |-> "none"], [kind |-> "ext", len |-> 0, v |-> BigOfNat(0)], [kind |-> "ext", len |-> 1, v |-> BigOfNat(1)],
          [kind |-> "ext", len |-> 3, v |-> BigOfNat(5)]}

\* typed store menu: <<call fields, read spec, value>>
Stores(b) ==
       {[op |-> "store_uint", obj |-> b, v |-> BigOfNat(v), w |-> w] : v \in UVals, w \in 1..4}
  \cup {[op |-> "store_int", obj |-> b, v |-> BigOfInt(v), w |-> w] : v \in SVals, w \in 1..4}
  \cup {[op |-> "store_var_uint", obj |-> b, v |-> BigOfNat(v), L |-> 2] : v \in VarU}
  \cup {[op |-> "store_var_int", obj |-> b, v |-> BigOfInt(v), L |-> 2] : v \in VarS}
  \cup {[op |-> "store_bit", obj |-> b, bit |-> x] : x \in {0, 1}}
  \cup {[op |-> "store_coins", obj |-> b, v |-> BigOfNat(v)] : v \in {0, 1, 255, 256}}
  \cup {[op |-> "store_bytes", obj |-> b, bytes |-> y] : y \in {<<>>, <<0>>, <<165>>}}
  \cup {[op |-> "store_ref", obj |-> b, ref |-> c] : c \in Cel}
  \cup {[op |-> "store_maybe_ref", obj |-> b, ref |-> c] : c \in Cel \cup {0}}
  \cup {[op |-> "store_address", obj |-> b, addr |-> a] : a \in Addrs}
ReadSpec(c) ==
    CASE c.op = "store_uint" -> [what |-> "uint", w |-> c.w, exp |-> [v |-> c.v]]
      [] c.op = "store_int"  -> [what |-> "int", w |-> c.w, exp |-> [v |-> c.v]]
      [] c.op = "store_var_uint" -> [what |-> "var_uint", L |-> c.L, exp |-> [v |-> c.v]]
      [] c.op = "store_var_int"  -> [what |-> "var_int", L |-> c.L, exp |-> [v |-> c.v]]
      [] c.op = "store_bit"  -> [what |-> "bit", exp |-> [v |-> BigOfNat(c.bit)]]
      [] c.op = "store_coins" -> [what |-> "var_uint", L |-> 4, exp |-> [v |-> c.v]]
      [] c.op = "store_bytes" -> [what |-> "bytes", n |-> Len(c.bytes), exp |-> [bytes |-> c.bytes]]
      [] c.op = "store_ref"  -> [what |-> "ref", exp |-> [ref |-> c.ref]]
      [] c.op = "store_maybe_ref" -> [what |-> "maybe_ref", exp |-> IF c.ref = 0 THEN [none |-> 1] ELSE [ref |-> c.ref]]
      [] c.op = "store_address" -> [what |-> "address", exp |-> [addr |-> c.addr]]
Reads(s) == {[op |-> o, obj |-> s, what |-> "uint", w |-> w] : o \in {"load", "preload"}, w \in 1..3}
       \cup {[op |-> o, obj |-> s, what |-> "int", w |-> w] : o \in {"load", "preload"}, w \in 1..3}
       \cup {[op |-> o, obj |-> s, what |-> x] : o \in {"load", "preload"}, x \in {"bit", "ref", "maybe_ref", "address"}}
       \cup {[op |-> o, obj |-> s, what |-> "var_uint", L |-> l] : o \in {"load", "preload"}, l \in {2, 4}}
       \cup {[op |-> o, obj |-> s, what |-> "bits", n |-> n] : o \in {"load", "preload"}, n \in 0..2}
       \cup {[op |-> o, obj |-> s, what |-> "bytes", n |-> 1] : o \in {"load", "preload"}}
       \cup {[op |-> "skip_bits", obj |-> s, n |-> n] : n \in 1..3}
Derive == {[op |-> "end_cell", obj |-> b, new |-> NewId] : b \in Bld}
     \cup {[op |-> o, obj |-> c, new |-> NewId] : o \in {"begin_parse", "cell_copy", "cell_to_builder"}, c \in Cel}
     \cup {[op |-> o, obj |-> s, new |-> NewId] : o \in {"slice_to_cell", "slice_copy", "slice_to_builder"}, s \in Slc}
     \cup {[op |-> "store_cell", obj |-> b, ref |-> c] : b \in Bld, c \in Cel}
     \cup {[op |-> "store_slice", obj |-> b, ref |-> s] : b \in Bld, s \in Slc}
     \cup {[op |-> "new_builder", new |-> NewId]}

Init == objs = [i \in {} |-> 0] /\ typed = [i \in {} |-> <<>>] /\ steps = 0 /\ hist = <<>> /\ gone = 0
Apply(c, e) == /\ e.ok = "yes"
               /\ objs' = e.objs
               /\ steps' = steps + 1
               /\ hist' = IF Record THEN Append(hist, c) ELSE hist
               /\ gone' = gone
StepStore == \E b \in Bld : \E c \in Stores(b) :
                 LET e == B!Do(objs, c) IN
                 /\ Apply(c, e)
                 /\ typed' = IF b \in DOMAIN typed THEN [typed EXCEPT ![b] = Append(@, ReadSpec(c))] ELSE typed
StepRead == \E s \in Slc : \E c \in Reads(s) : Apply(c, B!Do(objs, c)) /\ UNCHANGED typed
StepDerive == \E c \in Derive :
                 LET e == B!Do(objs, c) IN
                 /\ (c.op \in {"new_builder", "end_cell", "begin_parse", "cell_copy", "cell_to_builder", "slice_to_cell",
                                "slice_copy", "slice_to_builder"} => Cardinality(DOMAIN objs) < MaxObjs)
                 /\ Apply(c, e)
                 /\ typed' = CASE c.op = "new_builder" -> [i \in (DOMAIN typed) \cup {c.new} |-> IF i = c.new THEN <<>> ELSE typed[i]]
                               [] c.op = "end_cell" /\ c.obj \in DOMAIN typed ->
                                     [i \in (DOMAIN typed) \cup {c.new} |-> IF i = c.new THEN typed[c.obj] ELSE typed[i]]
                               \* composite stores make the builder's history untyped
                               [] c.op \in {"store_cell", "store_slice"} -> [i \in (DOMAIN typed) \ {c.obj} |-> typed[i]]
                               [] OTHER -> typed
\* a call from the menu whose guard is FALSE (value does not fit its width, no room, not enough left to read): the call is made
\* and must be refused; what it leaves in its target is unspecified, so the target is forgotten (an explicit call of the
\* behaviour).  Only in recorded runs: these steps exist to be replayed into the library.
StepRefuse == /\ Record
              /\ \E c \in UNION {Stores(b) : b \in Bld} \cup UNION {Reads(s) : s \in Slc} :
                    /\ B!Do(objs, c).ok = "no"
                    /\ objs' = [i \in (DOMAIN objs) \ {c.obj} |-> objs[i]]
                    /\ typed' = [i \in (DOMAIN typed) \ {c.obj} |-> typed[i]]
                    /\ hist' = hist \o <<c, [op |-> "forget", ids |-> <<c.obj>>]>>
                    /\ gone' = gone + 1 /\ steps' = steps + 1
Next == steps < MaxSteps /\ (StepStore \/ StepRead \/ StepDerive \/ StepRefuse)
Spec == Init /\ [][Next]_vars

\* ---- invariants
\* G: a finished behaviour (sequence of calls) for replay into the library
ExportBehaviour == (Record /\ steps = MaxSteps) => PrintT(ToJson(hist))
Capacity == B!Capacity(objs)
\* replay the read specs on a virtual slice of cell c
RECURSIVE ReadBack(_, _, _)
ReadBack(o, sid, h) ==
    IF h = <<>> THEN o[sid].b = <<>> /\ o[sid].r = <<>>
    ELSE LET c == [h[1] EXCEPT !.exp = 0]
             ld == B!Do(o, [op |-> "load", obj |-> sid] @@ c)
             pk == B!Do(o, [op |-> "preload", obj |-> sid] @@ c)
         IN /\ ld.ok = "yes" /\ ld.res = h[1].exp
            /\ pk.ok = "yes" /\ pk.res = ld.res /\ pk.objs = o
            /\ ReadBack(ld.objs, sid, Tail(h))
RoundTrip == \A c \in Cel : c \in DOMAIN typed =>
    LET sid == 999
        o2  == B!Do(objs, [op |-> "begin_parse", obj |-> c, new |-> sid]).objs
    IN ReadBack(o2, sid, typed[c])
CellsImmutable == [][\A i \in DOMAIN objs : objs[i].k = "cell" => (i \in DOMAIN objs' /\ objs'[i] = objs[i])]_vars
FrameOne == [][Cardinality({i \in DOMAIN objs : i \notin DOMAIN objs' \/ objs'[i] # objs[i]}) <= 1]_vars

\* ---- constant-level encoding lemmas
IntRange(w) == (-(2^(w - 1)))..(2^(w - 1) - 1)
ASSUME \A w \in 1..9 : \A v \in IntRange(w) :
          /\ BigSFits(BigOfInt(v), w)
          /\ BigOfSBits(BigSBits(BigOfInt(v), w)) = BigOfInt(v)
          /\ BigSBits(BigOfInt(v), w) = IntBitsSmall(v, w)
ASSUME \A w \in 1..9 : \A v \in 0..(2^w - 1) :
          /\ BigUFits(BigOfNat(v), w) /\ BigOfUBits(BigUBits(BigOfNat(v), w)) = BigOfNat(v)
          /\ BigUBits(BigOfNat(v), w) = NatBits(v, w)
ASSUME \A w \in 1..9 : ~BigSFits(BigOfInt(2^(w - 1)), w) /\ ~BigSFits(BigOfInt(-(2^(w - 1)) - 1), w) /\ ~BigUFits(BigOfNat(2^w), w)
                        /\ ~BigUFits(BigOfInt(-1), w)
\* VarInteger: the chosen byte length fits and no shorter one does
ASSUME \A v \in (-70000)..70000 :
          LET x == BigOfInt(v)  k == MinBytesS(x)
          IN /\ (v = 0 <=> k = 0)
             /\ (k > 0 => BigSFits(x, 8 * k) /\ ~BigSFits(x, 8 * (k - 1)))
             /\ BigOfSBits(BigSBits(x, 8 * k)) = x
ASSUME \A v \in 0..70000 :
          LET x == BigOfNat(v)  k == MinBytesU(x)
          IN /\ BigUFits(x, 8 * k) /\ (k > 0 => ~BigUFits(x, 8 * (k - 1)))
=============================================================================
