------------------------------ MODULE MC_HmObj ------------------------------
(* M + G for the HashMap object machine TonHmObj (C09, C10).                  *)
(* M  every serialisation along every behaviour parses back to the map of    *)
(*    that moment (SerParse) - serialisations are functions of the current   *)
(*    map, not of the history; a step changes at most one store (FrameOne);  *)
(*    objects over one store always agree (Aliases).                         *)
(* G  behaviours (call sequences) for replay into the library: simulation    *)
(*    runs carry the history in `hist` (Record = TRUE) and print it.         *)
EXTENDS TonHashmap, TLC, Json
CONSTANTS Widths, Vals, MaxObjs, MaxSteps, Record
H == INSTANCE TonHmObj WITH VW <- 8

VARIABLES s, steps, hist
vars == <<s, steps, hist>>
Objs == DOMAIN s.objs
NewO == Cardinality(Objs) + 1
NewSt == Cardinality(DOMAIN s.stores) + 1
Calls ==
       {[op |-> "new", o |-> NewO, st |-> NewSt, w |-> w] : w \in (IF Cardinality(Objs) < MaxObjs THEN Widths ELSE {})}
  \cup {[op |-> "new_over", o |-> NewO, other |-> o] : o \in (IF Cardinality(Objs) < MaxObjs THEN Objs ELSE {})}
  \cup {[op |-> "set", o |-> o, k |-> k, v |-> v, via |-> via] : o \in Objs, k \in 0..7, v \in Vals, via \in {"set", "set_int_key", "entry"}}
  \cup {[op |-> "del", o |-> o, k |-> k] : o \in Objs, k \in 0..7}
  \cup {[op |-> "ser", o |-> o] : o \in Objs}
  \cup {[op |-> "parse", o |-> o, via |-> via] : o \in Objs, via \in {"parse", "from_cell", "load_dict", "load_hashmap"}}
Enabled(c) == CASE c.op = "set" -> H!KeyFits(c.k, s.objs[c.o].w)
                [] c.op = "del" -> H!KeyFits(c.k, s.objs[c.o].w) /\ NatBits(c.k, s.objs[c.o].w) \in DOMAIN H!MapOfObj(s, c.o)
                [] c.op = "parse" -> DOMAIN H!MapOfObj(s, c.o) # {}
                [] OTHER -> TRUE
Init == s = H!St([i \in {} |-> 0], [i \in {} |-> 0]) /\ steps = 0 /\ hist = <<>>
Next == /\ steps < MaxSteps
        /\ \E c \in Calls : /\ Enabled(c)
                            /\ LET e == H!Do(s, c) IN e.ok = "yes" /\ s' = e.s
                            /\ hist' = IF Record THEN Append(hist, c) ELSE hist
        /\ steps' = steps + 1
Spec == Init /\ [][Next]_vars

SerParse == \A o \in Objs :
    LET mp == H!MapOfObj(s, o)  w == s.objs[o].w IN
    DOMAIN mp # {} =>
        LET f == Flatten(Edge(mp, w), <<>>)
            p == ParseHeap(f.heap, f.root, w, <<>>, 0)
        IN p.ok /\ {[k |-> l.k, v |-> l.v] : l \in p.leaves} = H!PairsOf(mp)
Aliases == \A a, b \in Objs : s.objs[a].st = s.objs[b].st => H!MapOfObj(s, a) = H!MapOfObj(s, b)
KeysFit == \A o \in Objs : \A k \in DOMAIN H!MapOfObj(s, o) : Len(k) = s.objs[o].w
FrameOne == [][Cardinality({st \in DOMAIN s.stores : st \notin DOMAIN s'.stores \/ s'.stores[st] # s.stores[st]}) <= 1]_vars
ExportBehaviour == (Record /\ steps = MaxSteps) => PrintT(ToJson(hist))
=============================================================================
