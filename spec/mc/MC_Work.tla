------------------------------- MODULE MC_Work -------------------------------
(* C19: the ordering algorithm (memoised depth-first walk, reverse post-order)*)
(* as a machine with a step counter.  For EVERY multigraph DAG with at most   *)
(* MaxCells cells and at most MaxRefsGen references per cell, and for the     *)
(* adversarial double chains, the walk terminates, takes exactly one step per *)
(* reachable cell and per reference of a reachable cell (n + e), and emits    *)
(* an order in which every cell precedes the cells it references, each once.  *)
EXTENDS Naturals, Sequences, FiniteSets, TLC
CONSTANTS MaxCells, MaxRefsGen, ChainDepths

RefSeqs(n) == UNION {[1..k -> 1..n] : k \in 0..MaxRefsGen}
RECURSIVE Dags(_)
Dags(n) == IF n = 0 THEN {<<>>} ELSE {Append(d, r) : d \in Dags(n - 1), r \in RefSeqs(n - 1)}
DoubleChain(d) == [k \in 1..(d + 1) |-> IF k = 1 THEN <<>> ELSE <<k - 1, k - 1>>]

VARIABLES dag, stack, seen, post, steps
vars == <<dag, stack, seen, post, steps>>
Root == Len(dag)
Init == /\ dag \in (UNION {Dags(n) : n \in 1..MaxCells}) \cup {DoubleChain(d) : d \in ChainDepths}
        /\ stack = <<[c |-> Len(dag), j |-> 0]>> /\ seen = {Len(dag)} /\ post = <<>> /\ steps = 0
Step == /\ stack # <<>>
        /\ LET top == stack[Len(stack)]  rest == SubSeq(stack, 1, Len(stack) - 1) IN
           IF top.j < Len(dag[top.c])
           THEN LET ch == dag[top.c][top.j + 1] IN
                /\ stack' = IF ch \in seen THEN Append(rest, [top EXCEPT !.j = @ + 1])
                            ELSE Append(Append(rest, [top EXCEPT !.j = @ + 1]), [c |-> ch, j |-> 0])
                /\ seen' = seen \cup {ch} /\ UNCHANGED post
           ELSE stack' = rest /\ post' = Append(post, top.c) /\ UNCHANGED seen
        /\ steps' = steps + 1 /\ UNCHANGED dag
Spec == Init /\ [][Step]_vars /\ WF_vars(Step)

\* reachable cells as a fixpoint (a recursive unfolding would itself be exponential on the double chains)
RECURSIVE Close(_)
Close(S) == LET S2 == S \cup UNION {{dag[c][j] : j \in 1..Len(dag[c])} : c \in S} IN IF S2 = S THEN S ELSE Close(S2)
Reach(c) == Close({c})
N == Cardinality(Reach(Root))
E == LET S == Reach(Root) IN
     LET RECURSIVE Sum(_) Sum(T) == IF T = {} THEN 0 ELSE LET x == CHOOSE y \in T : TRUE IN Len(dag[x]) + Sum(T \ {x}) IN Sum(S)
Order == [i \in 1..Len(post) |-> post[Len(post) + 1 - i]]
Pos(c) == CHOOSE i \in 1..Len(Order) : Order[i] = c
WorkLinear == steps <= N + E
Done == stack = <<>>
Correct == Done =>
    /\ steps = N + E
    /\ {Order[i] : i \in 1..Len(Order)} = Reach(Root) /\ Len(Order) = N
    /\ \A c \in Reach(Root) : \A j \in 1..Len(dag[c]) : Pos(c) < Pos(dag[c][j])
Terminates == <>Done
=============================================================================
