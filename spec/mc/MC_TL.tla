-------------------------------- MODULE MC_TL --------------------------------
(* M for TonTL: on a small synthetic schema set that uses every framing       *)
(* feature (ints, Bool, bytes at the 253/254 boundary, flag-conditional       *)
(* fields incl. ?true, vectors, bare and boxed nested objects with two        *)
(* alternatives) the encoding is INJECTIVE over all values of a small leaf    *)
(* domain and PREFIX-FREE (no encoding is a proper prefix of another), i.e.   *)
(* uniquely decodable - the format property behind "parsing returns the same  *)
(* value and consumes exactly all bytes".                                     *)
EXTENDS TonBits, TLC
A(s) == [i \in 1..Len(s) |-> 97]      \* names are irrelevant for the encoding; ids are given explicitly
Sch == <<
  [name |-> "p.leaf", cls |-> "p.Leaf", decl |-> <<>>, xid |-> <<1, 2, 3, 4>>, head |-> <<>>, clsb |-> <<>>,
   fields |-> << [n |-> <<>>, t |-> [k |-> "int"], c |-> <<>>], [n |-> <<>>, t |-> [k |-> "bytes"], c |-> <<>>] >>],
  [name |-> "p.alt", cls |-> "p.Leaf", decl |-> <<>>, xid |-> <<1, 2, 3, 5>>, head |-> <<>>, clsb |-> <<>>,
   fields |-> << [n |-> <<>>, t |-> [k |-> "Bool"], c |-> <<>>] >>],
  [name |-> "p.top", cls |-> "p.Top", decl |-> <<>>, xid |-> <<9, 9, 9, 9>>, head |-> <<>>, clsb |-> <<>>,
   fields |-> << [n |-> <<>>, t |-> [k |-> "nat"], c |-> <<>>],
                 [n |-> <<>>, t |-> [k |-> "long"], c |-> <<1, 0, <<>>>>],
                 [n |-> <<>>, t |-> [k |-> "true"], c |-> <<1, 1, <<>>>>],
                 [n |-> <<>>, t |-> [k |-> "vector", of |-> [k |-> "bare", n |-> "p.leaf", nb |-> <<>>]], c |-> <<>>],
                 [n |-> <<>>, t |-> [k |-> "boxed", cls |-> "p.Leaf", nb |-> <<>>], c |-> <<1, 2, <<>>>>] >>] >>
T == INSTANCE TonTL WITH Schemas <- Sch

Ints == {BigOfInt(0), BigOfInt(-1)}
RawBytes == {[raw |-> <<>>], [raw |-> <<7>>], [raw |-> Rep(253, 1)], [raw |-> Rep(254, 1)]}
Inner == {[c |-> "p.leaf", f |-> <<BigOfInt(0), [raw |-> <<>>]>>], [c |-> "p.alt", f |-> <<1>>]}
\* bytes values that carry boxed objects (one, or two concatenated); raw values here never begin with a constructor id - a raw
\* value that does is indistinguishable on the wire from the object it spells (see NestedAmbiguity below)
Bytes == RawBytes \cup {[obj |-> <<o1>>] : o1 \in Inner} \cup {[obj |-> <<o1, o2>>] : o1 \in Inner, o2 \in Inner}
Leafs == {[c |-> "p.leaf", f |-> <<i, b>>] : i \in Ints, b \in Bytes}
Alts == {[c |-> "p.alt", f |-> <<x>>] : x \in {0, 1}}
Vecs == {<<>>} \cup {<<l>> : l \in Leafs} \cup {<<l, l>> : l \in {[c |-> "p.leaf", f |-> <<BigOfInt(0), [raw |-> <<>>]>>]}}
Tops == {[c |-> "p.top", f |-> <<BigOfNat(fl), IF fl % 2 = 1 THEN <<lg>> ELSE <<>>, IF (fl \div 2) % 2 = 1 THEN <<1>> ELSE <<>>, v,
                               IF (fl \div 4) % 2 = 1 THEN <<bx>> ELSE <<>>>>] :
            fl \in 0..7, lg \in Ints, v \in Vecs, bx \in Leafs \cup Alts}
VARIABLE x
Init == x = 0
Next == UNCHANGED x
ProperPrefix(a, b) == Len(a) < Len(b) /\ SubSeq(b, 1, Len(a)) = a
Enc(v) == T!EncC("p.top", v, TRUE)
ASSUME \A v \in Tops : T!WfC("p.top", v)
EncOfAll == {<<v, Enc(v)>> : v \in Tops}
\* constant-level lemmas over all pairs of values
InjectiveAndPrefixFree == LET S == EncOfAll IN
    \A p \in S : \A q \in S : (p[1] # q[1]) => (p[2] # q[2] /\ ~ProperPrefix(p[2], q[2]))
ASSUME InjectiveAndPrefixFree
\* the documented ambiguity of bytes fields: raw bytes that spell a boxed object encode like that object
NestedAmbiguity == LET ix == [c |-> "p.alt", f |-> <<1>>]
                       a == [c |-> "p.leaf", f |-> <<BigOfInt(0), [obj |-> <<ix>>]>>]
                       b == [c |-> "p.leaf", f |-> <<BigOfInt(0), [raw |-> T!EncC("p.alt", ix, TRUE)]>>]
                   IN a # b /\ T!EncC("p.leaf", a, TRUE) = T!EncC("p.leaf", b, TRUE)
ASSUME NestedAmbiguity
ASSUME PrintT(<<"values", Cardinality(Tops)>>)
Injective == TRUE
PrefixFree == TRUE
=============================================================================
