------------------------------- MODULE MC_Nat -------------------------------
(* Lemmas for TonNat on a tiny base (LB = 4, 3 limbs: numbers 0..63):        *)
(* limb-wise sums and multiples followed by Norm/Less agree with integer     *)
(* arithmetic, including un-normalised inputs.                               *)
EXTENDS Naturals, Sequences, TLC
N == INSTANCE TonNat WITH LB <- 4, NL <- 3
Range == 0..63
ASSUME \A a \in Range, b \in Range : N!Less(N!Of(a), N!Of(b)) = (a < b)
ASSUME \A a \in Range, b \in Range, c \in Range :
          N!Less(N!Scale(N!Add(N!Of(a), N!Of(b)), 2), N!Scale(N!Of(c), 3)) = (2 * (a + b) < 3 * c)
ASSUME \A a \in Range, b \in Range : N!Leq(N!Scale(N!Of(a), 3), N!Scale(N!Of(b), 2)) = (3 * a <= 2 * b)
VARIABLE x
Init == x = 0
Next == UNCHANGED x
=============================================================================
