------------------------------- MODULE MC_Sig -------------------------------
(* Block signature sets (C12).                                               *)
(* A validator set is a sequence of weights; a signature item is             *)
(*   [s |-> signer index (0 = not in the set), k |-> "valid" | "invalid" |   *)
(*    "other"]  ("other" = a genuine signature over a different block id).   *)
(* Declarative acceptance and the loop algorithm (as actions) whose          *)
(* refinement is model-checked; Dedupe / Strict switch in the two defects    *)
(* (duplicates counted, >= instead of >) as negative controls.               *)
EXTENDS Naturals, Sequences, FiniteSets, TLC
CONSTANTS MaxV, MaxW, MaxLen, Dedupe, Strict

Sum(w) == LET RECURSIVE S(_) S(k) == IF k = 0 THEN 0 ELSE w[k] + S(k - 1) IN S(Len(w))
AllGood(sg) == \A j \in 1..Len(sg) : sg[j].s # 0 /\ sg[j].k = "valid"
Distinct(sg) == \A j, k \in 1..Len(sg) : j # k => sg[j].s # sg[k].s
Signers(sg) == {sg[j].s : j \in 1..Len(sg)}
RECURSIVE SumSet(_, _)
SumSet(w, S) == IF S = {} THEN 0 ELSE LET x == CHOOSE y \in S : TRUE IN w[x] + SumSet(w, S \ {x})
\* the condition of the property: every set that meets it must be accepted
Genuine(w, sg) == AllGood(sg) /\ Distinct(sg) /\ 3 * SumSet(w, Signers(sg)) > 2 * Sum(w)
\* must be rejected: a bad or unknown signature, or not enough weight even counting every DISTINCT valid signer once
MustReject(w, sg) == ~AllGood(sg) \/ 3 * SumSet(w, Signers(sg) \ {0}) <= 2 * Sum(w)
\* (all good, enough distinct weight, but some signer repeated: the property allows rejecting the set or ignoring the repeat)

VARIABLES weights, sigs, pc, i, seen, signedW, verdict
vars == <<weights, sigs, pc, i, seen, signedW, verdict>>
Items(n) == {[s |-> s, k |-> k] : s \in 0..n, k \in {"valid", "invalid", "other"}}
Init == /\ weights \in UNION {[1..n -> 1..MaxW] : n \in 0..MaxV}
        /\ sigs = <<>> /\ pc = "build" /\ i = 1 /\ seen = {} /\ signedW = 0 /\ verdict = "none"
AddSig == /\ pc = "build" /\ Len(sigs) < MaxLen
          /\ \E it \in Items(Len(weights)) : sigs' = Append(sigs, it)
          /\ UNCHANGED <<weights, pc, i, seen, signedW, verdict>>
Start == pc = "build" /\ pc' = "loop" /\ UNCHANGED <<weights, sigs, i, seen, signedW, verdict>>
Take == /\ pc = "loop" /\ i <= Len(sigs)
        /\ LET it == sigs[i] IN
             IF it.s = 0 \/ it.k # "valid" \/ (Dedupe /\ it.s \in seen)
             THEN pc' = "done" /\ verdict' = "reject" /\ UNCHANGED <<seen, signedW, i>>
             ELSE pc' = "loop" /\ seen' = seen \cup {it.s} /\ signedW' = signedW + weights[it.s] /\ i' = i + 1 /\ UNCHANGED verdict
        /\ UNCHANGED <<weights, sigs>>
Decide == /\ pc = "loop" /\ i > Len(sigs)
          /\ pc' = "done"
          /\ verdict' = IF (IF Strict THEN 3 * signedW > 2 * Sum(weights) ELSE 3 * signedW >= 2 * Sum(weights))
                        THEN "accept" ELSE "reject"
          /\ UNCHANGED <<weights, sigs, i, seen, signedW>>
Next == AddSig \/ Start \/ Take \/ Decide
Spec == Init /\ [][Next]_vars
Refines == pc = "done" => /\ (Genuine(weights, sigs) => verdict = "accept")
                          /\ (MustReject(weights, sigs) => verdict = "reject")
\* the two classes never overlap, and only repeated-signer sets are left open
Partition == /\ ~(Genuine(weights, sigs) /\ MustReject(weights, sigs))
             /\ (~Genuine(weights, sigs) /\ ~MustReject(weights, sigs)) => ~Distinct(sigs)
=============================================================================
