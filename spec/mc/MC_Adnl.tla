------------------------------- MODULE MC_Adnl -------------------------------
(* Two-peer channel machine with symbolic Diffie-Hellman and symbolic AES.   *)
(* Peers open channels in either order, send packets both ways; invariants:  *)
(* what one side encrypts the other decrypts, and the key id on the wire is  *)
(* the one the receiver expects - for every ordering of the ids, including   *)
(* equal ids.                                                                *)
EXTENDS Naturals, Sequences, FiniteSets, TLC
CONSTANTS Ids, Secrets, Plains

\* symbolic algebra: DH(a, Pub(b)) = DH(b, Pub(a));  Dec(k, iv, Enc(k, iv, m)) = m
Pub(a) == <<"pub", a>>
DH(a, B) == <<"dh", {a, B[2]}>>                     \* a set: commutative by construction
Rev(s) == IF s[1] = "rev" THEN s[2] ELSE <<"rev", s>>
Enc(k, iv, m) == <<"ct", k, iv, m>>
Dec(k, iv, c) == IF c[1] = "ct" /\ c[2] = k /\ c[3] = iv THEN c[4] ELSE <<"garbage">>
Sha(m) == <<"sha", m>>
KeyIdOf(k) == <<"kid", k>>
AesKey(k, sum) == <<"aeskey", k, sum>>
AesIv(k, sum) == <<"aesiv", k, sum>>
Keys(lid, pid, shared) == IF lid > pid THEN [enc |-> shared, dec |-> Rev(shared)]
                          ELSE IF lid < pid THEN [enc |-> Rev(shared), dec |-> shared]
                          ELSE [enc |-> shared, dec |-> shared]

VARIABLES secA, secB, idA, idB, chanA, chanB, wire, got
vars == <<secA, secB, idA, idB, chanA, chanB, wire, got>>
None == [enc |-> <<"none">>, dec |-> <<"none">>]
Init == /\ secA \in Secrets /\ secB \in Secrets /\ idA \in Ids /\ idB \in Ids
        /\ (secA = secB <=> idA = idB)               \* equal ids only for a self-channel
        /\ chanA = None /\ chanB = None /\ wire = <<>> /\ got = <<>>
OpenA == chanA = None /\ chanA' = Keys(idA, idB, DH(secA, Pub(secB))) /\ UNCHANGED <<secA, secB, idA, idB, chanB, wire, got>>
OpenB == chanB = None /\ chanB' = Keys(idB, idA, DH(secB, Pub(secA))) /\ UNCHANGED <<secA, secB, idA, idB, chanA, wire, got>>
Send(from, ch) == /\ ch # None /\ Len(wire) < 2
                  /\ \E m \in Plains :
                        wire' = Append(wire, [from |-> from, plain |-> m, kid |-> KeyIdOf(ch.enc), sum |-> Sha(m),
                                              ct |-> Enc(AesKey(ch.enc, Sha(m)), AesIv(ch.enc, Sha(m)), m)])
                  /\ UNCHANGED <<secA, secB, idA, idB, chanA, chanB, got>>
Recv(to, ch) == /\ ch # None /\ wire # <<>> /\ wire[1].from # to /\ Len(got) < 3
                /\ got' = Append(got, [to |-> to, plain |-> wire[1].plain, kidok |-> wire[1].kid = KeyIdOf(ch.dec),
                                       out |-> Dec(AesKey(ch.dec, wire[1].sum), AesIv(ch.dec, wire[1].sum), wire[1].ct)])
                /\ wire' = Tail(wire)
                /\ UNCHANGED <<secA, secB, idA, idB, chanA, chanB>>
Next == OpenA \/ OpenB \/ Send("A", chanA) \/ Send("B", chanB) \/ Recv("A", chanA) \/ Recv("B", chanB)
Spec == Init /\ [][Next]_vars

Symmetric == (chanA # None /\ chanB # None) => (chanA.enc = chanB.dec /\ chanA.dec = chanB.enc)
Delivered == \A j \in 1..Len(got) : got[j].out = got[j].plain /\ got[j].kidok
\* a self-channel (both ends the same key pair) also works
=============================================================================
