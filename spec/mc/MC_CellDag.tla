----------------------------- MODULE MC_CellDag -----------------------------
(* The DAG-growth machine: a heap of cells grows by appending a cell that    *)
(* references earlier cells.  Used three ways:                               *)
(*  M  invariants of the TonCell definitions (hash = structure, depth        *)
(*     definition, exotic constructors valid, pruning invariance, mask       *)
(*     algebra) for every reachable heap within the constants;               *)
(*  G  every full heap is printed as JSON and replayed into the library      *)
(*     (C01, C02, C03, C04);                                                 *)
(*  the same definitions (INSTANCE TonCell WITH Hash <- Sha256) validate     *)
(*  the traces recorded from the library.                                    *)
EXTENDS TonBits, TonSha, Json, TLC
CONSTANTS MaxCells,        \* heap size bound
          BitLens,         \* data lengths of ordinary cells
          MaxRefsGen,      \* max references of generated ordinary cells
          Exotics,         \* subset of {"pruned", "library", "mproof", "mupdate"}
          MaxLvl,          \* highest pruned-branch level generated
          Symbolic,        \* TRUE: injective symbolic hash of length 1; FALSE: SHA-256
          Emit             \* TRUE: print every full heap as JSON (G)

SymHash(x) == <<x>>
TheHash(x) == IF Symbolic THEN SymHash(x) ELSE Sha256(x)
TheHLen == IF Symbolic THEN 1 ELSE 32
C == INSTANCE TonCell WITH Hash <- TheHash, HLen <- TheHLen, MaxBits <- 1023, MaxRefs <- 4, MaxDepth <- 1023

VARIABLES heap
vars == <<heap>>

PatBits(n) == [i \in 1..n |-> IF n <= 2 THEN 1 ELSE (i + (i \div 7)) % 2]
RefSeqs(n) == UNION {[1..k -> 1..n] : k \in 0..MaxRefsGen}
Info == C!InfoAll(heap)

Init == heap = <<>>
AddOrdinary == \E n \in BitLens, r \in RefSeqs(Len(heap)) : heap' = Append(heap, C!MkOrd(PatBits(n), r))
AddPruned == /\ "pruned" \in Exotics
             /\ \E k \in 1..Len(heap), lvl \in 1..MaxLvl :
                   /\ lvl > C!Lvl(Info[k].mask)
                   /\ heap' = Append(heap, C!MkPruned(heap, Info, k, lvl))
AddLibrary == /\ "library" \in Exotics
              /\ \E k \in 1..Len(heap) : heap' = Append(heap, C!MkLibrary(C!HashAt(heap, Info, k, 0)))
AddMerkleProof == /\ "mproof" \in Exotics
                  /\ \E k \in 1..Len(heap) : heap' = Append(heap, C!MkMerkleProof(heap, Info, k))
AddMerkleUpdate == /\ "mupdate" \in Exotics
                   /\ \E k1, k2 \in 1..Len(heap) : heap' = Append(heap, C!MkMerkleUpdate(heap, Info, k1, k2))
Next == /\ Len(heap) < MaxCells
        /\ (AddOrdinary \/ AddPruned \/ AddLibrary \/ AddMerkleProof \/ AddMerkleUpdate)
Spec == Init /\ [][Next]_vars

N == Len(heap)
\* ---- invariants (M)
\* every cell the constructors produce is spec-valid and has level <= 3
AllValid == \A k \in 1..N : C!ValidCell(heap[k], heap, SubSeq(Info, 1, k - 1))
\* representation hash equality coincides with structural equality of the unfolded trees
HashEqIffUnfoldEq ==
    \A i, j \in 1..N : (C!TopHash(heap, Info, i) = C!TopHash(heap, Info, j)) <=> (C!Unfold(heap, i) = C!Unfold(heap, j))
\* depth: 0 for leaves, 1 + deepest child (at the child level used by the parent)
DepthDef ==
    \A k \in 1..N : heap[k].t = C!ORD =>
        \A l \in 0..3 : C!DepthAt(heap, Info, k, l) =
            IF heap[k].r = <<>> THEN 0
            ELSE 1 + FoldLeft(Max2, 0, [j \in 1..Len(heap[k].r) |-> C!DepthAt(heap, Info, heap[k].r[j], l)])
\* level-0 trees report the same hash at every level
LevelsFlat == \A k \in 1..N : Info[k].mask = 0 => \A l \in 1..3 : C!HashAt(heap, Info, k, l) = C!HashAt(heap, Info, k, 0)
\* masks: ordinary = OR of children, Merkle = shifted, and above the level the hash is the top hash
MaskLaws ==
    \A k \in 1..N :
        /\ Info[k].mask \in 0..7
        /\ Len(Info[k].hs) = (IF heap[k].t = C!PRUNED THEN 1 ELSE C!Pop(Info[k].mask) + 1)
        /\ \A l \in 0..3 : l >= C!Lvl(Info[k].mask) => C!HashAt(heap, Info, k, l) = C!TopHash(heap, Info, k)
        /\ heap[k].t = C!MPROOF => Info[k].mask = Info[heap[k].r[1]].mask \div 2
\* a pruned branch reports, below its own level, exactly the hashes and depths of the cell it stands for
\* (found by content: any cell whose level-l hash is stored in it)
PrunedCarries ==
    \A p, k \in 1..N :
        (heap[p].t = C!PRUNED /\ heap[p] \in {C!MkPruned(heap, Info, k, lvl) : lvl \in 1..3}) =>
            \A l \in 0..3 : l < C!Lvl(Info[p].mask) =>
                /\ C!HashAt(heap, Info, p, l) = C!HashAt(heap, Info, k, l)
                /\ C!DepthAt(heap, Info, p, l) = C!DepthAt(heap, Info, k, l)
\* pruning invariance: a ~d b  (b is a with some subtrees pruned deep enough for d enclosing Merkle cells)
RECURSIVE Sim(_, _, _)
Sim(a, b, d) ==
    \/ a = b
    \/ /\ heap[a].t = heap[b].t /\ heap[a].n = heap[b].n /\ heap[a].y = heap[b].y
       /\ heap[a].t # C!PRUNED
       /\ Len(heap[a].r) = Len(heap[b].r)
       /\ LET dd == IF C!IsMerkle(heap[a]) THEN d + 1 ELSE d
          IN \A j \in 1..Len(heap[a].r) :
                LET ra == heap[a].r[j]  rb == heap[b].r[j]
                IN \/ Sim(ra, rb, dd)
                   \/ \E lvl \in (dd + 1)..3 : lvl > C!Lvl(Info[rb].mask) /\ heap[ra] = C!MkPruned(heap, Info, rb, lvl)
PruningInvariance ==
    \A a, b \in 1..N : Sim(a, b, 0) =>
        /\ C!HashAt(heap, Info, a, 0) = C!HashAt(heap, Info, b, 0)
        /\ C!DepthAt(heap, Info, a, 0) = C!DepthAt(heap, Info, b, 0)

\* mask algebra over all masks and levels (a constant-level lemma)
MaskAlgebra ==
    \A m \in 0..7 : \A l \in 0..3 :
        /\ C!Apply(m, l) = (m & (2^l - 1))
        /\ C!HashIndex(m, l) = Cardinality({i \in 1..l : C!IsSig(m, i)})
        /\ C!Lvl(m) = (IF m = 0 THEN 0 ELSE CHOOSE x \in 1..3 : 2^(x - 1) <= m /\ m < 2^x)
        /\ C!Apply(C!Apply(m, l), 3) = C!Apply(m, l)
ASSUME MaskAlgebra

\* ---- G: print every full heap
Export == (Emit /\ N = MaxCells) => PrintT(ToJson(heap))
=============================================================================
