------------------------------- MODULE MC_Crc -------------------------------
(* M for TonCrc: catalogue vectors; linearity of both CRCs over GF(2);        *)
(* single-burst detection lemmas used by C05 (CRC-32C) and C13 (CRC-16).      *)
EXTENDS TonCrc, TonBits, Bitwise, TLC, FiniteSets
CONSTANTS MaxLen, Alphabet

ASSUME CrcVectorsOk

VARIABLES a, b
Init == a = <<>> /\ b = <<>>
Next == \/ /\ Len(a) < MaxLen
           /\ \E x \in Alphabet, y \in Alphabet : a' = Append(a, x) /\ b' = Append(b, y)
XorBytes(u, v) == [i \in 1..Len(u) |-> u[i] ^^ v[i]]
W2(w1, w2) == <<w1[1] ^^ w2[1], w1[2] ^^ w2[2]>>
\* linear part is additive; full CRC is affine: crc(a^b) = crc(a) ^ crc(b) ^ crc(0^n)
Lin16 == Crc16Reg(XorBytes(a, b)) = (Crc16Reg(a) ^^ Crc16Reg(b))
Lin32 == Crc32cLin(XorBytes(a, b)) = W2(Crc32cLin(a), Crc32cLin(b))
Affine32 == Crc32cWord(XorBytes(a, b)) = W2(W2(Crc32cWord(a), Crc32cWord(b)), Crc32cWord(Rep(Len(a), 0)))
\* a non-zero difference is never mapped to a zero syndrome at these lengths (<= 32 bit burst)
Burst32 == (a # b /\ Len(a) <= 4) => Crc32cWord(a) # Crc32cWord(b)
Burst16 == (a # b /\ Len(a) <= 2) => Crc16(a) # Crc16(b)
=============================================================================
