----------------------------- MODULE MC_Hashmap -----------------------------
(* M + G for TonHashmap (C09, C10).                                          *)
(*  KindLemma   RefKind (TON's append_dict_label) = MinKind (shortest, ties   *)
(*              short < long < same) for EVERY (n, m, same), m <= MaxM        *)
(*  machine     the map grows key by key (all key sets of width W); at every  *)
(*              state, for every label policy, plain and augmented:           *)
(*              ParseAll   parsing the tree returns exactly the map           *)
(*              Canon      the canonical tree uses RefKind on every edge and  *)
(*                         differs from every tree that does not              *)
(*              AugFold    fork extras are the fold of the leaf extras below  *)
(*  G           every (map, policy, aug) tree printed as JSON                 *)
EXTENDS TonHashmap, Json, TLC
CONSTANTS W, KeyVals, MaxM, Emit, Policies, XW

KindLemma == \A m \in 0..MaxM : \A n \in 0..m : \A same \in BOOLEAN :
                (same => n > 0) => RefKind(n, m, same) = MinKind(n, m, same)
ASSUME KindLemma

VARIABLE mp
Keys == {NatBits(v, W) : v \in KeyVals}
Val(k) == NatBits((BitsNat(k) * 5 + 3) % 256, 8)
Ext(k) == NatBits((BitsNat(k) + 1) % (2^XW), XW)
Init == mp = [k \in {} |-> 0]
Next == \E k \in Keys \ DOMAIN mp : mp' = [x \in (DOMAIN mp) \cup {k} |-> IF x = k THEN [v |-> Val(k), x |-> Ext(k)] ELSE mp[x]]
Spec == Init /\ [][Next]_mp

Tree(pol, aug) == EdgeP(mp, W, pol, aug, XW, 0)
Parsed(pol, aug) == LET f == Flatten(Tree(pol, aug), <<>>) IN ParseHeap(f.heap, f.root, W, <<>>, IF aug THEN XW ELSE 0)
ParseAll == DOMAIN mp # {} =>
    \A pol \in Policies : \A aug \in BOOLEAN :
        LET p == Parsed(pol, aug) IN
        /\ p.ok
        /\ {[k |-> l.k, v |-> l.v] : l \in p.leaves} = {[k |-> k, v |-> mp[k].v] : k \in DOMAIN mp}
        /\ aug => \A l \in p.leaves : l.x = mp[l.k].x
\* kinds used along a tree (by re-reading every label)
RECURSIVE KindsCanon(_, _)
KindsCanon(t, m) ==
    LET L == ReadLabel(t.b, m) IN
    /\ L.ok /\ L.kind = RefKind(L.n, m, L.n > 0 /\ AllSame(L.s))
    /\ \A j \in 1..Len(t.r) : KindsCanon(t.r[j], m - L.n - 1)
Canon == DOMAIN mp # {} =>
    /\ KindsCanon(Tree("canon", FALSE), W)
    /\ \A pol \in Policies : (Tree(pol, FALSE) = Tree("canon", FALSE)) <=> KindsCanon(Tree(pol, FALSE), W)
AugFold == DOMAIN mp # {} =>
    LET p == Parsed("canon", TRUE) IN
    \A f \in p.forks : BitsNat(f.x) = SumX([k \in {kk \in DOMAIN mp : SubSeq(kk, 1, Len(f.p)) = f.p} |-> mp[k]], XW)
Export == (Emit /\ DOMAIN mp # {}) =>
    \A pol \in Policies : \A aug \in BOOLEAN :
        PrintT(ToJson([w |-> W, keys |-> SetToSeq(DOMAIN mp), pol |-> pol, aug |-> aug, xw |-> XW,
                       vals |-> SetToSeq({[k |-> k, v |-> mp[k].v, x |-> mp[k].x] : k \in DOMAIN mp}), tree |-> Tree(pol, aug)]))
=============================================================================
