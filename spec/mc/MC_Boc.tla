------------------------------- MODULE MC_Boc -------------------------------
(* M + G for the bag-of-cells format (C03, C04, C05).                        *)
(* The DAG machine grows a heap; for every heap, every admissible encoder    *)
(* freedom and every root list:                                              *)
(*   DecodeEncode   Decode(Encode(bag, roots, f)) returns exactly bag/roots  *)
(*   FlipDetected   every single-bit flip of a CRC-protected encoding is Err  *)
(*   TruncExtendErr every proper prefix and every extension is Err           *)
(*   BadRefErr      rewiring a reference to self/backward/dangling is Err    *)
(* G: the encodings (and corrupted variants) are printed as JSON.            *)
EXTENDS TonBoc, Json, TLC
CONSTANTS MaxCells, BitLens, MaxRefsGen, Exotics, Sizes, Offbs, WithHashes, Emit, Corrupt

VARIABLES heap
PatBits(n) == [i \in 1..n |-> IF n <= 2 THEN 1 ELSE (i + (i \div 7)) % 2]
RefSeqs(n) == UNION {[1..k -> 1..n] : k \in 0..MaxRefsGen}
Info == C!InfoAll(heap)
Init == heap = <<>>
AddOrdinary == \E n \in BitLens, r \in RefSeqs(Len(heap)) : heap' = Append(heap, C!MkOrd(PatBits(n), r))
AddPruned == /\ "pruned" \in Exotics
             /\ \E k \in 1..Len(heap), lvl \in 1..3 :
                   /\ lvl > C!Lvl(Info[k].mask)
                   /\ heap' = Append(heap, C!MkPruned(heap, Info, k, lvl))
AddMerkleProof == /\ "mproof" \in Exotics
                  /\ \E k \in 1..Len(heap) : heap' = Append(heap, C!MkMerkleProof(heap, Info, k))
AddLibrary == /\ "library" \in Exotics
              /\ \E k \in 1..Len(heap) : heap' = Append(heap, C!MkLibrary(C!HashAt(heap, Info, k, 0)))
Next == Len(heap) < MaxCells /\ (AddOrdinary \/ AddPruned \/ AddMerkleProof \/ AddLibrary)
Spec == Init /\ [][Next]_<<heap>>

N == Len(heap)
\* a bag must not contain two equal cells: keep heaps whose cells are pairwise different trees
Distinct == \A i, j \in 1..N : i # j => C!Unfold(heap, i) # C!Unfold(heap, j)
Bag0 == Flip(heap)
\* every cell order in which references point forward (Bag0 is one of them)
Permute(bag, p) == [k \in 1..Len(bag) |-> LET o == CHOOSE x \in 1..Len(bag) : p[x] = k
                                          IN [bag[o] EXCEPT !.r = [j \in 1..Len(bag[o].r) |-> p[bag[o].r[j]]]]]
Forward(bag) == \A k \in 1..Len(bag) : \A j \in 1..Len(bag[k].r) : bag[k].r[j] > k
Orders == {b \in {Permute(Bag0, p) : p \in Permutations(1..N)} : Forward(b)}
RootLists == {<<1>>} \cup (IF N >= 2 THEN {<<2>>, <<1, 2>>, <<2, 1>>, <<1, 1>>} ELSE {})
Freedoms == {[magic |-> m, size |-> s, offb |-> o, idx |-> i, crc |-> c, cache |-> ca, wh |-> w] :
               m \in {"generic", "idx", "idxcrc"}, s \in Sizes, o \in Offbs, i \in BOOLEAN, c \in BOOLEAN,
               ca \in BOOLEAN, w \in WithHashes}
Bag == Bag0
Cases == {<<rs, f>> \in RootLists \X Freedoms : FreedomOk(Bag, rs, f)}

SameBag(d, bag, rs) == d.ok /\ d.bheap = bag /\ [j \in 1..Len(rs) |-> N + 1 - d.roots[j]] = rs
DecodeEncode == (N >= 1 /\ Distinct) =>
    \A bag \in Orders : \A cs \in Cases : SameBag(Decode(Encode(bag, cs[1], cs[2])), bag, cs[1])

CrcCases == {cs \in Cases : cs[2].crc /\ ~cs[2].wh /\ cs[2].size = 1 /\ cs[2].offb = 2 /\ cs[1] = <<1>>}
FlipDetected == (Corrupt /\ N >= 1 /\ Distinct) =>
    \A cs \in CrcCases : LET B == Encode(Bag, cs[1], cs[2]) IN \A i \in 1..(8 * Len(B)) : ~Decode(FlipBit(B, i)).ok
SmallCases == {cs \in Cases : ~cs[2].wh /\ cs[2].size = 1 /\ cs[2].offb = 2 /\ cs[1] = <<1>>}
TruncExtendErr == (Corrupt /\ N >= 1 /\ Distinct) =>
    \A cs \in SmallCases : LET B == Encode(Bag, cs[1], cs[2]) IN
        /\ \A n \in 0..(Len(B) - 1) : ~Decode(Truncate(B, n)).ok
        /\ \A t \in {<<0>>, <<255>>, <<0, 0, 0, 0>>, <<181, 238>>} : ~Decode(Extend(B, t)).ok
\* rewire reference j of bag cell k to target x (self, backward, dangling)
Rewire(k, j, x) == [Bag EXCEPT ![k].r[j] = x]
BadRefErr == (Corrupt /\ N >= 1 /\ Distinct) =>
    \A k \in 1..N : \A j \in 1..Len(Bag[k].r) : \A x \in (1..k) \cup {N + 1, N + 2, 255} :
        \A f \in {ff \in Freedoms : FreedomOk(Bag, <<1>>, ff) /\ ~ff.wh /\ ff.magic = "generic" /\ ff.size = 1 /\ ff.offb = 2 /\ ~ff.cache} :
            ~Decode(EncodeRaw(Rewire(k, j, x), <<1>>, f, MasksOf(heap), <<>>)).ok

\* ---- G
Export == (Emit /\ N >= 1 /\ Distinct) =>
    \A bag \in Orders : \A cs \in Cases :
        PrintT(ToJson([bag |-> bag, roots |-> cs[1], f |-> cs[2], bytes |-> Encode(bag, cs[1], cs[2])]))
=============================================================================
