------------------------------ MODULE TlbEncode ------------------------------
(* Utility run (G on demand): read values composed by a driver, write their    *)
(* encodings and flattened leaves as computed by the specification.            *)
(* in : ndjson [id, type, val] ("MessageL" = logical message)                  *)
(* out: ndjson [id, encs: Seq([sides, tree, flat])]                            *)
EXTENDS TonMsg, Json, IOUtils, TLC, SequencesExt, FiniteSets
Vm == INSTANCE TonVm
In == ndJsonDeserialize(IOEnv.IN_FILE)
EncOne(r) ==
    IF r.type = "MessageL"
    THEN SetToSeq({[sides |-> e.sides, tree |-> e.tree, flat |-> T!FlattenV("Message", MsgValue(r.val, e.sides[1], e.sides[2]))] : e \in Encodings(r.val)})
    ELSE IF r.type = "DecodeL"                       \* decode direction: a cell tree read under the schema, flattened
    THEN LET d == T!Decode(r.nm, r.tree) IN
         <<[sides |-> <<>>, ok |-> d.ok, flat |-> IF d.ok THEN T!FlattenV(r.nm, d.v) ELSE <<>>]>>
    ELSE IF r.type = "VmStackL" THEN <<[sides |-> <<>>, tree |-> Vm!EncStack(r.val), flat |-> <<>>]>>
    ELSE <<[sides |-> <<>>, tree |-> T!Encode(r.type, r.val), flat |-> T!FlattenV(r.type, r.val)]>>
ASSUME ndJsonSerialize(IOEnv.OUT_FILE, [i \in 1..Len(In) |-> [id |-> In[i].id, encs |-> EncOne(In[i])]])
ASSUME \A i \in 1..Len(In) : In[i].type = "MessageL" => FallbackLemma(In[i].val)
VARIABLE x
Init == x = 0
Next == UNCHANGED x
=============================================================================
