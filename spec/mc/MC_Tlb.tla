------------------------------- MODULE MC_Tlb -------------------------------
(* M + G for the TL-B interpreter over the transcribed schema (C15-C17):      *)
(*  TagsOk     constructor tags of every type are prefix-free                 *)
(*  G          for every type in Types: every boundary value (one factor at   *)
(*             a time) with its encoding (cell tree) and its flattened leaves *)
EXTENDS TlbSchema, Json, TLC, FiniteSets
CONSTANTS Types, Emit
G == INSTANCE TlbGen WITH Schema <- TheSchema
TagsOk == \A nm \in DOMAIN TheSchema : G!TagsPrefixFree(nm)
ASSUME TagsOk
VARIABLE ty
Init == ty \in Types
Next == UNCHANGED ty
Export == Emit => \A v \in G!TopValues(ty) :
             ~G!TreeFits(G!Encode(ty, v)) \/ PrintT(ToJson([type |-> ty, val |-> v, enc |-> G!Encode(ty, v), flat |-> G!FlattenV(ty, v)]))
Count == Cardinality(G!TopValues(ty)) >= 1
=============================================================================
