------------------------------- MODULE MC_Tlb -------------------------------
(* M + G for the TL-B interpreter over the transcribed schema (C15-C17):      *)
(*  TagsOk     constructor tags of every type are prefix-free                 *)
(*  DecEnc     decode(encode(v)) = v leaf by leaf, for every generated value *)
(*  G          for every type in Types: every boundary value (one factor at   *)
(*             a time) with its encoding (cell tree) and its flattened leaves *)
EXTENDS TlbSchema, Json, TLC, FiniteSets
CONSTANTS Types, Emit, Pairs
G == INSTANCE TlbGen WITH Schema <- TheSchema
TagsOk == \A nm \in DOMAIN TheSchema : G!TagsPrefixFree(nm)
ASSUME TagsOk
Vals(nm0) == LET nm == TypeOf(nm0) IN IF Pairs THEN G!TopValues(nm) \cup G!PairValues(nm) ELSE G!TopValues(nm)
VARIABLE ty
Init == ty \in Types
Next == UNCHANGED ty
Export == Emit => \A v \in Vals(ty) :
             ~G!TreeFits(G!Encode(TypeOf(ty), v)) \/ PrintT(ToJson([type |-> ty, base |-> TypeOf(ty), val |-> v, enc |-> G!Encode(TypeOf(ty), v), flat |-> G!FlattenV(TypeOf(ty), v)]))
Count == Cardinality(Vals(ty)) >= 1
\* M: the decoder (an independent reading of the schema) inverts the encoder on every generated value: every leaf the
\* flattener lists for the decoded value is the leaf of the original, and the cell is consumed exactly
DecEnc == \A v \in Vals(ty) :
             LET e == G!Encode(TypeOf(ty), v) IN
             G!TreeFits(e) => LET d == G!Decode(TypeOf(ty), e) IN d.ok /\ G!FlattenV(TypeOf(ty), d.v) = G!FlattenV(TypeOf(ty), v)
=============================================================================
