------------------------------- MODULE MC_Addr -------------------------------
(* M for TonAddr (C13): ParseRender for every workchain x 8 variants x hash   *)
(* patterns (machine stepping through workchains), and the substitution       *)
(* lemma for ALL addresses at once via CRC linearity: no single-symbol error  *)
(* pattern (48 positions x 63 differences) has a zero CRC-16 syndrome.        *)
EXTENDS TonAddr, TLC
CONSTANTS HashPatterns

SubstitutionLemma == \A p \in 1..48 : \A d \in 1..63 : Crc16Reg(ErrPattern(p, d)) # 0
ASSUME SubstitutionLemma
\* linearity itself, spot-checked on the error patterns against a fixed codeword
ASSUME LET c == Payload(-1, Rep(32, 165), TRUE, FALSE) IN
       \A p \in {1, 2, 24, 47, 48} : \A d \in {1, 32, 63} :
           LET e == ErrPattern(p, d)  x == [i \in 1..36 |-> c[i] ^^ e[i]]
           IN Crc16Reg(x) = (Crc16Reg(c) ^^ Crc16Reg(e)) /\ Crc16Reg(c) = 0

VARIABLE wc
Init == wc = -128
Next == wc < 127 /\ wc' = wc + 1
HashOf(pat) == CASE pat = 0 -> Rep(32, 0) [] pat = 1 -> Rep(32, 255) [] pat = 2 -> [i \in 1..32 |-> IF i = 1 THEN 128 ELSE 0]
                 [] pat = 3 -> [i \in 1..32 |-> (i * 37 + 11) % 256] [] OTHER -> [i \in 1..32 |-> (i * pat) % 256]
ParseRender == \A pat \in HashPatterns : \A bounce \in BOOLEAN, test \in BOOLEAN, url \in BOOLEAN :
    LET h == HashOf(pat)
        r == ParseFriendly(Friendly(wc, h, bounce, test, url))
    IN r.ok /\ r.wc = wc /\ r.hash = h /\ r.bounce = bounce /\ r.test = test
=============================================================================
