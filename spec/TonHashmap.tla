----------------------------- MODULE TonHashmap -----------------------------
(* TON Hashmap / HashmapAug (block.tlb hm_edge, hml_short/long/same,         *)
(* hmn_leaf/fork, ahm_edge, ahmn_leaf/fork) as Patricia trees of cells.      *)
(*   map : function from keys (bit sequences of equal length m) to values    *)
(*         (bit sequences); aug maps carry an extra per key and a fold       *)
(*   tree: nested cells [b |-> bits, r |-> <<left, right>> or <<>>]          *)
EXTENDS TonBits

RECURSIVE BitLen(_)
BitLen(m) == IF m = 0 THEN 0 ELSE 1 + BitLen(m \div 2)
AllSame(s) == \A i \in 1..Len(s) : s[i] = s[1]

\* ---- label kinds
\* TON's choice, transcribed from crypto/vm/dict.cpp append_dict_label(_same):
\* n = label length, m = remaining key length (max_len), same = all label bits equal (n > 0)
RefKind(n, m, same) ==
    LET k == BitLen(m) IN
    IF same /\ n > 0
    THEN IF n > 1 /\ k < 2 * n - 1 THEN "same" ELSE IF k < n THEN "long" ELSE "short"
    ELSE IF k < n THEN "long" ELSE "short"
\* declarative: the shortest encoding, ties resolved short < long < same
KindLen(kind, n, m) == CASE kind = "short" -> 2 * n + 2
                         [] kind = "long"  -> 2 + BitLen(m) + n
                         [] kind = "same"  -> 3 + BitLen(m)
\* (hml_same with n = 0 is a valid, never shortest, way to write the empty label: '11' v and a length field of 0)
Admissible(kind, n, same) == kind \in {"short", "long"} \/ (kind = "same" /\ (n = 0 \/ same))
Rank(kind) == CASE kind = "short" -> 0 [] kind = "long" -> 1 [] kind = "same" -> 2
MinKind(n, m, same) ==
    CHOOSE kd \in {"short", "long", "same"} :
        /\ Admissible(kd, n, same)
        /\ \A o \in {"short", "long", "same"} : Admissible(o, n, same) =>
              (KindLen(kd, n, m) < KindLen(o, n, m) \/ (KindLen(kd, n, m) = KindLen(o, n, m) /\ Rank(kd) <= Rank(o)))

LabelEnc(kind, s, m) ==
    LET n == Len(s)  k == BitLen(m) IN
    CASE kind = "short" -> <<0>> \o Rep(n, 1) \o <<0>> \o s
      [] kind = "long"  -> <<1, 0>> \o NatBits(n, k) \o s
      [] kind = "same"  -> <<1, 1, IF n = 0 THEN 1 ELSE s[1]>> \o NatBits(n, k)

\* longest common prefix of a non-empty set of equal-length bit sequences
Lcp(S) == LET a == CHOOSE x \in S : TRUE
              ok(j) == \A x \in S : SubSeq(x, 1, j) = SubSeq(a, 1, j)
              j == CHOOSE jj \in 0..Len(a) : ok(jj) /\ (jj = Len(a) \/ ~ok(jj + 1))
          IN SubSeq(a, 1, j)

\* label-kind policies: "canon" = TON's; "short"/"long"/"same" = that kind wherever admissible (else long / short);
\* "mix0".."mix2" rotate kinds along the path
KindFor(pol, lab, m, depth) ==
    LET n == Len(lab)  same == n > 0 /\ AllSame(lab)
        pick(kd) == IF Admissible(kd, n, same) THEN kd ELSE IF kd = "same" THEN "long" ELSE "short"
    IN CASE pol = "canon" -> RefKind(n, m, same)
         [] pol \in {"short", "long", "same"} -> pick(pol)
         [] pol = "mix0" -> pick(<<"short", "long", "same">>[((depth + n) % 3) + 1])
         [] pol = "mix1" -> pick(<<"long", "same", "short">>[((depth + n) % 3) + 1])
         [] pol = "mix2" -> pick(<<"same", "short", "long">>[((depth + m) % 3) + 1])

\* ---- building.  mp : keys -> [v |-> value bits, x |-> extra bits (aug only)]
\* Fold(S) gives the extra of a fork from the multiset of leaf extras below it; here extras are
\* natural numbers in XW bits and the fold is the sum modulo 2^XW (stands for any commutative fold)
SubMap(mp, l, m, bit) ==
    LET sk == {x \in DOMAIN mp : x[l + 1] = bit}
    IN [y \in {SubSeq(x, l + 2, m) : x \in sk} |-> mp[CHOOSE x \in sk : SubSeq(x, l + 2, m) = y]]
RECURSIVE SumX(_, _)
SumX(mp, xw) == LET ks == DOMAIN mp IN
    IF ks = {} THEN 0 ELSE LET k == CHOOSE x \in ks : TRUE
                           IN (BitsNat(mp[k].x) + SumX([y \in ks \ {k} |-> mp[y]], xw)) % (2^xw)
RECURSIVE EdgeP(_, _, _, _, _, _)
EdgeP(mp, m, pol, aug, xw, depth) ==
    LET ks    == DOMAIN mp
        lab   == Lcp(ks)
        l     == Len(lab)
        lbits == LabelEnc(KindFor(pol, lab, m, depth), lab, m)
    IN IF l = m
       THEN [b |-> lbits \o (IF aug THEN mp[lab].x ELSE <<>>) \o mp[lab].v,
             r |-> IF "r" \in DOMAIN mp[lab] THEN mp[lab].r ELSE <<>>]        \* leaf values may carry references
       ELSE [b |-> lbits \o (IF aug THEN NatBits(SumX(mp, xw), xw) ELSE <<>>),
             r |-> <<EdgeP(SubMap(mp, l, m, 0), m - l - 1, pol, aug, xw, depth + 1),
                     EdgeP(SubMap(mp, l, m, 1), m - l - 1, pol, aug, xw, depth + 1)>>]
Edge(mp, m) == EdgeP(mp, m, "canon", FALSE, 0, 0)

\* ---- parsing a tree of nested cells, all label kinds
\* label at the front of bits: [ok, n, s, used]
ReadLabel(bits, m) ==
    LET k == BitLen(m)  L == Len(bits) IN
    IF L < 1 THEN [ok |-> FALSE]
    ELSE IF bits[1] = 0
    THEN LET ones == CHOOSE j \in 0..L : (j + 2 > L \/ bits[j + 2] = 0) /\ \A i \in 0..(j - 1) : bits[i + 2] = 1 IN
         IF ones + 2 > L \/ ones > m \/ 2 * ones + 2 > L THEN [ok |-> FALSE]
         ELSE [ok |-> TRUE, n |-> ones, s |-> SubSeq(bits, ones + 3, 2 * ones + 2), used |-> 2 * ones + 2, kind |-> "short"]
    ELSE IF L < 2 THEN [ok |-> FALSE]
    ELSE IF bits[2] = 0
    THEN IF L < 2 + k THEN [ok |-> FALSE]
         ELSE LET n == BitsNat(SubSeq(bits, 3, 2 + k)) IN
              IF n > m \/ L < 2 + k + n THEN [ok |-> FALSE]
              ELSE [ok |-> TRUE, n |-> n, s |-> SubSeq(bits, 3 + k, 2 + k + n), used |-> 2 + k + n, kind |-> "long"]
    ELSE IF L < 3 + k THEN [ok |-> FALSE]
         ELSE LET n == BitsNat(SubSeq(bits, 4, 3 + k)) IN
              IF n > m THEN [ok |-> FALSE]
              ELSE [ok |-> TRUE, n |-> n, s |-> Rep(n, bits[3]), used |-> 3 + k, kind |-> "same"]

\* ---- trees <-> heaps of TonCell-style cells [t, n, y, r]
\* parse from a heap (children-first, refs 1-based): set of [k |-> key bits, rest |-> bits after the label (extra ++ value), x |-> fork extras...]
\* pruned branches (t = 1) contribute nothing.  xw = width of the extra (0 for plain maps).
\* result: [ok, leaves (set of [k, x, v]), forks (set of [p (prefix), x])]
RECURSIVE ParseHeap(_, _, _, _, _)
ParseHeap(heap, id, m, pfx, xw) ==
    LET c == heap[id] IN
    IF c.t = 1 THEN [ok |-> TRUE, leaves |-> {}, forks |-> {}]
    ELSE IF c.t # 0 THEN [ok |-> FALSE]
    ELSE LET bits == BitsOf([n |-> c.n, y |-> c.y])
             L == ReadLabel(bits, m) IN
    IF ~L.ok THEN [ok |-> FALSE]
    ELSE LET p == pfx \o L.s  m2 == m - L.n  rest == SubSeq(bits, L.used + 1, Len(bits)) IN
    IF Len(rest) < xw THEN [ok |-> FALSE]
    ELSE IF m2 = 0
    THEN [ok |-> TRUE, leaves |-> {[k |-> p, x |-> SubSeq(rest, 1, xw), v |-> SubSeq(rest, xw + 1, Len(rest)), r |-> c.r]}, forks |-> {}]
    \* a fork has its two children first; further references belong to the fork's extra (augmented dictionaries only: ahmn_fork left:^ right:^ extra:Y)
    ELSE IF Len(c.r) < 2 \/ (xw = 0 /\ Len(c.r) # 2) THEN [ok |-> FALSE]
    ELSE LET a == ParseHeap(heap, c.r[1], m2 - 1, Append(p, 0), xw)
             b == ParseHeap(heap, c.r[2], m2 - 1, Append(p, 1), xw)
         IN IF ~a.ok \/ ~b.ok THEN [ok |-> FALSE]
            ELSE [ok |-> TRUE, leaves |-> a.leaves \cup b.leaves,
                  forks |-> a.forks \cup b.forks \cup {[p |-> p, x |-> SubSeq(rest, 1, xw)]}]

\* flatten a nested tree to a heap (children first); result [heap, root]
RECURSIVE Flatten(_, _)
Flatten(t, heap) ==
    LET step(acc, kid) == LET f == Flatten(kid, acc.heap) IN [heap |-> f.heap, roots |-> Append(acc.roots, f.root)]
        ks == FoldLeft(step, [heap |-> heap, roots |-> <<>>], t.r)
        bs == BitStrOf(t.b)
    IN [heap |-> Append(ks.heap, [t |-> 0, n |-> bs.n, y |-> bs.y, r |-> ks.roots]), root |-> Len(ks.heap) + 1]
\* nested tree of heap cell id (structure only, as [b, r])
RECURSIVE TreeOf(_, _)
TreeOf(heap, id) == [b |-> BitsOf([n |-> heap[id].n, y |-> heap[id].y]),
                     r |-> [j \in 1..Len(heap[id].r) |-> TreeOf(heap, heap[id].r[j])]]

\* lexicographic order on equal-length bit sequences = numeric order of keys
RECURSIVE BitsLess(_, _)
BitsLess(a, b) == IF a = <<>> THEN FALSE
                  ELSE IF a[1] # b[1] THEN a[1] < b[1] ELSE BitsLess(Tail(a), Tail(b))
=============================================================================
