------------------------------ MODULE C15Trace ------------------------------
(* C15: message / state-init / currency / wallet-data serialisers emit a valid *)
(* block.tlb encoding and never fail for lack of room; the parsers read every  *)
(* valid encoding back to the same fields.                                     *)
EXTENDS TraceKit, TonMsg, TlbCompare
Failed(r) ==
    CASE r.op = "msg_ser" ->
            LET encs == Encodings(r.val) IN
            IF encs = {} THEN {}                                   \* not representable at all: nothing is promised
            ELSE IF Has(r.out, "err") THEN {"serialize_failed_although_an_encoding_fits"}
            ELSE Clause("serialized_cell_is_not_a_valid_encoding", r.out.tree \in {e.tree : e \in encs})
      [] r.op = "wrap_ser" ->
            IF Has(r.out, "err") THEN {"serialize_raised_" \o r.type}
            ELSE Clause("wrapper_encoding_wrong_" \o r.type, r.out.tree \in WrapEncodings(r.type, r.val))
      [] r.op = "parse" ->
            ParseFailed(r)
TInit == KitInit
TNext == KitNext(Failed)
=============================================================================
