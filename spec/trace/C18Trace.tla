------------------------------ MODULE C18Trace ------------------------------
(* C18: the library's crc16 / crc32c equal the bitwise catalogue definitions. *)
EXTENDS TraceKit, TonCrc

\* record: [i, op = "crc", data (bytes), c16, c32le, c32be (bytes as returned by the library)]
\*         optional: be2 (crc32c with the byte order 'big' given as a string object created at run time)
Failed(r) ==
    LET w == Crc32cWord(r.data)                       \* one pass over the data for both byte orders
        be == <<w[1] \div 256, w[1] % 256, w[2] \div 256, w[2] % 256>>
        le == <<w[2] % 256, w[2] \div 256, w[1] % 256, w[1] \div 256>>
    IN Clause("crc16_ok",    r.c16   = Crc16(r.data))
       \cup Clause("crc32c_le_ok", r.c32le = le)
       \cup Clause("crc32c_be_ok", r.c32be = be)
       \cup (IF Has(r, "forms")
             THEN Clause("same_result_whatever_bytes_like_object_holds_the_data", \A j \in 1..Len(r.forms) :
                             LET f == r.forms[j] IN
                             ~Has(f, "err") /\ f.c16 = Crc16(r.data) /\ f.le = le /\ f.be = be /\ f.bek = be /\ f.lek = le)
             ELSE {})
       \cup (IF Has(r, "be2") THEN Clause("crc32c_be_ok_whatever_string_object_names_the_order", r.be2 = be /\ r.le2 = le) ELSE {})

TInit == KitInit
TNext == KitNext(Failed)
=============================================================================
