------------------------------ MODULE C18Trace ------------------------------
(* C18: the library's crc16 / crc32c equal the bitwise catalogue definitions. *)
EXTENDS TraceKit, TonCrc

\* record: [i, op = "crc", data (bytes), c16, c32le, c32be (bytes as returned by the library)]
Failed(r) ==
    Clause("crc16_ok",    r.c16   = Crc16(r.data))
    \cup Clause("crc32c_le_ok", r.c32le = Crc32cLE(r.data))
    \cup Clause("crc32c_be_ok", r.c32be = Crc32cBE(r.data))

TInit == KitInit
TNext == KitNext(Failed)
=============================================================================
