------------------------------ MODULE C13Trace ------------------------------
(* C13: address text forms.                                                  *)
EXTENDS TraceKit, TonAddr

\* record "addr": [wc, hash, form = "raw" | "friendly", bounce, test, url (0/1), text (ASCII) | err, back = [wc, hash, bounce, test, eq, hasheq] | [err]]
\* record "subst": [text, out = [ok |-> 1] | [err]]
Failed(r) ==
    IF r.op = "addr"
    THEN IF Has(r, "err") THEN {"render_raised"}
         ELSE Clause("render_ok", r.text = IF r.form = "raw" THEN Raw(r.wc, r.hash)
                                           ELSE Friendly(r.wc, r.hash, r.bounce = 1, r.test = 1, r.url = 1))
         \cup (IF Has(r.back, "err") THEN {"parse_raised"}
               ELSE Clause("parse_ok", r.back.wc = r.wc /\ r.back.hash = r.hash)
                    \cup Clause("flags_ok", IF r.form = "raw" THEN r.back.bounce = 0 /\ r.back.test = 0
                                            ELSE r.back.bounce = r.bounce /\ r.back.test = r.test)
                    \cup Clause("eq_and_hash_consistent", r.back.eq = 1 /\ r.back.hasheq = 1))
    ELSE LET p == ParseFriendly(r.text) IN
         Clause("substitution_rejected", ~p.ok => Has(r.out, "err"))
         \cup Clause("valid_text_accepted", p.ok => ~Has(r.out, "err"))

TInit == KitInit
TNext == KitNext(Failed)
=============================================================================
