------------------------------ MODULE C16Trace ------------------------------
(* C16: the library's TL-B parsers report, for every leaf of a value encoded  *)
(* by the TonTlb interpreter, the abstract value the schema gives it, and     *)
(* consume exactly the encoded bits and references.                           *)
EXTENDS TraceKit, TlbCompare
\* record: type, flat (leaves from the generator: path, k, a), obs (what the library object holds at each leaf, or
\*         [skip |-> 1] where the library exposes nothing comparable, or [missing |-> 1]), rem [bits, refs] | err
Failed(r) == ParseFailed(r)
TInit == KitInit
TNext == KitNext(Failed)
=============================================================================
