------------------------------ MODULE C16Trace ------------------------------
(* C16: the library's TL-B parsers report, for every leaf of a value encoded  *)
(* by the TonTlb interpreter, the abstract value the schema gives it, and     *)
(* consume exactly the encoded bits and references.                           *)
EXTENDS TraceKit
\* record: type, flat (leaves from the generator: path, k, a), obs (what the library object holds at each leaf, or
\*         [skip |-> 1] where the library exposes nothing comparable, or [missing |-> 1]), rem [bits, refs] | err
\* "logical equality" normalisations: an empty dictionary may be reported as none
Same(a, o) == \/ o = a
              \/ Has(o, "skip")
              \/ (Has(a, "dict") /\ a.dict = <<>> /\ Has(o, "none"))
Failed(r) ==
    IF Has(r, "err") THEN {"parse_raised_" \o r.type}
    ELSE UNION {IF Same(r.flat[i].a, r.obs[i]) THEN {}
                ELSE {"field_wrong_" \o r.type \o "." \o (IF r.flat[i].path = <<>> THEN "root" ELSE r.flat[i].path[Len(r.flat[i].path)])}
                : i \in 1..Len(r.flat)}
         \cup Clause("consumed_exact_" \o r.type, r.rem.bits = 0 /\ r.rem.refs = 0)
TInit == KitInit
TNext == KitNext(Failed)
=============================================================================
