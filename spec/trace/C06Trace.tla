------------------------------ MODULE C06Trace ------------------------------
EXTENDS TraceKit
VARIABLES objs, obs
\* C06 keeps the "value" clauses of the Bag machine (refusals of valid calls are reported for C06 and C07 alike)
T == INSTANCE BagTrace WITH KeepClasses <- {"value", "refuse"}
TInit == T!BInit
TNext == T!BNext
=============================================================================
