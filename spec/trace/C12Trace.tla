------------------------------ MODULE C12Trace ------------------------------
(* C12: check_block_signatures accepts exactly the genuine supermajorities.  *)
EXTENDS TraceKit, TonSha
S == INSTANCE TonSig WITH MaxV <- 0, MaxW <- 0, MaxLen <- 0, Dedupe <- TRUE, Strict <- TRUE,
                          weights <- 0, sigs <- 0, pc <- 0, i <- 0, seen <- 0, signedW <- 0, verdict <- 0

\* 64-bit weights: each weight a vector of 4 limbs of 20 bits (record field bigw), compared exactly with TonNat
N == INSTANCE TonNat WITH LB <- 1048576, NL <- 4
RECURSIVE SumSetL(_, _)
SumSetL(w, Q) == IF Q = {} THEN N!Zero ELSE LET x == CHOOSE y \in Q : TRUE IN N!Add(w[x], SumSetL(w, Q \ {x}))
SumL(w) == SumSetL(w, 1..Len(w))
GenuineL(w, sg) == S!AllGood(sg) /\ S!Distinct(sg) /\ N!Less(N!Scale(SumL(w), 2), N!Scale(SumSetL(w, S!Signers(sg)), 3))
MustRejectL(w, sg) == ~S!AllGood(sg) \/ N!Leq(N!Scale(SumSetL(w, S!Signers(sg) \ {0}), 3), N!Scale(SumL(w), 2))
\* record: [weights, items (each [s, k]), out = [ok |-> 1] | [err], optional ids/pubs/tosign/root/file for layout checks]
Failed(r) ==
    LET accepted == Has(r.out, "ok")
        genuine == IF Has(r, "bigw") THEN GenuineL(r.bigw, r.items) ELSE S!Genuine(r.weights, r.items)
        mustrej == IF Has(r, "bigw") THEN MustRejectL(r.bigw, r.items) ELSE S!MustReject(r.weights, r.items) IN
    Clause("genuine_set_accepted", genuine => accepted)
    \cup Clause("accepted_without_genuine_supermajority", mustrej => ~accepted)
    \cup Clause("node_id_layout", Has(r, "pubs") => \A j \in 1..Len(r.pubs) : r.ids[j] = Sha256(<<198, 180, 19, 72>> \o r.pubs[j]))
    \cup Clause("to_sign_layout", Has(r, "tosign") => r.tosign = <<112, 110, 11, 197>> \o r.root \o r.file)
TInit == KitInit
TNext == KitNext(Failed)
=============================================================================
