------------------------------ MODULE C12Trace ------------------------------
(* C12: check_block_signatures accepts exactly the genuine supermajorities.  *)
EXTENDS TraceKit, TonSha
S == INSTANCE TonSig WITH MaxV <- 0, MaxW <- 0, MaxLen <- 0, Dedupe <- TRUE, Strict <- TRUE,
                          weights <- 0, sigs <- 0, pc <- 0, i <- 0, seen <- 0, signedW <- 0, verdict <- 0

\* record: [weights, items (each [s, k]), out = [ok |-> 1] | [err], optional ids/pubs/tosign/root/file for layout checks]
Failed(r) ==
    LET accepted == Has(r.out, "ok") IN
    Clause("genuine_set_accepted", S!Genuine(r.weights, r.items) => accepted)
    \cup Clause("accepted_without_genuine_supermajority", S!MustReject(r.weights, r.items) => ~accepted)
    \cup Clause("node_id_layout", Has(r, "pubs") => \A j \in 1..Len(r.pubs) : r.ids[j] = Sha256(<<198, 180, 19, 72>> \o r.pubs[j]))
    \cup Clause("to_sign_layout", Has(r, "tosign") => r.tosign = <<112, 110, 11, 197>> \o r.root \o r.file)
TInit == KitInit
TNext == KitNext(Failed)
=============================================================================
