------------------------------ MODULE C20Trace ------------------------------
(* C20: ADNL channel symmetry, packet layout, signatures, mnemonics.         *)
EXTENDS TraceKit, TonAdnl

\* "chan": ida, idb, shared (computed independently), A/B = [enc, dec, ckid, skid], plain,
\*         pab / pba (packets), key_ab, iv_ab, ref_ab (driver's AES-CTR under key_ab/iv_ab), decb, deca
Failed(r) ==
    CASE r.op = "chan" ->
            LET ka == ChannelKeys(r.ida, r.idb, r.shared)
                kb == ChannelKeys(r.idb, r.ida, r.shared)
                sum == Sha256(r.plain) IN
            Clause("keys_by_order", r.A.enc = ka.enc /\ r.A.dec = ka.dec /\ r.B.enc = kb.enc /\ r.B.dec = kb.dec)
       \cup Clause("symmetric", r.A.enc = r.B.dec /\ r.A.dec = r.B.enc)
       \cup Clause("key_ids", r.A.ckid = AesKeyId(r.A.enc) /\ r.A.skid = AesKeyId(r.A.dec) /\ r.B.ckid = AesKeyId(r.B.enc)
                              /\ r.A.ckid = r.B.skid /\ r.B.ckid = r.A.skid)
       \cup Clause("packet_header", SubSeq(r.pab, 1, 64) = PacketHeader(ka.enc, r.plain) /\ SubSeq(r.pba, 1, 64) = PacketHeader(kb.enc, r.plain))
       \cup Clause("aes_key_iv_layout", r.key_ab = AesKey(ka.enc, sum) /\ r.iv_ab = AesIv(ka.enc, sum)
                                        /\ SubSeq(r.pab, 65, Len(r.pab)) = r.ref_ab /\ Len(r.pab) = 64 + Len(r.plain))
       \cup Clause("decrypts_back", r.decb = r.plain /\ r.deca = r.plain)
      \* a sequence of packets on one channel pair, all held until the end: a packet is a value - producing later packets does not
      \* change it - and each one carries the key id its receiver expects and the SHA-256 of its own plaintext, and decrypts to it
      [] r.op = "chan_seq" ->
            LET ka == ChannelKeys(r.ida, r.idb, r.shared)
                kb == ChannelKeys(r.idb, r.ida, r.shared) IN
            Clause("held_packet_changed_by_later_encryption", \A i \in 1..Len(r.events) : r.events[i].later = r.events[i].now)
       \cup Clause("packet_header", \A i \in 1..Len(r.events) :
                       LET e == r.events[i] IN
                       Len(e.later) = 64 + Len(e.plain)
                       /\ SubSeq(e.later, 1, 64) = PacketHeader(IF e.frm = "A" THEN ka.enc ELSE kb.enc, e.plain))
       \cup Clause("decrypts_back", \A i \in 1..Len(r.events) : r.events[i].dec = r.events[i].plain)
       \* decrypting reads the received datagram: the receiver's buffer is unchanged and a second delivery decrypts alike
       \cup Clause("decrypt_altered_the_received_packet", \A i \in 1..Len(r.events) : r.events[i].buf_after = r.events[i].now)
       \cup Clause("second_delivery_decrypts_differently", \A i \in 1..Len(r.events) : r.events[i].dec2 = r.events[i].plain)
      [] r.op = "sig" -> Clause("verify_iff_genuine", r.verified = r.genuine) \cup Clause("signature_is_64_bytes", r.siglen = 64)
      [] r.op = "mnemonic_rule" -> Clause("mnemonic_validity_follows_the_seed_rule", r.libvalid = r.rule)
      [] r.op = "derive" ->
            \* key derivation is a function of (helper, mnemonic, salt) over the whole history of calls: every result equals the
            \* labelled ground truth (PBKDF2-HMAC-SHA512 is not specified in TLA+, see DESIGN section 2), and two calls with the same
            \* arguments agree while the seeds of one mnemonic under different salts differ
            Clause("derivation_is_a_function_of_mnemonic_and_salt",
                   /\ \A i \in 1..Len(r.events) : r.events[i].out = r.events[i].truth
                   /\ \A i, j \in 1..Len(r.events) : (r.events[i].fn = r.events[j].fn /\ r.events[i].salt = r.events[j].salt) => r.events[i].out = r.events[j].out
                   /\ \A i, j \in 1..Len(r.events) : (r.events[i].fn = "seed" /\ r.events[j].fn = "seed" /\ r.events[i].salt # r.events[j].salt)
                                                            => r.events[i].out # r.events[j].out)
      [] r.op = "mnemonic" -> Clause("mnemonic_24_words_from_list", r.n = 24 /\ r.inlist = 1)
                              \cup Clause("generated_mnemonic_valid", r.valid = 1)
                              \cup Clause("derivation_deterministic", r.det = 1)
                              \cup Clause("public_matches_private", r.pubok = 1)
TInit == KitInit
TNext == KitNext(Failed)
=============================================================================
