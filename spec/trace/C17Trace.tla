------------------------------ MODULE C17Trace ------------------------------
(* C17: VmStack serialisation follows the schema, round-trips, and leaves the *)
(* caller's values untouched.                                                  *)
EXTENDS TraceKit
Vm == INSTANCE TonVm
\* "vm_ser": val (sequence of values), out [tree, tree2 (second serialisation), after (caller's values afterwards)] | [err]
\* "vm_parse": val, back (values the library parsed from the specification's encoding) | err
Failed(r) ==
    CASE r.op = "vm_ser" ->
            IF ~(\A i \in 1..Len(r.val) : Vm!ValueOk(r.val[i])) THEN {"MACHINERY_value_outside_domain"}
            ELSE IF ~Vm!Representable(r.val) THEN {}                \* no cell can hold it: nothing is promised
            ELSE IF Has(r.out, "err") THEN {"serialize_raised"}
            ELSE Clause("encoding_ok", r.out.tree = Vm!EncStack(r.val))
                 \cup Clause("caller_values_modified", Vm!SameSeq(r.out.after, r.val))
                 \cup Clause("second_serialisation_differs", r.out.tree2 = r.out.tree)
      [] r.op = "vm_parse" ->
            IF ~Vm!Representable(r.val) THEN {}
            ELSE IF Has(r, "err") THEN {"parse_raised"}
            ELSE LET want == [i \in 1..Len(r.val) |-> Vm!Norm(r.val[i])] IN
                 Clause("roundtrip_values_differ", Vm!SameSeq(r.back, want))
                 \cup Clause("second_parse_differs", Vm!SameSeq(r.back2, want))
                 \cup Clause("first_result_changed_by_second_parse", r.back_again = TRUE)
                 \* the caller went on to use the parsed builders (stored into them): the cell it parsed from is what it was
                 \cup Clause("source_cell_changed_by_using_the_parsed_values", Has(r, "src_same") => r.src_same = TRUE)
TInit == KitInit
TNext == KitNext(Failed)
=============================================================================
