------------------------------ MODULE C14Trace ------------------------------
(* C14: TL serialisation follows the framing and inverts parsing.            *)
EXTENDS TraceKit, TonBits
SchemaDB == JsonDeserialize(IOEnv.SCHEMA_FILE)
T == INSTANCE TonTL WITH Schemas <- SchemaDB

\* "tl": c (constructor), v (value), out = [bytes] | [err], back = [v, used] | [err], boxed 0/1
\* "schema": name -- checks the schema reader (Render) and the constructor id the library registered
\* "blockid": workchain, shard, seqno (big ints), root, file, bytes, rt_bytes, rt_dict, hashable, collide
Failed(r) ==
    CASE r.op = "tl" ->
            IF ~T!WfC(r.c, r.v) THEN {"MACHINERY_value_not_well_typed"}
            ELSE IF Has(r.out, "err") THEN {"serialize_raised"}
            ELSE Clause("bytes_exact", r.out.bytes = T!EncC(r.c, r.v, r.boxed = 1))
                 \cup (IF Has(r.back, "err") THEN {"parse_raised"}
                       ELSE Clause("parse_back_equal", r.back.v = r.v) \cup Clause("consumed_all", r.back.used = Len(r.out.bytes))
                            \cup (IF ~Has(r, "again") THEN {}
                                  ELSE IF Has(r.again, "err") THEN {"parse_result_cannot_be_serialised_again"}
                                  ELSE Clause("parse_result_serialises_to_other_bytes", r.again.bytes = r.out.bytes)))
      [] r.op = "tl_hostile" -> {}      \* malformed input between the round trips: executed for its effect on later calls only
      [] r.op = "schema" ->
            LET s == T!ByName[r.name] IN
            Clause("MACHINERY_schema_reader_disagrees_with_declaration", T!RenderOk(s))
            \cup Clause("id_ok", r.libid = T!IdBE(s))
      [] r.op = "blockid" ->
            LET want == T!LEInt(r.workchain, 4, TRUE) \o T!LEInt(r.shard, 8, TRUE) \o T!LEInt(r.seqno, 4, TRUE) IN
            Clause("to_bytes_layout", Has(r, "bytes") /\ r.bytes = RevSeq(T!LEInt(r.workchain, 4, TRUE)) \o RevSeq(T!LEInt(r.shard, 8, TRUE))
                                                                    \o RevSeq(T!LEInt(r.seqno, 4, TRUE)) \o r.root \o r.file)
            \cup Clause("from_bytes_fields", Has(r, "from_bytes") =>
                        r.from_bytes = [workchain |-> r.workchain, shard |-> r.shard, seqno |-> r.seqno, root |-> r.root, file |-> r.file])
            \cup Clause("bytes_roundtrip", r.rt_bytes = 1) \cup Clause("dict_roundtrip", r.rt_dict = 1)
            \cup Clause("distinct_ids_compare_equal", Has(r, "distinct") => r.distinct = 1)
            \cup Clause("hashable", r.hashable = 1) \cup Clause("equal_ids_collide", r.collide = 1)
TInit == KitInit
TNext == KitNext(Failed)
=============================================================================
