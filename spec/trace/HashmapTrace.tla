---------------------------- MODULE HashmapTrace ----------------------------
(* Clauses for C09 (dictionary round trip) and C10 (canonical encoding,      *)
(* parsers accept every valid tree).                                         *)
EXTENDS TraceKit, TonHashmap, TonSha
A == INSTANCE TonBag WITH MaxBits <- 1023, MaxRefs <- 4, MaxDepth <- 1023
C == INSTANCE TonCell WITH Hash <- Sha256, HLen <- 32, MaxBits <- 1023, MaxRefs <- 4, MaxDepth <- 1023

HeapOf(cells) == [k \in 1..Len(cells) |-> [t |-> cells[k].t, n |-> cells[k].n, y |-> cells[k].y, r |-> cells[k].r]]
BigOfBytes(bs) == [neg |-> 0, mag |-> StripLead(bs)]

\* the key a caller-supplied key denotes: [ok, bits]
KeyOf(form, k, w) ==
    CASE form = "int"   -> IF BigUFits(k, w) THEN [ok |-> TRUE, bits |-> BigUBits(k, w)] ELSE [ok |-> FALSE]
      [] form = "bytes" -> IF BigUFits(BigOfBytes(k), w) THEN [ok |-> TRUE, bits |-> BigUBits(BigOfBytes(k), w)] ELSE [ok |-> FALSE]
      [] form = "bits"  -> LET v == BigOfUBits(BitsOf(k)) IN IF BigUFits(v, w) THEN [ok |-> TRUE, bits |-> BigUBits(v, w)] ELSE [ok |-> FALSE]
      [] form = "addr"  -> IF w = 267 /\ k.kind = "std" /\ k.any = <<>> THEN [ok |-> TRUE, bits |-> A!AddrEnc(k)] ELSE [ok |-> FALSE]
      [] form = "hashed" -> IF w = 256 THEN [ok |-> TRUE, bits |-> BytesToBits(Sha256(k))] ELSE [ok |-> FALSE]

\* expected map of a record: later items overwrite earlier ones with the same key
\* a value is given by its bits, or (maps built with with_coins_values) as an amount whose bits are the VarUInteger 16 encoding
CoinsBits(x) == NatBits(MinBytesU(x), 4) \o BigUBits(x, 8 * MinBytesU(x))
ValBits(it) == IF Has(it, "coins") THEN CoinsBits(it.coins) ELSE BitsOf(it.v)
Items(r) == [j \in 1..Len(r.items) |-> [k |-> KeyOf(r.form, r.items[j].key, r.w).bits, v |-> ValBits(r.items[j])]]
MapOf(r) == LET it == Items(r)  ks == {it[j].k : j \in 1..Len(it)}
            IN [k \in ks |-> [v |-> it[CHOOSE j \in 1..Len(it) : it[j].k = k /\ \A jj \in (j + 1)..Len(it) : it[jj].k # k].v, x |-> <<>>]]
PairSet(mp) == {[k |-> k, v |-> mp[k].v] : k \in DOMAIN mp}

FailedC09(r) ==
    IF r.op = "badkey"
    THEN Clause("invalid_key_rejected", KeyOf(r.form, r.key, r.w).ok \/ Has(r.out, "err"))
         \cup Clause("valid_key_accepted", KeyOf(r.form, r.key, r.w).ok => ~Has(r.out, "err"))
    ELSE LET mp == MapOf(r) IN
    IF Has(r.out, "err") THEN {"serialize_raised"}
    ELSE IF r.items = <<>> THEN Clause("empty_is_none", Has(r.out, "none"))
    ELSE IF Has(r.out, "none") THEN {"nonempty_is_none"}
    ELSE LET heap == HeapOf(r.out.cell)
             sp == ParseHeap(heap, r.out.root, r.w, <<>>, 0) IN
         Clause("cell_denotes_map", sp.ok /\ {[k |-> l.k, v |-> l.v] : l \in sp.leaves} = PairSet(mp))
    \cup Clause("order_independent", \A j \in 1..Len(r.hashes) : r.hashes[j] = r.hashes[1])
    \cup UNION {IF Has(r.parsed[p], "err") THEN {"parse_raised_" \o r.parsed[p].via}
                ELSE LET ps == r.parsed[p].pairs
                         kb == [j \in 1..Len(ps) |-> IF BigUFits(ps[j][1], r.w) THEN BigUBits(ps[j][1], r.w) ELSE <<>>] IN
                     Clause("pairs_exact_" \o r.parsed[p].via,
                            /\ \A j \in 1..Len(ps) : BigUFits(ps[j][1], r.w)
                            /\ {[k |-> kb[j], v |-> BitsOf(ps[j][2])] : j \in 1..Len(ps)} = PairSet(mp)
                            /\ Len(ps) = Cardinality(DOMAIN mp))
                     \cup Clause("ascending_" \o r.parsed[p].via, \A j \in 1..(Len(ps) - 1) :
                                      Len(kb[j]) = r.w /\ Len(kb[j + 1]) = r.w /\ BitsLess(kb[j], kb[j + 1]))
                : p \in 1..Len(r.parsed)}

FailedC10(r) ==
    CASE r.op = "kinds" -> Clause("kind_ok", \A j \in 1..Len(r.rows) : r.rows[j][3] = RefKind(r.rows[j][1], r.m, r.rows[j][2] = 1))
      [] r.op = "dict" ->
            IF Has(r.out, "err") \/ r.items = <<>> \/ Has(r.out, "none") THEN {}
            ELSE LET heap == HeapOf(r.out.cell)  mp == MapOf(r) IN
                 Clause("cell_structure_canonical", TreeOf(heap, r.out.root) = Edge(mp, r.w))
            \cup Clause("root_hash_ok", Has(r, "hash") => r.hash = C!TopHash(heap, C!InfoAll(heap), r.out.root))
            \* the cell whose structure is compared is the first serialisation; every other serialisation of the same map (other
            \* insertion orders, the same object serialised again after edits) must be that very tree
            \cup Clause("every_serialisation_is_the_canonical_tree", \A j \in 1..Len(r.hashes) : r.hashes[j] = r.hashes[1])
      [] r.op = "aug_e_holder_pruned" -> Clause("pruned_holder_reported_as_a_dictionary", r.out.kind # "dictionary")
      [] r.op = "hmcall" -> {}
      [] r.op = "parse_tree" ->
            LET heap == HeapOf(r.cell)
                sp == ParseHeap(heap, r.root, r.w, <<>>, r.xw) IN
            IF ~sp.ok THEN {"MACHINERY_tree_not_valid"}
            ELSE IF Has(r.out, "err") THEN {"parser_raised_on_valid_tree_" \o r.pol}
            ELSE LET ps == r.out.pairs
                     kb == [j \in 1..Len(ps) |-> IF BigUFits(ps[j][1], r.w) THEN BigUBits(ps[j][1], r.w) ELSE <<>>] IN
                 Clause("leaves_exact",
                        /\ \A j \in 1..Len(ps) : BigUFits(ps[j][1], r.w)
                        /\ {[k |-> kb[j], v |-> BitsOf(ps[j][2])] : j \in 1..Len(ps)} = {[k |-> l.k, v |-> l.v] : l \in sp.leaves}
                        /\ Len(ps) = Cardinality(sp.leaves))
            \cup Clause("aug_extras_ok", r.xw > 0 =>
                        /\ Len(r.out.extras) = Cardinality(sp.leaves) + Cardinality(sp.forks)
                        /\ {BitsOf(r.out.extras[j]) : j \in 1..Len(r.out.extras)} = {l.x : l \in sp.leaves} \cup {f.x : f \in sp.forks})
=============================================================================
