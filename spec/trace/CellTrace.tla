------------------------------ MODULE CellTrace ------------------------------
(* Clauses for C01 (ordinary cells) and C02 (exotic cells) over records that *)
(* describe one DAG as built/parsed by the library.                          *)
(* record: [i, op, route, cells: Seq([t,n,y,r, + observations]), pairs, twins] *)
(*   observations per cell: hash, lh (4 per-level hashes), ld (4 depths),    *)
(*   mask, repr ([ok |-> bytes] or [err |-> name])                           *)
(*   or, when construction raised: record field err and no observations      *)
EXTENDS TraceKit, TonBits, TonSha
C == INSTANCE TonCell WITH Hash <- Sha256, HLen <- 32, MaxBits <- 1023, MaxRefs <- 4, MaxDepth <- 1023

Heap(r) == [k \in 1..Len(r.cells) |-> [t |-> r.cells[k].t, n |-> r.cells[k].n, y |-> r.cells[k].y, r |-> r.cells[k].r]]
\* validity of the whole intended heap; infos are only computed for valid prefixes
RECURSIVE ValidUpTo(_, _, _)
ValidUpTo(heap, info, k) ==
    IF k > Len(heap) THEN TRUE
    ELSE IF ~C!ValidCell(heap[k], heap, info) THEN FALSE
    ELSE ValidUpTo(heap, Append(info, C!Compute(heap[k], heap, info)), k + 1)
AllValid(heap) == ValidUpTo(heap, <<>>, 1)

Built(r) == ~Has(r, "err")
All(r, P(_, _)) == \A k \in 1..Len(r.cells) : P(k, r.cells[k])

FailedC01(r) ==
    LET heap == Heap(r) IN
    IF ~Built(r)
    THEN Clause("constructible", ~AllValid(heap))
    ELSE LET info == C!InfoAll(heap) IN
         Clause("hash_ok",  All(r, LAMBDA k, o : o.hash = C!TopHash(heap, info, k)))
    \cup Clause("levels_flat", All(r, LAMBDA k, o : info[k].mask = 0 =>
                                   \A l \in 1..4 : o.lh[l] = C!TopHash(heap, info, k) /\ o.ld[l] = info[k].ds[1]))
    \cup Clause("depth_ok", All(r, LAMBDA k, o : o.ld[1] = C!DepthAt(heap, info, k, 0)))
    \cup Clause("mask_zero", All(r, LAMBDA k, o : o.mask = info[k].mask))
    \cup Clause("repr_agrees", All(r, LAMBDA k, o : Has(o.repr, "ok") /\ o.repr.ok = C!TopHash(heap, info, k)))
    \* the pre-image itself, as the library exposes it: two descriptor bytes, data padded with the completion tag, the children's
    \* depths, the children's hashes - and its pieces through their own accessors
    \cup Clause("representation_bytes_ok", All(r, LAMBDA k, o : Has(o, "reprb") =>
                    /\ o.reprb = C!Repr0(heap, info, k)
                    /\ o.desc = <<C!D1(heap[k], 0), C!D2(heap[k])>>
                    /\ o.databytes = C!Data(heap[k])))
    \* cells obtained by converting ONE slice state in several ways (to_cell, to_builder().end_cell(), store_slice) are one cell
    \cup Clause("conversions_of_one_slice_agree", Has(r, "agree") => \A g \in 1..Len(r.agree) : \A a, b \in 1..Len(r.agree[g]) :
                    r.cells[r.agree[g][a]].hash = r.cells[r.agree[g][b]].hash)
    \cup Clause("eq_iff_hash", \A p \in 1..Len(r.pairs) :
                    LET q == r.pairs[p] IN (q[3] = 1) <=> (C!TopHash(heap, info, q[1]) = C!TopHash(heap, info, q[2])))
    \cup Clause("dictkey_iff_hash", \A p \in 1..Len(r.pairs) :
                    LET q == r.pairs[p] IN (q[4] = 1) <=> (C!TopHash(heap, info, q[1]) = C!TopHash(heap, info, q[2])))

FailedC02(r) ==
    LET heap == Heap(r) IN
    IF ~Built(r)
    THEN Clause("constructible", ~AllValid(heap))
    ELSE LET info == C!InfoAll(heap) IN
         Clause("mask_ok",    All(r, LAMBDA k, o : o.mask = info[k].mask))
    \cup Clause("hash_l_ok",  All(r, LAMBDA k, o : \A l \in 0..3 : o.lh[l + 1] = C!HashAt(heap, info, k, l)))
    \cup Clause("depth_l_ok", All(r, LAMBDA k, o : \A l \in 0..3 : o.ld[l + 1] = C!DepthAt(heap, info, k, l)))
    \cup Clause("top_hash_ok", All(r, LAMBDA k, o : o.hash = C!TopHash(heap, info, k)))
    \cup Clause("pruning_invariant", \A p \in 1..Len(r.twins) :
                    LET q == r.twins[p] IN r.cells[q[1]].lh[1] = r.cells[q[2]].lh[1] /\ r.cells[q[1]].ld[1] = r.cells[q[2]].ld[1])
    \cup Clause("eq_iff_hash", \A p \in 1..Len(r.pairs) :
                    LET q == r.pairs[p] IN (q[3] = 1) <=> (C!TopHash(heap, info, q[1]) = C!TopHash(heap, info, q[2])))
=============================================================================
