------------------------------ MODULE C07Trace ------------------------------
EXTENDS TraceKit
VARIABLES objs, obs
\* C07 keeps the "guard" clauses of the Bag machine (refusals of valid calls are reported for C06 and C07 alike)
T == INSTANCE BagTrace WITH KeepClasses <- {"guard"}
TInit == T!BInit
TNext == T!BNext
=============================================================================
