------------------------------ MODULE C19Trace ------------------------------
(* C19: work (interpreter line events inside the library) is bounded by a    *)
(* low-degree polynomial of the input size and never by a count field.       *)
EXTENDS TraceKit
K == 50
K0 == 2000
\* size = distinct cells + references + input bytes; capped so that 32-bit arithmetic is exact
WorkBound(size) == IF size > 6000 THEN 1800002000 ELSE K * size * size + K0
\* record: [kind, n, e, len (input bytes), work, aborted (1 if the tracer stopped the call at the budget), budget]
\*         optional outn: entries of the result the call has to produce (a dictionary whose forks share children denotes one entry per
\*         root-to-leaf path: producing them is work the input size does not bound, so it is counted with the input)
Failed(r) ==
    LET b == WorkBound(r.n + r.e + r.len + (IF Has(r, "outn") THEN r.outn ELSE 0)) IN
    Clause("MACHINERY_budget_differs_from_spec_bound", r.budget = b)
    \cup Clause("work_within_bound_" \o r.kind, r.work <= b /\ r.aborted = 0)
    \* parsers of byte strings: peak allocation (KiB) is bounded by the input length, not by a count field read from it
    \cup Clause("memory_within_bound_" \o r.kind, Has(r, "peakkb") => r.peakkb <= 1024 + 8 * r.len)
TInit == KitInit
TNext == KitNext(Failed)
=============================================================================
