------------------------------ MODULE C11Trace ------------------------------
(* C11: Merkle proof checks accept exactly what the specification accepts.   *)
EXTENDS TraceKit, TonBits, TonSha, TonHashmap
C == INSTANCE TonCell WITH Hash <- Sha256, HLen <- 32, MaxBits <- 1023, MaxRefs <- 4, MaxDepth <- 1023
P == INSTANCE TonProof WITH Hash <- Sha256, HLen <- 32

HeapOf(cells) == [k \in 1..Len(cells) |-> [t |-> cells[k].t, n |-> cells[k].n, y |-> cells[k].y, r |-> cells[k].r]]
Verdict(r, specAccepts) ==
    LET libAccepts == Has(r.out, "ok") IN
    (IF libAccepts /\ ~specAccepts THEN {"accepted_" \o r.label} ELSE {})
    \cup (IF ~libAccepts /\ specAccepts THEN {"rejected_" \o r.label} ELSE {})
    \cup (IF r.genuine = 1 /\ ~specAccepts THEN {"MACHINERY_genuine_case_not_accepted_by_spec"} ELSE {})
    \cup (IF r.genuine = 0 /\ specAccepts THEN {"MACHINERY_forged_case_accepted_by_spec"} ELSE {})

\* a leaf of ShardAccounts is  extra:DepthBalanceInfo value:ShardAccount  =
\*   split_depth:(#<= 30) balance:(grams:(VarUInteger 16) other:(HashmapE 32 ..))  account:^Account last_trans_hash last_trans_lt
\* the account is the reference AFTER the one the extra's currency dictionary takes when it is non-empty (0 = malformed leaf)
AccountRefIdx(v) ==
    IF Len(v) < 9 THEN 0
    ELSE LET L == BitsNat(SubSeq(v, 6, 9)) IN
         IF Len(v) < 10 + 8 * L THEN 0 ELSE 1 + v[10 + 8 * L]
\* account proof: two roots (block proof, state proof), block id root hash, account id, claimed account cell
AccountAccepts(r) ==
    LET heap == HeapOf(r.cells)
        info == C!InfoAll(heap)
        b == r.roots[1]  s == r.roots[2]
    IN /\ Len(r.roots) = 2
       /\ heap[b].t = C!MPROOF /\ heap[s].t = C!MPROOF
       /\ LET blk == heap[b].r[1]  st == heap[s].r[1] IN
          /\ P!CheckBlockHeaderState(heap, info, blk, r.blockhash)
          /\ Len(heap[blk].r) >= 3 /\ Len(heap[heap[blk].r[3]].r) = 2
          /\ C!HashAt(heap, info, st, 0) = P!StateHashOf(heap, info, blk)
          /\ heap[st].t = C!ORD /\ Len(heap[st].r) >= 2
          /\ LET acc == heap[heap[st].r[2]]            \* ^ShardAccounts = HashmapAugE 256
                 ab == BitsOf([n |-> acc.n, y |-> acc.y]) IN
             /\ acc.t = C!ORD /\ Len(ab) >= 1 /\ ab[1] = 1 /\ Len(acc.r) = 1
             /\ LET d == ParseHeap(heap, acc.r[1], 256, <<>>, 0)
                    key == BytesToBits(r.account) IN
                /\ d.ok
                /\ \E l \in d.leaves : l.k = key /\ AccountRefIdx(l.v) > 0 /\ Len(l.r) >= AccountRefIdx(l.v) /\
                      LET ah == HeapOf(r.claimed.cells) IN
                      P!AccountCellOk(heap, info, l.r[AccountRefIdx(l.v)], ah, C!InfoAll(ah), r.claimed.root)

Failed(r) ==
    CASE r.op = "proof" ->
            LET heap == HeapOf(r.cells) IN Verdict(r, P!CheckProof(heap, C!InfoAll(heap), r.proof, r.want))
      [] r.op = "header" ->
            LET heap == HeapOf(r.cells)  info == C!InfoAll(heap)
                ok == IF Has(r, "store") /\ r.store = 1 THEN P!CheckBlockHeaderState(heap, info, r.root, r.want)
                      ELSE P!CheckBlockHeader(heap, info, r.root, r.want) IN
            Verdict(r, ok)
            \cup Clause("state_hash_extracted_ok", (ok /\ Has(r.out, "ok") /\ Has(r.out, "state")) => r.out.state = P!StateHashOf(heap, info, r.root))
      [] r.op = "account" -> Verdict(r, AccountAccepts(r))
TInit == KitInit
TNext == KitNext(Failed)
=============================================================================
