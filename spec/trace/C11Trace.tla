------------------------------ MODULE C11Trace ------------------------------
(* C11: Merkle proof checks accept exactly what the specification accepts.   *)
EXTENDS TraceKit, TonBits, TonSha, TonHashmap
C == INSTANCE TonCell WITH Hash <- Sha256, HLen <- 32, MaxBits <- 1023, MaxRefs <- 4, MaxDepth <- 1023
P == INSTANCE TonProof WITH Hash <- Sha256, HLen <- 32

HeapOf(cells) == [k \in 1..Len(cells) |-> [t |-> cells[k].t, n |-> cells[k].n, y |-> cells[k].y, r |-> cells[k].r]]
Verdict(r, specAccepts) ==
    LET libAccepts == Has(r.out, "ok") IN
    (IF libAccepts /\ ~specAccepts THEN {"accepted_" \o r.label} ELSE {})
    \cup (IF ~libAccepts /\ specAccepts THEN {"rejected_" \o r.label} ELSE {})
    \cup (IF r.genuine = 1 /\ ~specAccepts THEN {"MACHINERY_genuine_case_not_accepted_by_spec"} ELSE {})
    \cup (IF r.genuine = 0 /\ specAccepts THEN {"MACHINERY_forged_case_accepted_by_spec"} ELSE {})

\* a leaf of ShardAccounts is  extra:DepthBalanceInfo value:ShardAccount  =
\*   split_depth:(#<= 30) balance:(grams:(VarUInteger 16) other:(HashmapE 32 ..))  account:^Account last_trans_hash last_trans_lt
\* the account is the reference AFTER the one the extra's currency dictionary takes when it is non-empty (0 = malformed leaf)
AccountRefIdx(v) ==
    IF Len(v) < 9 THEN 0
    ELSE LET L == BitsNat(SubSeq(v, 6, 9)) IN
         IF Len(v) < 10 + 8 * L THEN 0 ELSE 1 + v[10 + 8 * L]
\* account proof: two roots (block proof, state proof), block id root hash, account id, claimed account cell
AccountAccepts(r) ==
    LET heap == HeapOf(r.cells)
        info == C!InfoAll(heap)
        b == r.roots[1]  s == r.roots[2]
    IN /\ Len(r.roots) = 2
       /\ heap[b].t = C!MPROOF /\ heap[s].t = C!MPROOF
       /\ LET blk == heap[b].r[1]  st == heap[s].r[1] IN
          /\ P!CheckBlockHeaderState(heap, info, blk, r.blockhash)
          /\ Len(heap[blk].r) >= 3 /\ Len(heap[heap[blk].r[3]].r) = 2
          /\ C!HashAt(heap, info, st, 0) = P!StateHashOf(heap, info, blk)
          /\ heap[st].t = C!ORD /\ Len(heap[st].r) >= 2
          /\ LET acc == heap[heap[st].r[2]]            \* ^ShardAccounts = HashmapAugE 256
                 ab == BitsOf([n |-> acc.n, y |-> acc.y]) IN
             /\ acc.t = C!ORD /\ Len(ab) >= 1 /\ ab[1] = 1 /\ Len(acc.r) = 1
             /\ LET d == ParseHeap(heap, acc.r[1], 256, <<>>, 0)
                    key == BytesToBits(r.account) IN
                /\ d.ok
                /\ \E l \in d.leaves : l.k = key /\ AccountRefIdx(l.v) > 0 /\ Len(l.r) >= AccountRefIdx(l.v) /\
                      LET ah == HeapOf(r.claimed.cells) IN
                      P!AccountCellOk(heap, info, l.r[AccountRefIdx(l.v)], ah, C!InfoAll(ah), r.claimed.root)

\* shard proof: two roots (masterchain block proof, masterchain state proof), the masterchain block id, the shard block id.
\* Read by position, as block.tlb lays them out:
\*   block#11ef55aa global_id:int32 info:^BlockInfo ...;  block_info#9bc7a987 version:uint32 (8 one-bit fields) flags:(## 8)
\*   seq_no:# vert_seq_no:# shard:ShardIdent(shard_ident$00 shard_pfx_bits:(#<= 60) workchain_id:int32 ...)
\*   shard_state#9023afe2 ... custom:(Maybe ^McStateExtra) (the last reference when the last bit is 1)
\*   masterchain_state_extra#cc26 shard_hashes:(HashmapE 32 ^(BinTree ShardDescr)) ...
\*   bt_leaf$0 / bt_fork$1 ^ ^ ;  shard_descr#b|#a seq_no:uint32 reg_mc_seqno:uint32 start_lt:uint64 end_lt:uint64 root_hash:bits256 ...
CellBits(c) == BitsOf([n |-> c.n, y |-> c.y])
RECURSIVE BtLeaves(_, _)
BtLeaves(heap, id) ==
    LET c == heap[id]  b == CellBits(c) IN
    IF c.t # C!ORD \/ Len(b) < 1 THEN {}
    ELSE IF b[1] = 0 THEN {b}
    ELSE IF Len(c.r) # 2 THEN {}
    ELSE BtLeaves(heap, c.r[1]) \cup BtLeaves(heap, c.r[2])
ShardAccepts(r) ==
    IF r.same = 1 THEN TRUE
    ELSE
    LET heap == HeapOf(r.cells)
        info == C!InfoAll(heap)
    IN /\ r.blk.wc = -1
       /\ Len(r.roots) = 2
       /\ Len(heap[r.roots[1]].r) >= 1 /\ Len(heap[r.roots[2]].r) >= 1
       /\ LET blk == heap[r.roots[1]].r[1]  st == heap[r.roots[2]].r[1] IN
          /\ heap[blk].t = C!ORD /\ Len(heap[blk].r) >= 3
          /\ LET bi == heap[heap[blk].r[1]]  ib == CellBits(bi) IN
             /\ bi.t = C!ORD /\ Len(ib) >= 184
             /\ BitsToBytes(SubSeq(ib, 81, 112)) = r.blk.seqno4
             /\ BitsToBytes(SubSeq(ib, 153, 184)) = r.blk.wc4
          /\ P!CheckBlockHeaderState(heap, info, blk, r.blk.root)
          /\ C!HashAt(heap, info, st, 0) = P!StateHashOf(heap, info, blk)
          /\ heap[st].t = C!ORD /\ Len(heap[st].r) = 4 /\ heap[st].n >= 1 /\ CellBits(heap[st])[heap[st].n] = 1
          /\ LET ex == heap[heap[st].r[4]]  eb == CellBits(ex) IN
             /\ ex.t = C!ORD /\ Len(eb) >= 17 /\ BitsToBytes(SubSeq(eb, 1, 16)) = <<204, 38>> /\ eb[17] = 1 /\ Len(ex.r) >= 1
             /\ LET d == ParseHeap(heap, ex.r[1], 32, <<>>, 0) IN
                /\ d.ok
                /\ \E l \in d.leaves : /\ l.k = BytesToBits(r.shrd.wc4) /\ Len(l.r) >= 1
                                        /\ \E b \in BtLeaves(heap, l.r[1]) : Len(b) >= 453 /\ BitsToBytes(SubSeq(b, 198, 453)) = r.shrd.root

Failed(r) ==
    CASE r.op = "proof" ->
            LET heap == HeapOf(r.cells) IN Verdict(r, P!CheckProof(heap, C!InfoAll(heap), r.proof, r.want))
      [] r.op = "header" ->
            LET heap == HeapOf(r.cells)  info == C!InfoAll(heap)
                ok == IF Has(r, "store") /\ r.store = 1 THEN P!CheckBlockHeaderState(heap, info, r.root, r.want)
                      ELSE P!CheckBlockHeader(heap, info, r.root, r.want) IN
            Verdict(r, ok)
            \cup Clause("state_hash_extracted_ok", (ok /\ Has(r.out, "ok") /\ Has(r.out, "state")) => r.out.state = P!StateHashOf(heap, info, r.root))
      [] r.op = "account" -> Verdict(r, AccountAccepts(r))
      [] r.op = "shard" -> Verdict(r, ShardAccepts(r))
TInit == KitInit
TNext == KitNext(Failed)
=============================================================================
