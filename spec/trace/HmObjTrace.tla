----------------------------- MODULE HmObjTrace -----------------------------
(* Trace validation of recorded HashMap object histories against TonHmObj.   *)
(* record: [op = "hmcall", call, out = [res] | [err], post = seq of          *)
(*          [o, w, st, pairs = seq of <<key, value>> (small integers)]]      *)
(*   res of "ser": [none] or [cell (heap), root, hash]; of "parse": [pairs]  *)
(* The spec state is re-synchronised from every record's post-state, so one  *)
(* deviation never hides the rest of the history.                            *)
EXTENDS TraceKit, TonHashmap, TonSha
H == INSTANCE TonHmObj WITH VW <- 8
C == INSTANCE TonCell WITH Hash <- Sha256, HLen <- 32, MaxBits <- 1023, MaxRefs <- 4, MaxDepth <- 1023

VARIABLE hs
Empty == H!St([i \in {} |-> 0], [i \in {} |-> 0])
HeapOf(cells) == [k \in 1..Len(cells) |-> [t |-> cells[k].t, n |-> cells[k].n, y |-> cells[k].y, r |-> cells[k].r]]
PostState(r) ==
    LET P == r.post
        os == {P[j].o : j \in 1..Len(P)}
        ss == {P[j].st : j \in 1..Len(P)}
        rec(o) == P[CHOOSE j \in 1..Len(P) : P[j].o = o]
        ofst(st) == P[CHOOSE j \in 1..Len(P) : P[j].st = st]
        mapof(p) == [k \in {NatBits(p.pairs[j][1], p.w) : j \in 1..Len(p.pairs)} |->
                        H!Entry(p.pairs[CHOOSE j \in 1..Len(p.pairs) : NatBits(p.pairs[j][1], p.w) = k][2])]
    IN H!St([st \in ss |-> mapof(ofst(st))], [o \in os |-> [w |-> rec(o).w, st |-> rec(o).st]])
PairsSeen(ps, w) == {[k |-> NatBits(ps[j][1], w), v |-> NatBits(ps[j][2], 8)] : j \in 1..Len(ps)}

FailedHm(s, r) ==
    LET c == r.call
        e == H!Do(s, c)
        post == PostState(r)
        okobs == ~Has(r.out, "err")
        \* every store must be seen alike through every object that stands over it (an observation, checked on the record itself)
        alias == \A i, j \in 1..Len(r.post) : r.post[i].st = r.post[j].st => r.post[i].pairs = r.post[j].pairs
    IN Clause("objects_over_one_dictionary_disagree", alias) \cup
    IF e.ok = "no" THEN Clause("invalid_key_accepted", ~okobs) \cup Clause("state_changed_by_refused_call", post = s)
    ELSE IF ~okobs THEN {"call_refused_" \o c.op}
    ELSE Clause("state_after_call", post = e.s)
    \cup (IF c.op = "ser" THEN
              IF Has(e.res, "none") THEN Clause("empty_is_none", Has(r.out.res, "none"))
              ELSE IF Has(r.out.res, "none") THEN {"nonempty_is_none"}
              ELSE LET heap == HeapOf(r.out.res.cell) IN
                   Clause("serialisation_is_the_canonical_tree_of_the_current_map", TreeOf(heap, r.out.res.root) = e.res.tree)
                   \cup Clause("root_hash_ok", r.out.res.hash = C!TopHash(heap, C!InfoAll(heap), r.out.res.root))
          ELSE IF c.op = "parse" THEN
              LET w == s.objs[c.o].w  ps == r.out.res.pairs IN
              Clause("parse_returns_the_current_map", PairsSeen(ps, w) = e.res.pairs /\ Len(ps) = Cardinality(e.res.pairs)
                                                      /\ \A j \in 1..Len(ps) : ps[j][3] = 8)
              \cup Clause("ascending", \A j \in 1..(Len(ps) - 1) : ps[j][1] < ps[j + 1][1])
          ELSE {})

TInit == KitInit /\ hs = Empty
TNext ==
    /\ pos <= Len(Trace)
    /\ LET r == Trace[pos] IN
       IF r.op = "reset" THEN hs' = Empty /\ UNCHANGED verdicts
       ELSE LET v == FailedHm(hs, r) IN
            /\ verdicts' = IF v = {} THEN verdicts ELSE Append(verdicts, [i |-> r.i, failed |-> SetToSeq(v)])
            /\ hs' = PostState(r)
    /\ pos' = pos + 1
=============================================================================
