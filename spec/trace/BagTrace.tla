------------------------------ MODULE BagTrace ------------------------------
(* Trace validation of recorded Builder/Slice/Cell histories against TonBag. *)
(* Every record is one public call with its outcome and the full projected   *)
(* state of every live object after the call.  The spec state is always      *)
(* re-synchronised to the observed state, so one deviation never hides the   *)
(* rest of the behaviour; every deviation is reported with its clause.       *)
(* Clause classes: "value" (C06), "guard" (C07), "frame" (C08).              *)
EXTENDS TraceKit, TonBits
CONSTANT KeepClasses
B == INSTANCE TonBag WITH MaxBits <- 1023, MaxRefs <- 4, MaxDepth <- 1023

VARIABLES objs, obs
Empty == [i \in {} |-> 0]

\* observed pool after the call
PostObjs(r) == LET P == r.post  D == {P[j].id : j \in 1..Len(P)} IN
    [i \in D |-> LET p == P[CHOOSE j \in 1..Len(P) : P[j].id = i]
                 IN [k |-> p.k, t |-> p.t, b |-> BitsOf([n |-> p.n, y |-> p.y]), r |-> p.r, d |-> p.d]]
PostObs(r) == LET P == r.post  D == {P[j].id : j \in {jj \in 1..Len(P) : P[jj].k = "cell"}} IN
    [i \in D |-> LET p == P[CHOOSE j \in 1..Len(P) : P[j].id = i] IN [h |-> p.h, s |-> p.s]]

Fix(c) == IF c.op = "forget" THEN [c EXCEPT !.ids = {c.ids[j] : j \in 1..Len(c.ids)}] ELSE c
Refused == {<<"guard", "refused_although_valid">>, <<"refuse", "refused_although_valid">>}
Mk(class, name, holds) == IF holds THEN {} ELSE {<<class, name>>}

\* reachable cells and content-canonical representative (for Cell.order results)
RECURSIVE Reach(_, _)
Reach(o, id) == {id} \cup UNION {Reach(o, o[id].r[j]) : j \in 1..Len(o[id].r)}
RECURSIVE Unf(_, _)
Unf(o, id) == [t |-> o[id].t, b |-> o[id].b, r |-> [j \in 1..Len(o[id].r) |-> Unf(o, o[id].r[j])]]

SnakeStoreOk(o, post, c) ==
    LET old == o[c.obj]  new == post[c.obj]
        avail == (1023 - Len(old.b)) \div 8
        data == c.bytes
    IN IF Len(data) <= avail THEN new = [old EXCEPT !.b = @ \o BytesToBits(data)]
       ELSE /\ Len(new.r) = Len(old.r) + 1 /\ SubSeq(new.r, 1, Len(old.r)) = old.r
            /\ Len(new.b) >= Len(old.b) /\ SubSeq(new.b, 1, Len(old.b)) = old.b
            /\ (Len(new.b) - Len(old.b)) % 8 = 0
            /\ LET k == (Len(new.b) - Len(old.b)) \div 8
                   h == new.r[Len(new.r)]
                   s == B!SnakeOf(post, h)
               IN /\ k <= Len(data) /\ new.b = old.b \o BytesToBits(SubSeq(data, 1, k))
                  /\ h \notin DOMAIN o
                  /\ s.ok = "yes" /\ s.bytes = SubSeq(data, k + 1, Len(data))

FailedBag(o, ob, r) ==
    LET c     == Fix(r.call)
        post  == PostObjs(r)
        pobs  == PostObs(r)
        okobs == ~Has(r.out, "err")
        tgt   == IF Has(c, "obj") /\ c.obj \in DOMAIN o /\ o[c.obj].k # "cell" THEN {c.obj} ELSE {}
        gone  == IF c.op = "forget" THEN c.ids ELSE {}
        keepf == \A i \in (DOMAIN o) \ (tgt \cup gone) : i \in DOMAIN post /\ post[i] = o[i]
        cellsame == \A i \in DOMAIN o : (o[i].k = "cell" /\ i \notin gone) =>
                        i \in DOMAIN post /\ post[i] = o[i] /\ pobs[i] = ob[i]
        always == Mk("frame", "cell_mutated", cellsame)
                  \cup Mk("guard", "capacity_exceeded", B!Capacity(post))
                  \cup Mk("frame", "argument_mutated", Has(r, "argafter") => r.argafter = c.bits)
                  \* hash and serialisation of a cell equal those of the same value rebuilt from fresh objects
                  \cup Mk("frame", "result_depends_on_history",
                          \A j \in 1..Len(r.post) : r.post[j].k = "cell" => (r.post[j].h = r.post[j].fh /\ r.post[j].s = r.post[j].fs))
                  \* a parser run twice over the same cell returns the same (parse_as records carry both views)
                  \cup Mk("frame", "result_depends_on_history",
                          (Has(r.out, "res") /\ Has(r.out.res, "first")) => r.out.res.first = r.out.res.second)
                  \* what builders and slices report about their room is what their content implies
                  \* (used / available bits, whole bytes and references; remaining bits and references)
                  \cup (LET roomok == \A j \in 1..Len(r.post) :
                                LET p == r.post[j] IN
                                Has(p, "room") =>
                                   IF p.k = "builder" THEN p.room = <<p.n, 1023 - p.n, (1023 - p.n) \div 8, 4 - Len(p.r)>>
                                   ELSE p.room = <<p.n, Len(p.r)>>
                       IN Mk("value", "room_report_wrong", roomok) \cup Mk("guard", "room_report_wrong", roomok))
                  \* every live object must stay observable (hash, to_boc, bits, refs) after every call
                  \cup (IF Has(r, "broken") THEN {<<"value", "live_object_unobservable">>, <<"guard", "live_object_unobservable">>,
                                                   <<"frame", "live_object_unobservable">>} ELSE {})
    IN always \cup
    IF c.op = "store_snake_bytes"
    THEN LET old == o[c.obj]
             fits == Len(c.bytes) <= (1023 - Len(old.b)) \div 8
         IN IF ~fits /\ Len(old.r) >= 4
            THEN Mk("guard", "accepted_although_overflow_refs", ~okobs) \cup Mk("frame", "frame_broken_on_error", keepf)
            ELSE IF ~okobs THEN Refused
            ELSE Mk("value", "snake_encoding_wrong", SnakeStoreOk(o, post, c)) \cup Mk("frame", "frame_broken", keepf)
    ELSE IF c.op = "order"
    THEN IF ~okobs THEN {<<"frame", "order_raised">>}
         ELSE Mk("frame", "result_depends_on_history",
                 /\ \A j \in 1..Len(r.out.res.ids) : r.out.res.ids[j] \in DOMAIN o
                 /\ {Unf(o, r.out.res.ids[j]) : j \in 1..Len(r.out.res.ids)} = {Unf(o, i) : i \in Reach(o, c.obj)}
                 /\ Len(r.out.res.ids) = Cardinality({Unf(o, i) : i \in Reach(o, c.obj)}))
              \cup Mk("frame", "frame_broken", post = o)
    ELSE LET e == B!Do(o, c) IN
    IF e.ok = "any" THEN Mk("frame", "frame_broken", keepf)
    ELSE IF e.ok = "no"
    THEN Mk("guard", "accepted_although_" \o e.why, ~okobs) \cup Mk("frame", "frame_broken_on_error", keepf)
    ELSE IF ~okobs THEN (IF e.ok = "maybe" THEN {} ELSE Refused) \cup Mk("frame", "frame_broken_on_error", keepf)
    ELSE Mk("value", "result_wrong", r.out.res = e.res)
         \cup Mk("value", "state_wrong", \A i \in tgt \cup (IF Has(c, "new") THEN {c.new} ELSE {}) :
                                              i \in DOMAIN post /\ post[i] = e.objs[i])
         \cup Mk("frame", "frame_broken", DOMAIN post = DOMAIN e.objs /\ \A i \in (DOMAIN e.objs) \ tgt : post[i] = e.objs[i])

Names(v) == {x[2] : x \in {y \in v : y[1] \in KeepClasses}}

BInit == KitInit /\ objs = Empty /\ obs = Empty
BNext ==
    /\ pos <= Len(Trace)
    /\ LET r == Trace[pos] IN
       IF r.op = "reset"
       THEN objs' = Empty /\ obs' = Empty /\ UNCHANGED verdicts
       ELSE LET v == Names(FailedBag(objs, obs, r)) IN
            /\ verdicts' = IF v = {} THEN verdicts ELSE Append(verdicts, [i |-> r.i, failed |-> SetToSeq(v)])
            /\ objs' = PostObjs(r) /\ obs' = PostObs(r)
    /\ pos' = pos + 1
=============================================================================
