------------------------------ MODULE BocTrace ------------------------------
(* Clauses for C03 (round trip), C04 (emitted bytes conform) and C05         *)
(* (parser vs. format on foreign and corrupted input).                       *)
EXTENDS TraceKit, TonBoc

HeapOf(cells) == [k \in 1..Len(cells) |-> [t |-> cells[k].t, n |-> cells[k].n, y |-> cells[k].y, r |-> cells[k].r]]
Hint(r) == IF Has(r, "offs") THEN r.offs ELSE <<>>

\* ---- C04: record [op = "emit", opts [idx,crc,cache], src (heap), root, boc (bytes), map (src cell -> decoded heap cell)]
FailedC04(r) ==
    LET d == DecodeWith(r.boc, Hint(r), FALSE) IN
    IF ~d.ok THEN {"strict_" \o d.why}
    ELSE LET src == HeapOf(r.src) IN
         Clause("flags_match_options", d.hdr.gen /\ d.hdr.hasidx = (r.opts.idx = 1) /\ d.hdr.hascrc = (r.opts.crc = 1)
                                       /\ d.hdr.hascache = (r.opts.cache = 1))
    \cup Clause("single_root_first", d.hdr.roots = 1)
    \cup Clause("decodes_to_same_dag", IsoVia(src, d.heap, r.map) /\ Onto(r.map, Len(d.heap)) /\ r.map[r.root] = d.roots[1])
    \cup Clause("no_stored_hashes", d.withhashes = {})
    \* small bags: what was emitted hashes (by the specification's own SHA-256, from the DECODED content) to the hash the root cell reports
    \cup Clause("emitted_bag_is_not_the_cell_that_was_hashed",
                 Has(r, "rhash") => r.rhash = C!TopHash(d.heap, C!InfoAll(d.heap), d.roots[1]))

\* ---- C03: record [op = "roundtrip", src, root, parsed (heap), proot, map (parsed cell -> src cell), rhash_eq] or [err]
FailedC03(r) ==
    IF Has(r, "err") THEN {"parse_ok"}
    ELSE Clause("iso", IsoVia(HeapOf(r.parsed), HeapOf(r.src), r.map) /\ r.map[r.proot] = r.root)
    \cup Clause("root_hash_equal", r.rhash_eq = 1)
    \cup Clause("one_root", r.nroots = 1)

\* ---- C05: record [op = "parse", bytes, cls, out = [roots, cells (heap), map (parsed cell -> decoded heap cell)] | [err]]
\* cls names the input class: "valid" or a corruption class the property names
FailedC05(r) ==
    LET d == Decode(r.bytes) IN
    IF d.ok
    THEN IF Has(r.out, "err") THEN {"accepts_wellformed"}
         ELSE Clause("roots_exact",
                     /\ Len(r.out.roots) = Len(d.roots)
                     /\ IsoVia(HeapOf(r.out.cells), d.heap, r.out.map)
                     /\ \A j \in 1..Len(d.roots) : r.out.map[r.out.roots[j]] = d.roots[j])
         \* a second parse of the same bytes, after the caller emptied the list the first parse returned
         \cup (IF ~Has(r, "again") THEN {}
               ELSE IF Has(r.again, "err") THEN {"accepts_wellformed_every_time"}
               ELSE Clause("roots_exact_every_time",
                           /\ Len(r.again.roots) = Len(d.roots)
                           /\ IsoVia(HeapOf(r.again.cells), d.heap, r.again.map)
                           /\ \A j \in 1..Len(d.roots) : r.again.map[r.again.roots[j]] = d.roots[j]
                           /\ r.again.map[r.again.one] = d.roots[1]))
    ELSE Clause("rejects_" \o r.cls, Has(r.out, "err"))
\* the class label is not trusted: a record labelled valid must decode, a corrupted one must not
    \cup Clause("label_valid_but_spec_rejects_" \o (IF d.ok THEN "" ELSE d.why), r.cls = "valid" => d.ok)
=============================================================================
