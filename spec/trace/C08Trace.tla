------------------------------ MODULE C08Trace ------------------------------
EXTENDS TraceKit
VARIABLES objs, obs
\* C08 keeps the "frame" clauses of the Bag machine (refusals of valid calls are reported for C06 and C07 alike)
T == INSTANCE BagTrace WITH KeepClasses <- {"frame"}
TInit == T!BInit
TNext == T!BNext
=============================================================================
