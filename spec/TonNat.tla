------------------------------- MODULE TonNat -------------------------------
(* Natural numbers beyond TLC's 32-bit integers, for quantities such as      *)
(* 64-bit validator weights: a number is a vector of NL limbs in base LB,    *)
(* most significant first.  Sums and small multiples are taken limb-wise     *)
(* (limbs may temporarily exceed LB), Norm propagates the carries into       *)
(* NL + 2 canonical limbs, Less compares canonical vectors.  MC_Nat checks   *)
(* the operators against integer arithmetic on a tiny base.                  *)
EXTENDS Naturals, Sequences
CONSTANTS LB, NL
Zero == [i \in 1..NL |-> 0]
Add(a, b) == [i \in 1..NL |-> a[i] + b[i]]
Scale(a, k) == [i \in 1..NL |-> k * a[i]]
\* canonical form with two extra leading limbs (enough for sums of < LB terms scaled by < LB)
RECURSIVE NormFrom(_, _, _, _)
NormFrom(a, i, carry, acc) ==
    IF i = 0 THEN <<carry \div LB, carry % LB>> \o acc
    ELSE LET c == a[i] + carry IN NormFrom(a, i - 1, c \div LB, <<c % LB>> \o acc)
Norm(a) == NormFrom(a, NL, 0, <<>>)
RECURSIVE LexLess(_, _)
LexLess(x, y) == IF x = <<>> THEN FALSE ELSE IF x[1] # y[1] THEN x[1] < y[1] ELSE LexLess(Tail(x), Tail(y))
Less(a, b) == LexLess(Norm(a), Norm(b))                \* a < b for (possibly un-normalised) limb vectors
Leq(a, b) == ~Less(b, a)
\* a small integer as a limb vector (for the lemmas)
RECURSIVE OfNat(_, _)
OfNat(n, k) == IF k = 0 THEN <<>> ELSE OfNat(n \div LB, k - 1) \o <<n % LB>>
Of(n) == OfNat(n, NL)
=============================================================================
