------------------------------- MODULE TonBag -------------------------------
(* The Builder / Slice / Cell object-pool machine (C06, C07, C08).            *)
(*                                                                            *)
(* State: objs, a function from object ids (creation order numbers) to        *)
(*   [k |-> "cell" | "builder" | "slice", t |-> cell type (0 ordinary),       *)
(*    b |-> data bits (Seq of 0/1; for a slice: the REMAINING bits),          *)
(*    r |-> ids of referenced cells (for a slice: the remaining refs),        *)
(*    d |-> depth (cells only, 0 otherwise)]                                  *)
(* One action per public library call.  Do(objs, c) is the complete           *)
(* sequential meaning of call c:                                              *)
(*   [ok |-> "yes",  objs |-> successor pool, res |-> result]  the call must   *)
(*       succeed and this is exactly what it does (frame condition: every     *)
(*       other object unchanged is part of objs);                             *)
(*   [ok |-> "no", why |-> reason]  the call must raise an error;            *)
(*   [ok |-> "maybe", objs, res]  the call may be refused (argument form the   *)
(*       library need not support); if it is accepted this is what it does    *)
(*   [ok |-> "any"]  the properties are silent (peeks past the end, exotic    *)
(*       corner cases): nothing is demanded except the frame condition.       *)
(* Values: integers are TonBits big integers [neg, mag]; the limits are       *)
(* constants so the same module is model-checked with scaled-down limits.     *)
EXTENDS TonBits
CONSTANTS MaxBits, MaxRefs, MaxDepth

Obj(k, t, b, r, d) == [k |-> k, t |-> t, b |-> b, r |-> r, d |-> d]
Ids(objs) == DOMAIN objs
With(objs, id, o) == [i \in (DOMAIN objs) \cup {id} |-> IF i = id THEN o ELSE objs[i]]

Yes(objs2, res) == [ok |-> "yes", objs |-> objs2, res |-> res]
No(why) == [ok |-> "no", why |-> why]
Unspec == [ok |-> "any"]
\* "may be refused; if accepted, exactly this": a call the properties allow the library not to support
MaybeOf(e) == IF e.ok = "yes" THEN [e EXCEPT !.ok = "maybe"] ELSE e
Unit == [unit |-> 1]

IsBuilder(objs, id) == id \in DOMAIN objs /\ objs[id].k = "builder"
IsSlice(objs, id)   == id \in DOMAIN objs /\ objs[id].k = "slice"
IsCell(objs, id)    == id \in DOMAIN objs /\ objs[id].k = "cell"

\* a pruned branch (t = 1: 0x01, mask, one 32-byte hash and one 2-byte depth per significant level) is as deep as the deepest tree it
\* stands for - the limit holds at every level; other special cells are not derived inside the pool
PrunedDepth(b) ==
    LET y == BitsToBytes(b)
        m == IF Len(y) >= 2 THEN y[2] ELSE 0
        n == (m % 2) + ((m \div 2) % 2) + ((m \div 4) % 2)
    IN IF n = 0 \/ Len(y) < 2 + 34 * n THEN 0
       ELSE FoldLeft(Max2, 0, [j \in 1..n |-> 256 * y[2 + 32 * n + 2 * j - 1] + y[2 + 32 * n + 2 * j]])
DepthOver(objs, refs) == IF refs = <<>> THEN 0 ELSE 1 + FoldLeft(Max2, 0, [j \in 1..Len(refs) |-> objs[refs[j]].d])

\* ------------------------------------------------------------------ TL-B encodings
\* VarUInteger / VarInteger with an L-bit length field (n = 2^L): len bytes, minimal
VarUEnc(x, L) == NatBits(MinBytesU(x), L) \o BigUBits(x, 8 * MinBytesU(x))
VarSEnc(x, L) == NatBits(MinBytesS(x), L) \o BigSBits(x, 8 * MinBytesS(x))
VarUFits(x, L) == x.neg = 0 /\ MinBytesU(x) <= 2^L - 1
VarSFits(x, L) == MinBytesS(x) <= 2^L - 1

\* MsgAddress: a = [kind |-> "none"] | [kind |-> "ext", len, v] | [kind |-> "std", wc, hash, any (<<>> or <<[depth, pfx]>>)]
AddrFits(a) ==
    CASE a.kind = "none" -> TRUE
      [] a.kind = "ext"  -> a.len \in 0..511 /\ BigUFits(a.v, a.len)
      [] a.kind = "std"  -> /\ a.wc \in -128..127 /\ Len(a.hash) = 32
                            /\ (a.any # <<>> => a.any[1].depth \in 1..30 /\ BigUFits(a.any[1].pfx, a.any[1].depth))
AddrEnc(a) ==
    CASE a.kind = "none" -> <<0, 0>>
      [] a.kind = "ext"  -> <<0, 1>> \o NatBits(a.len, 9) \o BigUBits(a.v, a.len)
      [] a.kind = "std"  -> <<1, 0>>
                            \o (IF a.any = <<>> THEN <<0>> ELSE <<1>> \o NatBits(a.any[1].depth, 5) \o BigUBits(a.any[1].pfx, a.any[1].depth))
                            \o IntBitsSmall(a.wc, 8) \o BytesToBits(a.hash)
\* decode an address from the front of bits: [ok, a, len] ; ok = "any" outside the stated domain (addr_var)
AddrDec(bits) ==
    IF Len(bits) < 2 THEN [ok |-> "no"]
    ELSE LET tag == 2 * bits[1] + bits[2] IN
    IF tag = 0 THEN [ok |-> "yes", a |-> [kind |-> "none"], len |-> 2]
    ELSE IF tag = 1 THEN
        IF Len(bits) < 11 THEN [ok |-> "no"]
        ELSE LET ln == BitsNat(SubSeq(bits, 3, 11)) IN
             IF Len(bits) < 11 + ln THEN [ok |-> "no"]
             ELSE [ok |-> "yes", a |-> [kind |-> "ext", len |-> ln, v |-> BigOfUBits(SubSeq(bits, 12, 11 + ln))], len |-> 11 + ln]
    ELSE IF tag = 3 THEN [ok |-> "any"]
    ELSE IF Len(bits) < 3 THEN [ok |-> "no"]
    ELSE IF bits[3] = 0 THEN
        IF Len(bits) < 267 THEN [ok |-> "no"]
        ELSE [ok |-> "yes", len |-> 267,
              a |-> [kind |-> "std", wc |-> BitsIntSmall(SubSeq(bits, 4, 11)), hash |-> BitsToBytes(SubSeq(bits, 12, 267)), any |-> <<>>]]
    ELSE IF Len(bits) < 8 THEN [ok |-> "no"]
    ELSE LET dp == BitsNat(SubSeq(bits, 4, 8)) IN
         IF dp < 1 \/ dp > 30 THEN [ok |-> "any"]
         ELSE IF Len(bits) < 8 + dp + 264 THEN [ok |-> "no"]
         ELSE [ok |-> "yes", len |-> 8 + dp + 264,
               a |-> [kind |-> "std", wc |-> BitsIntSmall(SubSeq(bits, 9 + dp, 16 + dp)),
                      hash |-> BitsToBytes(SubSeq(bits, 17 + dp, 272 + dp)),
                      any |-> <<[depth |-> dp, pfx |-> BigOfUBits(SubSeq(bits, 9, 8 + dp))]>>]]

\* ------------------------------------------------------------------ stores
\* append bits and refs to builder id (the single place where capacity is decided)
Put(objs, id, bits, refs) ==
    LET o == objs[id] IN
    IF Len(o.b) + Len(bits) > MaxBits THEN No("overflow_bits")
    ELSE IF Len(o.r) + Len(refs) > MaxRefs THEN No("overflow_refs")
    ELSE Yes(With(objs, id, [o EXCEPT !.b = @ \o bits, !.r = @ \o refs]), Unit)

\* ------------------------------------------------------------------ loads
\* consume nb bits and nr refs from slice id, returning res
Take(objs, id, nb, nr, res) ==
    LET o == objs[id] IN
    Yes(With(objs, id, [o EXCEPT !.b = SubSeq(@, nb + 1, Len(@)), !.r = SubSeq(@, nr + 1, Len(@))]), res)
Peek(objs, res) == Yes(objs, res)
Rem(objs, id) == Len(objs[id].b)

\* the value read by a typed load at the front of slice id: [ok, nb, nr, res]
Read(objs, id, c) ==
    LET o == objs[id]  bits == o.b  n == Len(bits)
        bad == [ok |-> "no"]
        good(nb, nr, res) == [ok |-> "yes", nb |-> nb, nr |-> nr, res |-> res]
    IN
    CASE c.what = "bits"  -> IF c.n > n THEN bad ELSE good(c.n, 0, [bits |-> BitStrOf(SubSeq(bits, 1, c.n))])
      [] c.what = "bit"   -> IF n < 1 THEN bad ELSE good(1, 0, [v |-> BigOfNat(bits[1])])
      [] c.what = "bool"  -> IF n < 1 THEN bad ELSE good(1, 0, [bool |-> bits[1]])
      [] c.what = "uint"  -> IF c.w > n THEN bad ELSE good(c.w, 0, [v |-> BigOfUBits(SubSeq(bits, 1, c.w))])
      [] c.what = "int"   -> IF c.w > n THEN bad ELSE good(c.w, 0, [v |-> BigOfSBits(SubSeq(bits, 1, c.w))])
      [] c.what = "bytes" -> IF 8 * c.n > n THEN bad ELSE good(8 * c.n, 0, [bytes |-> BitsToBytes(SubSeq(bits, 1, 8 * c.n))])
      [] c.what = "var_uint" ->
            IF c.L > n THEN bad
            ELSE LET ln == BitsNat(SubSeq(bits, 1, c.L)) IN
                 IF c.L + 8 * ln > n THEN bad ELSE good(c.L + 8 * ln, 0, [v |-> BigOfUBits(SubSeq(bits, c.L + 1, c.L + 8 * ln))])
      [] c.what = "var_int" ->
            IF c.L > n THEN bad
            ELSE LET ln == BitsNat(SubSeq(bits, 1, c.L)) IN
                 IF c.L + 8 * ln > n THEN bad ELSE good(c.L + 8 * ln, 0, [v |-> BigOfSBits(SubSeq(bits, c.L + 1, c.L + 8 * ln))])
      [] c.what = "ref"   -> IF o.r = <<>> THEN bad ELSE good(0, 1, [ref |-> o.r[1]])
      [] c.what = "maybe_ref" ->
            IF n < 1 THEN bad
            ELSE IF bits[1] = 0 THEN good(1, 0, [none |-> 1])
            ELSE IF o.r = <<>> THEN bad ELSE good(1, 1, [ref |-> o.r[1]])
      [] c.what = "address" ->
            LET a == AddrDec(bits) IN
            IF a.ok = "any" THEN [ok |-> "any"] ELSE IF a.ok = "no" THEN bad ELSE good(a.len, 0, [addr |-> a.a])

\* snake data: bytes of cell id followed by the chain through its single reference
RECURSIVE SnakeOf(_, _)
SnakeOf(objs, id) ==       \* <<>>-or-[ok, bytes]
    LET o == objs[id] IN
    IF Len(o.b) % 8 # 0 \/ Len(o.r) > 1 THEN [ok |-> "no"]
    ELSE IF o.r = <<>> THEN [ok |-> "yes", bytes |-> BitsToBytes(o.b)]
    ELSE LET t == SnakeOf(objs, o.r[1]) IN
         IF t.ok # "yes" THEN t ELSE [ok |-> "yes", bytes |-> BitsToBytes(o.b) \o t.bytes]

\* ------------------------------------------------------------------ the meaning of every call
\* c = [op, obj, ...]; new objects take the id c.new chosen by the caller (the next unused number)
Do(objs, c) ==
    CASE c.op = "new_builder" -> Yes(With(objs, c.new, Obj("builder", 0, <<>>, <<>>, 0)), [new |-> c.new])
      \* ---- builder stores
      \* the bits may be handed over in any iterable form; for forms without a length (generators, map objects, iterators) the
      \* properties do not say whether the call is supported, but IF it is accepted it is this store and it never exceeds capacity
      [] c.op = "store_bits"  -> IF "form" \in DOMAIN c /\ c.form \in {"gen", "map", "iter", "chain"}
                                 THEN MaybeOf(Put(objs, c.obj, BitsOf(c.bits), <<>>))
                                 ELSE Put(objs, c.obj, BitsOf(c.bits), <<>>)
      [] c.op = "store_bit"   -> Put(objs, c.obj, <<c.bit>>, <<>>)
      [] c.op = "store_uint"  -> IF ~BigUFits(c.v, c.w) THEN No("out_of_range") ELSE Put(objs, c.obj, BigUBits(c.v, c.w), <<>>)
      [] c.op = "store_int"   -> IF ~BigSFits(c.v, c.w) THEN No("out_of_range") ELSE Put(objs, c.obj, BigSBits(c.v, c.w), <<>>)
      [] c.op = "store_var_uint" -> IF ~VarUFits(c.v, c.L) THEN No("out_of_range") ELSE Put(objs, c.obj, VarUEnc(c.v, c.L), <<>>)
      [] c.op = "store_var_int"  -> IF ~VarSFits(c.v, c.L) THEN No("out_of_range") ELSE Put(objs, c.obj, VarSEnc(c.v, c.L), <<>>)
      [] c.op = "store_coins" -> IF ~VarUFits(c.v, 4) THEN No("out_of_range") ELSE Put(objs, c.obj, VarUEnc(c.v, 4), <<>>)
      [] c.op = "store_bytes" -> Put(objs, c.obj, BytesToBits(c.bytes), <<>>)
      [] c.op = "store_string" -> Put(objs, c.obj, BytesToBits(c.bytes), <<>>)
      [] c.op = "store_ref"   -> Put(objs, c.obj, <<>>, <<c.ref>>)
      [] c.op = "store_maybe_ref" -> IF c.ref = 0 THEN Put(objs, c.obj, <<0>>, <<>>) ELSE Put(objs, c.obj, <<1>>, <<c.ref>>)
      [] c.op = "store_dict"  -> IF c.ref = 0 THEN Put(objs, c.obj, <<0>>, <<>>) ELSE Put(objs, c.obj, <<1>>, <<c.ref>>)
      [] c.op = "store_cell"  -> IF objs[c.ref].t # 0 THEN Unspec ELSE Put(objs, c.obj, objs[c.ref].b, objs[c.ref].r)
      [] c.op = "store_slice" -> IF objs[c.ref].t # 0 THEN Unspec ELSE Put(objs, c.obj, objs[c.ref].b, objs[c.ref].r)
      [] c.op = "store_address" -> IF ~AddrFits(c.addr) THEN No("out_of_range") ELSE Put(objs, c.obj, AddrEnc(c.addr), <<>>)
      \* ---- builder -> cell
      [] c.op = "end_cell" ->
            LET o == objs[c.obj]  d == DepthOver(objs, o.r) IN
            IF d > MaxDepth THEN No("depth")
            ELSE Yes(With(objs, c.new, Obj("cell", 0, o.b, o.r, d)), [new |-> c.new])
      [] c.op = "builder_to_slice" ->
            LET o == objs[c.obj] IN Yes(With(objs, c.new, Obj("slice", 0, o.b, o.r, 0)), [new |-> c.new])
      \* ---- cell derivations
      [] c.op = "begin_parse" ->
            LET o == objs[c.obj] IN Yes(With(objs, c.new, Obj("slice", o.t, o.b, o.r, 0)), [new |-> c.new])
      [] c.op = "cell_copy" ->
            LET o == objs[c.obj] IN Yes(With(objs, c.new, o), [new |-> c.new])
      [] c.op = "cell_to_builder" ->
            LET o == objs[c.obj] IN
            IF o.t # 0 THEN No("exotic") ELSE Yes(With(objs, c.new, Obj("builder", 0, o.b, o.r, 0)), [new |-> c.new])
      [] c.op = "cell_from_bits" ->      \* Cell(bits, refs) constructed directly
            LET b == BitsOf(c.bits)  d == DepthOver(objs, c.refs) IN
            IF Len(b) > MaxBits THEN No("overflow_bits")
            ELSE IF Len(c.refs) > MaxRefs THEN No("overflow_refs")
            ELSE IF d > MaxDepth THEN No("depth")
            ELSE Yes(With(objs, c.new, Obj("cell", 0, b, c.refs, d)), [new |-> c.new])
      \* ---- slice derivations
      [] c.op = "slice_to_cell" ->
            \* (a special cell re-made from a slice over special data, possibly read in part, is whatever the constructor makes of it:
            \* the properties speak about ordinary cells here; only the frame condition is demanded)
            LET o == objs[c.obj] IN
            IF o.t # 0 THEN Unspec
            ELSE Yes(With(objs, c.new, Obj("cell", o.t, o.b, o.r, DepthOver(objs, o.r))), [new |-> c.new])
      [] c.op = "slice_copy" ->
            LET o == objs[c.obj] IN Yes(With(objs, c.new, o), [new |-> c.new])
      [] c.op = "slice_to_builder" ->
            LET o == objs[c.obj] IN
            IF o.t # 0 THEN No("exotic") ELSE Yes(With(objs, c.new, Obj("builder", 0, o.b, o.r, 0)), [new |-> c.new])
      \* ---- slice reads
      [] c.op = "load" ->
            LET x == Read(objs, c.obj, c) IN
            IF x.ok = "any" THEN Unspec ELSE IF x.ok = "no" THEN No("underflow") ELSE Take(objs, c.obj, x.nb, x.nr, x.res)
      [] c.op = "preload" ->             \* a peek returns what the load would return and changes nothing
            LET x == Read(objs, c.obj, c) IN
            IF x.ok = "yes" THEN Peek(objs, x.res) ELSE Unspec
      [] c.op = "skip_bits" -> IF c.n > Rem(objs, c.obj) THEN No("underflow") ELSE Take(objs, c.obj, c.n, 0, Unit)
      [] c.op = "load_snake_bytes" ->
            LET s == SnakeOf(objs, c.obj) IN
            IF s.ok # "yes" THEN Unspec
            ELSE LET o == objs[c.obj] IN Yes(With(objs, c.obj, [o EXCEPT !.b = <<>>, !.r = <<>>]), [bytes |-> s.bytes])
      \* ---- pure observations of a cell (idempotent, change nothing)
      [] c.op = "observe" -> Peek(objs, Unit)
      \* a cell read by one of the library's own parsers (dictionary, augmented dictionary, message, account, state-init, VM stack):
      \* whatever the parser makes of it, and whatever is then read from what it returned, every object stays as it is
      [] c.op = "parse_as" -> Unspec
      \* a cell built outside the pool is adopted as it is observed (used for very deep chains)
      [] c.op = "adopt" -> Unspec
      [] c.op = "forget"  -> Yes([i \in (DOMAIN objs) \ c.ids |-> objs[i]], Unit)

\* ------------------------------------------------------------------ invariants of the machine (used by MC_Bag)
Capacity(objs) == \A i \in DOMAIN objs :
    /\ Len(objs[i].b) <= MaxBits /\ Len(objs[i].r) <= MaxRefs /\ objs[i].d <= MaxDepth
=============================================================================
