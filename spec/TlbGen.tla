------------------------------- MODULE TlbGen -------------------------------
(* Boundary-value generator over TonTlb schemas: a base value per type and    *)
(* one-factor-at-a-time variations (every alternative, every Maybe/Either     *)
(* side, every flag, leaf menus {0, 1, max, msb-set, non-minimal var-ints}).  *)
EXTENDS TonTlb

Zeros(n) == Rep(n, 0)
Ones(n) == Rep(n, 1)
Msb(n) == [i \in 1..n |-> IF i = 1 THEN 1 ELSE 0]
CellA == [b |-> <<>>, r |-> <<>>]
CellB == [b |-> <<1, 0, 1>>, r |-> <<[b |-> <<0>>, r |-> <<>>]>>]
CellC == [b |-> Ones(9), r |-> <<>>]
AddrA == [wc |-> Zeros(8), hash |-> Zeros(256), any |-> <<>>]
AddrB == [wc |-> Ones(8), hash |-> Msb(256), any |-> <<>>]
AddrC == [wc |-> Zeros(8), hash |-> Ones(256), any |-> <<<<1>>>>]                   \* anycast, depth 1
AddrD == [wc |-> Msb(8), hash |-> Msb(256), any |-> <<[i \in 1..30 |-> i % 2]>>]    \* anycast, depth 30
CC0 == [grams |-> <<>>, other |-> <<>>]
BtLeaf(v) == [leaf |-> <<v>>, kids |-> <<>>]
BtFork(l, r) == [leaf |-> <<>>, kids |-> <<l, r>>]
AugV(es) == [es |-> es, post |-> <<>>]          \* augmented-dictionary value composed here: fork extras are ForkExtraV's

RECURSIVE Menu(_), Base(_), Vary(_), BaseAlt(_), VaryAlt(_), VaryAltAll(_), Rich(_, _), RichAlt(_, _)
Menu(t) ==
    CASE t.k \in {"U", "I"} -> {Zeros(t.n), Ones(t.n), Msb(t.n), NatBits(1, t.n)}
      [] t.k = "Bits" -> {Zeros(t.n), Ones(t.n), Msb(t.n)}
      [] t.k = "Zero" -> {Zeros(t.n)}
      [] t.k = "Unit" -> {<<>>}
      [] t.k = "One" -> {NatBits(1, t.n)}
      [] t.k = "UMax" -> {NatBits(x, t.n) : x \in 0..t.m}
      [] t.k = "URange" -> {NatBits(t.lo, t.n), NatBits(t.hi, t.n), NatBits((t.lo + t.hi) \div 2, t.n), NatBits(t.lo + 1, t.n)}
      [] t.k = "UPos" -> {NatBits(1, t.n), Ones(t.n), Msb(t.n)}
      [] t.k = "Bool" -> {<<0>>, <<1>>}
      [] t.k = "VarU" -> {<<>>, <<1>>, <<128>>, <<0, 5>>, Rep(t.n - 1, 255)}
      [] t.k = "VarI" -> {<<>>, <<1>>, <<128>>, <<255>>, <<0, 128>>, Rep(t.n - 1, 255)}
      [] t.k = "Leq" -> {Zeros(BitLen(t.n)), NatBits(1, BitLen(t.n)), NatBits(t.n, BitLen(t.n))}
      [] t.k = "AddrInt" -> {AddrA, AddrB, AddrC, AddrD}
      [] t.k = "AddrExt" -> {<<>>, <<<<>>>>, <<<<1, 0, 1>>>>, <<Ones(64)>>}
      [] t.k = "CC" -> {CC0, [grams |-> <<7>>, other |-> <<>>], [grams |-> Rep(15, 255), other |-> <<>>],
                        [grams |-> <<1>>, other |-> <<[k |-> NatBits(5, 32), v |-> <<9>>]>>],
                        [grams |-> <<>>, other |-> <<[k |-> Zeros(32), v |-> <<>>], [k |-> Ones(32), v |-> <<1, 0>>]>>]}
      [] t.k \in {"RefCell", "RefAny"} -> {CellA, CellB}
      [] t.k = "AnyRest" -> {CellA, CellC, CellB}
IsLeaf(t) == t.k \in {"Zero", "One", "UMax", "UPos", "URange", "Unit", "U", "I", "Bits", "Bool", "VarU", "VarI", "Leq", "AddrInt", "AddrExt", "CC", "RefCell", "RefAny", "AnyRest"}
Base(t) ==
    CASE IsLeaf(t) -> (CASE t.k \in {"U", "I", "Bits", "Zero", "UMax"} -> Zeros(t.n) [] t.k \in {"One", "UPos"} -> NatBits(1, t.n) [] t.k = "URange" -> NatBits(t.lo, t.n) [] t.k = "Unit" -> <<>> [] t.k = "Bool" -> <<0>> [] t.k \in {"VarU", "VarI"} -> <<>>
                         [] t.k = "Leq" -> Zeros(BitLen(t.n)) [] t.k = "AddrInt" -> AddrA [] t.k = "AddrExt" -> <<>>
                         [] t.k = "CC" -> CC0 [] t.k \in {"RefCell", "RefAny"} -> CellA [] t.k = "AnyRest" -> CellA)
      [] t.k = "Maybe" -> <<>>
      [] t.k = "Either" -> [side |-> 0, v |-> Base(t.l)]
      [] t.k = "Ref" -> Base(t.t)
      [] t.k = "Named" -> BaseAlt(Schema[t.nm][1])
      [] t.k \in {"HmE"} -> <<>>
      [] t.k \in {"Hm", "HmS"} -> <<[k |-> Zeros(t.n), v |-> Base(t.t)]>>
      [] t.k = "BinTree" -> BtLeaf(Base(t.t))
      [] t.k = "Lite" -> Base(t.t)
      [] t.k = "HmAug" -> AugV(<<[k |-> Zeros(t.n), v |-> Base(t.t), x |-> Base(t.x)]>>)
      [] t.k = "HmAugE" -> [es |-> <<>>, post |-> <<>>, rx |-> Base(t.x)]
      [] t.k \in {"If", "IfBit"} -> Base(t.t)                     \* present in the record, encoded only when the flag is set
      [] t.k \in {"RefPick", "Pick"} -> [v0 |-> Base(t.t0), v1 |-> Base(t.t1)]
FieldOf(a, x) == (CHOOSE i \in 1..Len(a.fs) : a.fs[i].name = x)
BaseAlt(a) == [x \in {"c"} \cup {a.fs[i].name : i \in 1..Len(a.fs)} |-> IF x = "c" THEN a.c ELSE Base(a.fs[FieldOf(a, x)].t)]
Vary(t) ==
    CASE IsLeaf(t) -> Menu(t)
      [] t.k = "Maybe" -> IF t.t.k = "RefAny" THEN {<<>>}          \* a type that is not transcribed is never composed: absent only
                          ELSE {<<>>} \cup {<<x>> : x \in Vary(t.t)}
      [] t.k = "Either" -> {[side |-> 0, v |-> x] : x \in Vary(t.l)} \cup {[side |-> 1, v |-> x] : x \in Vary(t.r)}
      [] t.k = "Ref" -> Vary(t.t)
      [] t.k = "Named" -> UNION {VaryAlt(Schema[t.nm][i]) : i \in 1..Len(Schema[t.nm])}
      [] t.k = "HmE" -> {<<>>} \cup {<<[k |-> Msb(t.n), v |-> x]>> : x \in Vary(t.t)}
                        \cup {<<[k |-> Zeros(t.n), v |-> Base(t.t)], [k |-> NatBits(1, t.n), v |-> Base(t.t)], [k |-> Ones(t.n), v |-> Base(t.t)]>>}
      [] t.k \in {"Hm", "HmS"} -> {<<[k |-> Msb(t.n), v |-> x]>> : x \in Vary(t.t)}
                       \cup {<<[k |-> Zeros(t.n), v |-> Base(t.t)], [k |-> Ones(t.n), v |-> Base(t.t)]>>}
      [] t.k = "BinTree" -> {BtLeaf(x) : x \in Vary(t.t)}
                            \cup {BtFork(BtLeaf(Base(t.t)), BtLeaf(Rich(t.t, 1))),
                                  BtFork(BtFork(BtLeaf(Rich(t.t, 1)), BtLeaf(Base(t.t))), BtLeaf(Base(t.t)))}
      [] t.k \in {"If", "IfBit"} -> Vary(t.t)
      [] t.k = "Lite" -> {Base(t.t), Rich(t.t, 2)}
      [] t.k = "HmAug" -> {AugV(<<[k |-> Msb(t.n), v |-> x, x |-> Rich(t.x, 1)]>>) : x \in Vary(t.t)}
                          \cup {AugV(<<[k |-> Zeros(t.n), v |-> Base(t.t), x |-> Base(t.x)], [k |-> Ones(t.n), v |-> Base(t.t), x |-> Rich(t.x, 1)]>>),
                                AugV(<<[k |-> Zeros(t.n), v |-> Base(t.t), x |-> Rich(t.x, 1)], [k |-> NatBits(1, t.n), v |-> Rich(t.t, 2), x |-> Base(t.x)],
                                       [k |-> Msb(t.n), v |-> Base(t.t), x |-> Rich(t.x, 1)], [k |-> Ones(t.n), v |-> Base(t.t), x |-> Base(t.x)]>>)}
      [] t.k = "HmAugE" -> {[es |-> <<>>, post |-> <<>>, rx |-> Base(t.x)], [es |-> <<>>, post |-> <<>>, rx |-> Rich(t.x, 1)],
                            [es |-> <<[k |-> Msb(t.n), v |-> Rich(t.t, 2), x |-> Rich(t.x, 1)]>>, post |-> <<>>, rx |-> Base(t.x)],
                            [es |-> <<[k |-> Zeros(t.n), v |-> Base(t.t), x |-> Rich(t.x, 1)], [k |-> NatBits(1, t.n), v |-> Rich(t.t, 2), x |-> Base(t.x)],
                                      [k |-> Ones(t.n), v |-> Base(t.t), x |-> Base(t.x)]>>, post |-> <<>>, rx |-> Rich(t.x, 1)]}
      [] t.k \in {"RefPick", "Pick"} -> {[v0 |-> x, v1 |-> Base(t.t1)] : x \in Vary(t.t0)} \cup {[v0 |-> Base(t.t0), v1 |-> x] : x \in Vary(t.t1)}
\* vary one field at a time; a conditional field is also varied with its flag switched on
SetFlag(a, rec, f) == CASE f.t.k = "If" -> [rec EXCEPT ![f.t.fl] = <<1>>]
                        [] f.t.k = "IfBit" -> [rec EXCEPT ![f.t.fl] = [i \in 1..Len(@) |-> IF i = Len(@) - f.t.bit THEN 1 ELSE @[i]]]
                        [] OTHER -> rec
VaryAlt(a) == {v \in VaryAltAll(a) : ConsOk(a, v)}
VaryAltAll(a) == {BaseAlt(a)}
    \cup UNION {{[BaseAlt(a) EXCEPT ![a.fs[i].name] = x] : x \in Vary(a.fs[i].t)} : i \in 1..Len(a.fs)}
    \cup UNION {{SetFlag(a, [BaseAlt(a) EXCEPT ![a.fs[i].name] = x], a.fs[i]) : x \in Vary(a.fs[i].t)} :
                    i \in {j \in 1..Len(a.fs) : a.fs[j].t.k \in {"If", "IfBit"}}}
    \cup UNION {{[BaseAlt(a) EXCEPT ![a.fs[i].t.fl] = <<1>>]} : i \in {j \in 1..Len(a.fs) : a.fs[j].t.k \in {"RefPick", "Pick"}}}
    \cup UNION {{[[BaseAlt(a) EXCEPT ![a.fs[i].t.fl] = <<1>>] EXCEPT ![a.fs[i].name] = x] : x \in Vary(a.fs[i].t)} : i \in {j \in 1..Len(a.fs) : a.fs[j].t.k \in {"RefPick", "Pick"}}}
Values(nm) == Vary(Named(nm))

\* ---- a second base value: every leaf non-zero and distinctive, every optional part present, the LAST alternative of every
\* named type (fuel bounds the nesting of named types; below it the plain base value is used).  A parser that reads a field
\* at the wrong offset or width reports a visibly different value, which the all-zero base cannot show.
Pat(n) == [i \in 1..n |-> IF i % 3 = 0 THEN 0 ELSE 1]           \* 110110...: top bit set, not all ones
RichLeaf(t) ==
    CASE t.k \in {"U", "I", "Bits", "UPos"} -> Pat(t.n)
      [] t.k = "Zero" -> Zeros(t.n)
      [] t.k = "Unit" -> <<>>
      [] t.k = "One" -> NatBits(1, t.n)
      [] t.k = "UMax" -> NatBits(t.m, t.n)
      [] t.k = "URange" -> NatBits(t.hi, t.n)
      [] t.k = "Bool" -> <<1>>
      [] t.k = "VarU" -> IF t.n > 2 THEN <<2, 77>> ELSE <<5>>
      [] t.k = "VarI" -> IF t.n > 2 THEN <<255, 3>> ELSE <<251>>
      [] t.k = "Leq" -> NatBits((t.n + 1) \div 2, BitLen(t.n))
      [] t.k = "AddrInt" -> [wc |-> Pat(8), hash |-> Pat(256), any |-> <<<<1, 0, 1>>>>]
      [] t.k = "AddrExt" -> <<<<1, 0, 1, 1, 0>>>>
      [] t.k = "CC" -> [grams |-> <<2, 77>>, other |-> <<[k |-> NatBits(5, 32), v |-> <<9>>], [k |-> NatBits(70000, 32), v |-> <<1, 2>>]>>]
      [] t.k \in {"RefCell", "RefAny"} -> CellB
      [] t.k = "AnyRest" -> CellC
Rich(t, fuel) ==
    CASE IsLeaf(t) -> RichLeaf(t)
      [] t.k = "Maybe" -> IF t.t.k = "RefAny" THEN <<>> ELSE <<Rich(t.t, fuel)>>
      [] t.k = "Either" -> [side |-> 1, v |-> Rich(t.r, fuel)]
      [] t.k \in {"Ref", "Lite", "If", "IfBit"} -> Rich(t.t, fuel)
      [] t.k = "Named" -> IF fuel = 0 THEN Base(t) ELSE RichAlt(Schema[t.nm][Len(Schema[t.nm])], fuel - 1)
      [] t.k = "BinTree" -> BtFork(BtLeaf(Rich(t.t, fuel)), BtLeaf(Base(t.t)))
      [] t.k \in {"HmE", "Hm", "HmS"} -> <<[k |-> [i \in 1..t.n |-> IF i = 1 THEN 0 ELSE (IF i % 3 = 0 THEN 0 ELSE 1)], v |-> Rich(t.t, fuel)],
                                   [k |-> Ones(t.n), v |-> Base(t.t)]>>
      [] t.k = "HmAug" -> AugV(<<[k |-> [i \in 1..t.n |-> IF i = 1 THEN 0 ELSE (IF i % 3 = 0 THEN 0 ELSE 1)], v |-> Rich(t.t, fuel), x |-> Rich(t.x, 1)],
                                 [k |-> Ones(t.n), v |-> Base(t.t), x |-> Base(t.x)]>>)
      [] t.k = "HmAugE" -> [es |-> <<[k |-> [i \in 1..t.n |-> IF i = 1 THEN 0 ELSE (IF i % 3 = 0 THEN 0 ELSE 1)], v |-> Rich(t.t, fuel), x |-> Rich(t.x, 1)],
                                      [k |-> Ones(t.n), v |-> Base(t.t), x |-> Base(t.x)]>>, post |-> <<>>, rx |-> Rich(t.x, 1)]
      [] t.k \in {"RefPick", "Pick"} -> [v0 |-> Rich(t.t0, fuel), v1 |-> Rich(t.t1, fuel)]
RichAlt(a, fuel) == [x \in {"c"} \cup {a.fs[i].name : i \in 1..Len(a.fs)} |-> IF x = "c" THEN a.c ELSE Rich(a.fs[FieldOf(a, x)].t, fuel)]
RichFuel == 3
\* one factor at a time around the rich base (all flags are set in it, so conditional fields are encoded)
RichVary(a) == {RichAlt(a, RichFuel)} \cup UNION {{[RichAlt(a, RichFuel) EXCEPT ![a.fs[i].name] = x] : x \in Vary(a.fs[i].t)} : i \in 1..Len(a.fs)}
\* every combination of optional parts (Maybe, HashmapE, flag?T, ^(T flag)) present / absent around the rich base;
\* beyond 6 optional parts: all combinations with at most two present or at most two absent
OptIdx(a) == {i \in 1..Len(a.fs) : (a.fs[i].t.k \in {"Maybe", "HmE", "If", "IfBit", "RefPick", "Pick"} /\ ~(a.fs[i].t.k = "Maybe" /\ a.fs[i].t.t.k = "RefAny"))
                                    \/ (a.fs[i].t.k = "Ref" /\ a.fs[i].t.t.k = "HmAugE")}
Absent(rec, f) == CASE f.t.k \in {"Maybe", "HmE"} -> [rec EXCEPT ![f.name] = <<>>]
                    [] f.t.k = "Ref" -> [rec EXCEPT ![f.name] = [es |-> <<>>, post |-> <<>>, rx |-> @.rx]]
                    [] f.t.k \in {"If", "RefPick", "Pick"} -> [rec EXCEPT ![f.t.fl] = <<0>>]
                    [] f.t.k = "IfBit" -> [rec EXCEPT ![f.t.fl] = [i \in 1..Len(@) |-> IF i = Len(@) - f.t.bit THEN 0 ELSE @[i]]]
OptCombos(a) ==
    LET OI == OptIdx(a)
        subsets == IF Cardinality(OI) <= 6 THEN SUBSET OI ELSE {S \in SUBSET OI : Cardinality(S) <= 2 \/ Cardinality(OI \ S) <= 2}
    IN {FoldLeft(LAMBDA rec, i : Absent(rec, a.fs[i]), RichAlt(a, RichFuel), SetToSeq(S)) : S \in subsets}
\* two factors at a time (thorough tier): every pair of fields, each taking two non-base values of its own variation set,
\* around the zero base and around the rich base
Two(S) == IF Cardinality(S) <= 2 THEN S ELSE LET a == CHOOSE x \in S : TRUE IN {a, CHOOSE y \in S \ {a} : TRUE}
PairVary(a, base) ==
    LET n == Len(a.fs)
        alt(i) == Two(Vary(a.fs[i].t) \ {base[a.fs[i].name]})
    IN UNION {{[base EXCEPT ![a.fs[i].name] = x, ![a.fs[j].name] = y] : x \in alt(i), y \in alt(j)} : i \in 1..n, j \in 1..n} \ {base}
PairValues(nm) == UNION {{v \in PairVary(Schema[nm][i], BaseAlt(Schema[nm][i])) \cup PairVary(Schema[nm][i], RichAlt(Schema[nm][i], RichFuel)) : ConsOk(Schema[nm][i], v)}
                         : i \in 1..Len(Schema[nm])}
TopValues(nm) == Values(nm) \cup UNION {{v \in RichVary(Schema[nm][i]) \cup OptCombos(Schema[nm][i]) : ConsOk(Schema[nm][i], v)} : i \in 1..Len(Schema[nm])}
=============================================================================
