------------------------------- MODULE TonAdnl -------------------------------
(* ADNL channel keys and packets (C20).                                      *)
(* Byte-level layout is concrete (SHA-256 from TonSha); X25519 and AES-CTR   *)
(* are not specified: at model level they are uninterpreted operators with   *)
(* their algebraic laws (DH commutes, Dec inverts Enc under the same key/iv).*)
EXTENDS TonBits, TonSha

RevBytes(s) == [i \in 1..Len(s) |-> s[Len(s) + 1 - i]]
\* lexicographic comparison of equal-length byte strings (Python bytes ordering)
RECURSIVE BytesLess(_, _)
BytesLess(a, b) == IF a = <<>> THEN FALSE ELSE IF a[1] # b[1] THEN a[1] < b[1] ELSE BytesLess(Tail(a), Tail(b))

\* channel keys of the side whose id is `lid` talking to `pid`, given the shared secret
ChannelKeys(lid, pid, shared) ==
    IF BytesLess(pid, lid) THEN [enc |-> shared, dec |-> RevBytes(shared)]
    ELSE IF BytesLess(lid, pid) THEN [enc |-> RevBytes(shared), dec |-> shared]
    ELSE [enc |-> shared, dec |-> shared]
AesKeyId(key) == Sha256(<<212, 173, 188, 45>> \o key)               \* pub.aes key id: 0xd4adbc2d
KeyId(pub) == Sha256(<<198, 180, 19, 72>> \o pub)                   \* pub.ed25519 key id: 0xc6b41348
\* AES-256-CTR key and 16-byte initial counter block derived from a channel key and the plaintext checksum
AesKey(key, sum) == SubSeq(key, 1, 16) \o SubSeq(sum, 17, 32)
AesIv(key, sum)  == SubSeq(sum, 1, 4) \o SubSeq(key, 21, 32)
\* packet = key id of the sender's encryption key | SHA-256(plaintext) | ciphertext
PacketHeader(enc, plain) == AesKeyId(enc) \o Sha256(plain)
=============================================================================
