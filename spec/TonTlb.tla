------------------------------- MODULE TonTlb -------------------------------
(* A TL-B interpreter: schemas are data, one generic encoder, a flattener     *)
(* that lists every leaf of a value with the ABSTRACT value a parser must     *)
(* report for it, and a one-factor-at-a-time boundary value generator.        *)
(*                                                                            *)
(* Schema : [TypeName |-> <<Alt(ctor, tag bits, <<F(field, kind), ...>>)>>]   *)
(* kinds  : U(n) I(n) Bits(n) Bool VarU(n) VarI(n) Leq(n) Grams AddrInt       *)
(*          AddrExt CC Maybe(t) Either(l, r) Ref(t) RefCell AnyRest Named(nm) *)
(*          HmE(n, t) Hm(n, t) If(flag field, t) IfBit(flags field, bit, t)   *)
(*          RefPick(flag field, t0, t1)                                       *)
(* values : records [c |-> ctor, field |-> value]; integers and bit strings   *)
(*          are bit sequences; VarU/VarI/Grams are byte sequences (the        *)
(*          payload, possibly non-minimal); Maybe is <<>> or <<v>>; cells     *)
(*          are trees [b |-> bits, r |-> <<trees>>]; dictionaries are         *)
(*          sequences of [k |-> key bits, v |-> value].                       *)
EXTENDS TonBits, TonHashmap
CONSTANT Schema

U(n) == [k |-> "U", n |-> n]
I(n) == [k |-> "I", n |-> n]
Bits(n) == [k |-> "Bits", n |-> n]
Zero(n) == [k |-> "Zero", n |-> n]            \* n-bit field constrained to 0 by the schema
One(n) == [k |-> "One", n |-> n]              \* n-bit field held at 1 (keeps { main >= 1 }-style constraints true)
UMax(n, m) == [k |-> "UMax", n |-> n, m |-> m]   \* n-bit field with { field <= m }
UPos(n) == [k |-> "UPos", n |-> n]            \* n-bit field with { field >= 1 }
URange(n, lo, hi) == [k |-> "URange", n |-> n, lo |-> lo, hi |-> hi]   \* n-bit field with { lo <= field <= hi } (small bounds)
Pick(fl, t0, t1) == [k |-> "Pick", fl |-> fl, t0 |-> t0, t1 |-> t1]     \* (T fl) inline: T parameterised by an earlier one-bit field; value [v0, v1]
UnitT == [k |-> "Unit"]                       \* Unit: no bits, no leaves (dictionaries used as sets)
Bool == [k |-> "Bool"]
VarU(n) == [k |-> "VarU", n |-> n]            \* VarUInteger n: length field of BitLen(n - 1) bits, then that many bytes
VarI(n) == [k |-> "VarI", n |-> n]
Grams == [k |-> "VarU", n |-> 16]
Leq(n) == [k |-> "Leq", n |-> n]              \* #<= n
AddrInt == [k |-> "AddrInt"]                  \* addr_std$10 anycast:(Maybe Anycast) workchain_id:int8 address:bits256: value [wc (8 bits), hash (256 bits), any (<<>> or <<rewrite_pfx bits, 1..30 of them>>)]
AddrExt == [k |-> "AddrExt"]                  \* addr_none$00 | addr_extern$01 len:(## 9) bits: value <<>> or <<bits>>
CC == [k |-> "CC"]                            \* CurrencyCollection: [grams (bytes), other (seq of [k (32 bits), v (bytes)])]
Maybe(t) == [k |-> "Maybe", t |-> t]
Either(l, r) == [k |-> "Either", l |-> l, r |-> r]   \* value [side |-> 0 / 1, v]
Ref(t) == [k |-> "Ref", t |-> t]
RefCell == [k |-> "RefCell"]                  \* ^Cell, opaque
RefAny == [k |-> "RefAny"]                    \* ^T for a type not transcribed here: the reference is taken, only its presence is reported
AnyRest == [k |-> "AnyRest"]                  \* X = Any at the end of a cell: the rest of the bits and references
Named(nm) == [k |-> "Named", nm |-> nm]
HmE(n, t) == [k |-> "HmE", n |-> n, t |-> t]  \* HashmapE n T
Hm(n, t) == [k |-> "Hm", n |-> n, t |-> t]    \* Hashmap n T (non-empty, inline)
If(fl, t) == [k |-> "If", fl |-> fl, t |-> t]                      \* fl?T with fl a one-bit field
IfBit(fl, bit, t) == [k |-> "IfBit", fl |-> fl, bit |-> bit, t |-> t]   \* flags . bit?T
RefPick(fl, t0, t1) == [k |-> "RefPick", fl |-> fl, t0 |-> t0, t1 |-> t1]  \* ^(T fl)
BinTree(t) == [k |-> "BinTree", t |-> t]      \* bt_leaf$0 leaf:X / bt_fork$1 left:^(BinTree X) right:^(BinTree X); value [leaf |-> <<v>>, kids |-> <<>>] or [leaf |-> <<>>, kids |-> <<l, r>>]
HmS(n, t) == [k |-> "HmS", n |-> n, t |-> t]  \* Hashmap n T whose n-bit keys the library reports as SIGNED integers (config parameter ids)
Lite(t) == [k |-> "Lite", t |-> t]            \* same encoding as t; the value generator does not expand variations below it (t is varied on its own)
HmAug(n, t, x) == [k |-> "HmAug", n |-> n, t |-> t, x |-> x]   \* HashmapAug n T X (non-empty, inline); value [es |-> entries [k, v, x], post |-> <<>> or the extras read]
F(name, t) == [name |-> name, t |-> t]
Alt(cn, tag, fs) == [c |-> cn, tag |-> tag, fs |-> fs, cons |-> <<>>]
\* an alternative with { a <= b } constraints between two of its fixed-width fields: cons is a sequence of <<a, b>> field-name pairs
AltC(cn, tag, fs, cons) == [c |-> cn, tag |-> tag, fs |-> fs, cons |-> cons]

IsPrefixOf(a, b) == Len(a) <= Len(b) /\ SubSeq(b, 1, Len(a)) = a
ByteBits(bs) == BytesToBits(bs)
Cat(a, b) == [b |-> a.b \o b.b, r |-> a.r \o b.r]
Only(bits) == [b |-> bits, r |-> <<>>]
AltOf(nm, cn) == LET as == Schema[nm] IN as[CHOOSE i \in 1..Len(as) : as[i].c = cn]
FlagBit(bits, bit) == bits[Len(bits) - bit]               \* bit number `bit` (LSB = 0) of a bit sequence

\* ---- encoder: value -> cell contribution [b, r]
\* augmented dictionaries: ahm_edge label node; ahmn_leaf extra:Y value:X; ahmn_fork left:^ right:^ extra:Y.
\* mp : key bits -> [v |-> [b, r], x |-> [b, r]] (encoded value / extra); fx : depth -> encoded extra of a fork at that depth.
\* TL-B does not say how a fork's extra is computed (block.tlb describes it in comments); a parser must read whatever is there.
RECURSIVE AugTree(_, _, _, _), AugPost(_, _, _, _)
AugTree(mp, m, fx, depth) ==
    LET ks == DOMAIN mp  lab == Lcp(ks)  l == Len(lab)
        lbits == LabelEnc(RefKind(l, m, l > 0 /\ AllSame(lab)), lab, m)
    IN IF l = m THEN [b |-> lbits \o mp[lab].x.b \o mp[lab].v.b, r |-> mp[lab].x.r \o mp[lab].v.r]
       ELSE [b |-> lbits \o fx[depth].b,
             r |-> <<AugTree(SubMap(mp, l, m, 0), m - l - 1, fx, depth + 1), AugTree(SubMap(mp, l, m, 1), m - l - 1, fx, depth + 1)>> \o fx[depth].r]
\* the extras in the order a depth-first parser meets them: left subtree, right subtree, then the fork's own (mp : key -> leaf extra, any value)
AugPost(mp, m, fx, depth) ==
    LET ks == DOMAIN mp  lab == Lcp(ks)  l == Len(lab)
    IN IF l = m THEN <<mp[lab]>>
       ELSE AugPost(SubMap(mp, l, m, 0), m - l - 1, fx, depth + 1) \o AugPost(SubMap(mp, l, m, 1), m - l - 1, fx, depth + 1) \o <<fx[depth]>>
RECURSIVE EncT(_, _, _), EncAlt(_, _), DictTree(_, _, _), ForkExtraV(_, _), ZeroV(_)
\* ctx = the record the field lives in (for conditional fields)
EncT(t, v, ctx) ==
    CASE t.k \in {"U", "I", "Bits", "Bool", "Leq", "Zero", "One", "UMax", "UPos", "URange"} -> Only(v)
      [] t.k = "Unit" -> Only(<<>>)
      [] t.k = "Pick" -> IF ctx[t.fl] = <<1>> THEN EncT(t.t1, v.v1, ctx) ELSE EncT(t.t0, v.v0, ctx)
      [] t.k \in {"VarU", "VarI"} -> Only(NatBits(Len(v), BitLen(t.n - 1)) \o ByteBits(v))
      [] t.k = "AddrInt" -> Only(<<1, 0>> \o (IF v.any = <<>> THEN <<0>> ELSE <<1>> \o NatBits(Len(v.any[1]), 5) \o v.any[1]) \o v.wc \o v.hash)
      [] t.k = "AddrExt" -> IF v = <<>> THEN Only(<<0, 0>>) ELSE Only(<<0, 1>> \o NatBits(Len(v[1]), 9) \o v[1])
      [] t.k = "CC" -> Cat(Only(NatBits(Len(v.grams), 4) \o ByteBits(v.grams)),
                           EncT(HmE(32, VarU(32)), v.other, ctx))
      [] t.k = "Maybe" -> IF v = <<>> THEN Only(<<0>>) ELSE Cat(Only(<<1>>), EncT(t.t, v[1], ctx))
      [] t.k = "Either" -> IF v.side = 0 THEN Cat(Only(<<0>>), EncT(t.l, v.v, ctx)) ELSE Cat(Only(<<1>>), EncT(t.r, v.v, ctx))
      [] t.k = "Ref" -> [b |-> <<>>, r |-> <<EncT(t.t, v, ctx)>>]
      [] t.k \in {"RefCell", "RefAny"} -> [b |-> <<>>, r |-> <<v>>]
      [] t.k = "AnyRest" -> v
      [] t.k = "Named" -> EncAlt(AltOf(t.nm, v.c), v)
      [] t.k = "HmE" -> IF v = <<>> THEN Only(<<0>>) ELSE [b |-> <<1>>, r |-> <<DictTree(t.n, t.t, v)>>]
      [] t.k \in {"Hm", "HmS"} -> DictTree(t.n, t.t, v)
      [] t.k = "BinTree" -> IF v.leaf # <<>> THEN Cat(Only(<<0>>), EncT(t.t, v.leaf[1], ctx))
                            ELSE [b |-> <<1>>, r |-> <<EncT(t, v.kids[1], ctx), EncT(t, v.kids[2], ctx)>>]
      [] t.k = "Lite" -> EncT(t.t, v, ctx)
      [] t.k = "HmAug" ->
            LET es == v.es
                mp == [key \in {es[i].k : i \in 1..Len(es)} |->
                         LET e == es[CHOOSE i \in 1..Len(es) : es[i].k = key]
                         IN [v |-> EncT(t.t, e.v, e), x |-> EncT(t.x, e.x, e)]]
            IN AugTree(mp, t.n, [d \in 0..t.n |-> EncT(t.x, ForkExtraV(t.x, d), <<>>)], 0)
      [] t.k = "HmAugE" ->
            IF v.es = <<>> THEN Cat(Only(<<0>>), EncT(t.x, v.rx, <<>>))
            ELSE Cat([b |-> <<1>>, r |-> <<EncT([t EXCEPT !.k = "HmAug"], [es |-> v.es, post |-> <<>>], ctx)>>], EncT(t.x, v.rx, <<>>))
      [] t.k = "If" -> IF ctx[t.fl] = <<1>> THEN EncT(t.t, v, ctx) ELSE Only(<<>>)
      [] t.k = "IfBit" -> IF FlagBit(ctx[t.fl], t.bit) = 1 THEN EncT(t.t, v, ctx) ELSE Only(<<>>)
      [] t.k = "RefPick" -> [b |-> <<>>, r |-> <<IF ctx[t.fl] = <<1>> THEN EncT(t.t1, v.v1, ctx) ELSE EncT(t.t0, v.v0, ctx)>>]
EncAlt(a, v) == FoldLeft(LAMBDA acc, f : Cat(acc, EncT(f.t, v[f.name], v)), Only(a.tag), a.fs)
\* canonical Patricia tree of a dictionary whose leaves are encoded values
DictTree(n, t, entries) ==
    LET mp == [key \in {entries[i].k : i \in 1..Len(entries)} |->
                 LET e == entries[CHOOSE i \in 1..Len(entries) : entries[i].k = key]
                     enc == EncT(t, e.v, e)
                 IN [v |-> enc.b, x |-> <<>>, r |-> enc.r]]
    IN EdgeP(mp, n, "canon", FALSE, 0, 0)
\* fork extras: alternately a fixed non-zero and the all-zero value of the extra's type (only CC, U(n) and single-alternative
\* record types of such leaves occur as extras in block.tlb)
ZeroV(t) == CASE t.k \in {"U", "I", "Bits", "Zero", "UMax"} -> [i \in 1..t.n |-> 0]
              [] t.k = "URange" -> NatBits(t.lo, t.n)
              [] t.k \in {"One", "UPos"} -> NatBits(1, t.n)
              [] t.k = "Leq" -> [i \in 1..BitLen(t.n) |-> 0]
              [] t.k = "Bool" -> <<0>>
              [] t.k \in {"VarU", "VarI"} -> <<>>
              [] t.k = "CC" -> [grams |-> <<>>, other |-> <<>>]
              [] t.k = "Named" -> LET a == Schema[t.nm][1] IN
                    [f \in {"c"} \cup {a.fs[i].name : i \in 1..Len(a.fs)} |->
                        IF f = "c" THEN a.c ELSE ZeroV(a.fs[CHOOSE i \in 1..Len(a.fs) : a.fs[i].name = f].t)]
ForkExtraV(t, d) ==
    IF d % 2 = 1 THEN ZeroV(t)
    ELSE CASE t.k \in {"U", "I", "Bits", "UPos"} -> [i \in 1..t.n |-> IF i % 2 = 1 THEN 1 ELSE 0]
           [] t.k \in {"Zero", "One", "UMax", "URange"} -> ZeroV(t)
           [] t.k = "Leq" -> NatBits(t.n, BitLen(t.n))
           [] t.k = "Bool" -> <<1>>
           [] t.k \in {"VarU", "VarI"} -> <<3, 9>>
           [] t.k = "CC" -> [grams |-> <<1, 44>>, other |-> <<[k |-> NatBits(11, 32), v |-> <<6>>]>>]
           [] t.k = "Named" -> LET a == Schema[t.nm][1] IN
                 [f \in {"c"} \cup {a.fs[i].name : i \in 1..Len(a.fs)} |->
                     IF f = "c" THEN a.c ELSE ForkExtraV(a.fs[CHOOSE i \in 1..Len(a.fs) : a.fs[i].name = f].t, d)]
Encode(nm, v) == EncT(Named(nm), v, v)
\* a value is a value of the type only if every cell of its encoding respects the cell limits
RECURSIVE TreeFits(_)
TreeFits(t) == Len(t.b) <= 1023 /\ Len(t.r) <= 4 /\ \A j \in 1..Len(t.r) : TreeFits(t.r[j])

\* ---- flatten: every leaf with its path and the abstract value a correct parser reports
Leaf(path, k, a) == [path |-> path, k |-> k, a |-> a]
BytesOrInt(bits) == IF Len(bits) % 8 = 0 /\ Len(bits) >= 16 THEN [bytes |-> BitsToBytes(bits)] ELSE [int |-> BigOfUBits(bits)]
BigOfBytes(bs) == [neg |-> 0, mag |-> StripLead(bs)]
BigOfSBytes(bs) == BigOfSBits(BytesToBits(bs))
RECURSIVE Leaves(_, _, _, _), Flat2R(_, _, _, _), BtLeaves(_)
\* the leaves of a binary tree, left to right
BtLeaves(v) == IF v.leaf # <<>> THEN v.leaf ELSE BtLeaves(v.kids[1]) \o BtLeaves(v.kids[2])
Leaves(t, v, ctx, path) ==
    CASE t.k \in {"U", "Leq", "Zero", "One", "UMax", "UPos", "URange"} -> <<Leaf(path, "U", [int |-> BigOfUBits(v)])>>
      [] t.k = "Unit" -> <<>>
      [] t.k = "Pick" -> IF ctx[t.fl] = <<1>> THEN Leaves(t.t1, v.v1, ctx, path) ELSE Leaves(t.t0, v.v0, ctx, path)
      [] t.k = "I" -> <<Leaf(path, t.k, [int |-> BigOfSBits(v)])>>
      [] t.k = "Bits" -> <<Leaf(path, t.k, BytesOrInt(v))>>
      [] t.k = "Bool" -> <<Leaf(path, t.k, [bool |-> v[1]])>>
      [] t.k = "VarU" -> <<Leaf(path, t.k, [int |-> BigOfBytes(v)])>>
      [] t.k = "VarI" -> <<Leaf(path, t.k, [int |-> BigOfSBytes(v)])>>
      [] t.k = "AddrInt" -> <<Leaf(path, t.k, [addr |-> [wc |-> BitsIntSmall(v.wc), hash |-> BitsToBytes(v.hash),
                                                           any |-> IF v.any = <<>> THEN <<>> ELSE <<[len |-> Len(v.any[1]), v |-> BigOfUBits(v.any[1])]>>]])>>
      [] t.k = "AddrExt" -> <<Leaf(path, t.k, IF v = <<>> THEN [none |-> 1] ELSE [ext |-> [len |-> Len(v[1]), v |-> BigOfUBits(v[1])]])>>
      [] t.k = "CC" -> <<Leaf(Append(path, "grams"), "VarU", [int |-> BigOfBytes(v.grams)]),
                         Leaf(Append(path, "other"), "Dict", [dict |-> [i \in 1..Len(v.other) |->
                                <<BigOfUBits(v.other[i].k), BigOfBytes(v.other[i].v)>>]])>>
      [] t.k = "Maybe" -> IF v = <<>> THEN <<Leaf(path, "None", [none |-> 1])>> ELSE Leaves(t.t, v[1], ctx, path)
      [] t.k = "Either" -> Leaves(IF v.side = 0 THEN t.l ELSE t.r, v.v, ctx, path)
      [] t.k = "Ref" -> Leaves(t.t, v, ctx, path)
      [] t.k \in {"RefCell", "AnyRest"} -> <<Leaf(path, "Cell", [cell |-> v])>>
      [] t.k = "RefAny" -> <<Leaf(path, "Present", [present |-> 1])>>
      [] t.k = "Named" ->
            LET a == AltOf(t.nm, v.c) IN
            FoldLeft(LAMBDA acc, f : acc \o Leaves(f.t, v[f.name], v, Append(path, f.name)),
                     <<Leaf(path, "Ctor", [ctor |-> v.c])>>, a.fs)
      [] t.k \in {"HmE", "Hm", "HmS"} ->
            <<Leaf(path, "Count", [count |-> Len(v)])>> \o Flat2R(t, v, path, 1)
      [] t.k = "BinTree" ->            \* reported as the list of its leaves (positions stand in for keys)
            LET ls == BtLeaves(v) IN
            <<Leaf(path, "Count", [count |-> Len(ls)])>>
            \o Flat2R([k |-> "Seq", t |-> t.t], [i \in 1..Len(ls) |-> [k |-> NatBits(i - 1, 16), v |-> ls[i]]], path, 1)
      [] t.k = "Lite" -> Leaves(t.t, v, ctx, path)
      [] t.k = "HmAug" ->
            LET es == v.es
                mpx == [key \in {es[i].k : i \in 1..Len(es)} |-> (es[CHOOSE i \in 1..Len(es) : es[i].k = key]).x]
                \* a value composed by the generator leaves the fork extras to ForkExtraV; a decoded value carries what was read
                post == IF v.post = <<>> THEN AugPost(mpx, t.n, [d \in 0..t.n |-> ForkExtraV(t.x, d)], 0) ELSE v.post
            IN <<Leaf(path, "Count", [count |-> Len(es)])>> \o Flat2R(t, es, path, 1)
               \o <<Leaf(path, "AugExtras", [extras |-> [j \in 1..Len(post) |-> Leaves(t.x, post[j], <<>>, <<>>)]])>>
      [] t.k = "HmAugE" ->           \* (the root extra rx is read by the library but not exposed: no leaf)
            IF v.es = <<>> THEN <<Leaf(path, "Count", [count |-> 0])>>
            ELSE Leaves([t EXCEPT !.k = "HmAug"], [es |-> v.es, post |-> v.post], ctx, path)
      [] t.k = "If" -> IF ctx[t.fl] = <<1>> THEN Leaves(t.t, v, ctx, path) ELSE <<Leaf(path, "None", [none |-> 1])>>
      [] t.k = "IfBit" -> IF FlagBit(ctx[t.fl], t.bit) = 1 THEN Leaves(t.t, v, ctx, path) ELSE <<Leaf(path, "None", [none |-> 1])>>
      [] t.k = "RefPick" -> IF ctx[t.fl] = <<1>> THEN Leaves(t.t1, v.v1, ctx, path) ELSE Leaves(t.t0, v.v0, ctx, path)
\* dictionary entries in the order given (ascending keys): a "#key" leaf followed by the leaves of the value
Flat2R(t, v, path, i) ==
    IF i > Len(v) THEN <<>>
    ELSE <<Leaf(Append(path, "#key"), "Key", [int |-> IF t.k = "HmS" THEN BigOfSBits(v[i].k) ELSE BigOfUBits(v[i].k)])>>
         \o Leaves(t.t, v[i].v, v[i], Append(path, "#val")) \o Flat2R(t, v, path, i + 1)
FlattenV(nm, v) == Leaves(Named(nm), v, v, <<>>)

\* ---- decoder: an independent reading of the same schema (parse direction).  A slice is [b |-> remaining bits,
\* r |-> remaining reference trees]; trees may carry t (exotic cell type, 0 / absent = ordinary).
\* Result [ok |-> FALSE] or [ok |-> TRUE, v |-> value, sl |-> rest].  Constraints of the schema are enforced
\* (Zero, UMax, Leq, UPos, tags); a referenced cell must be consumed exactly; exotic cells are not descended into.
HmAugE(n, t, x) == [k |-> "HmAugE", n |-> n, t |-> t, x |-> x]   \* HashmapAugE n T X: value [es, post, rx (root extra)]
SlOf(tree) == [b |-> tree.b, r |-> tree.r]
Bad == [ok |-> FALSE]
Good(v, sl) == [ok |-> TRUE, v |-> v, sl |-> sl]
TakeB(sl, n) == [b |-> SubSeq(sl.b, n + 1, Len(sl.b)), r |-> sl.r]
TakeR(sl, n) == [b |-> sl.b, r |-> SubSeq(sl.r, n + 1, Len(sl.r))]
EmptySl(sl) == sl.b = <<>> /\ sl.r = <<>>
IsExotic(tree) == "t" \in DOMAIN tree /\ tree.t # 0
DecBits(sl, n) == IF Len(sl.b) < n THEN Bad ELSE Good(SubSeq(sl.b, 1, n), TakeB(sl, n))
AllZero(bits) == \A i \in 1..Len(bits) : bits[i] = 0
\* comparisons on bit strings of equal length (values may exceed TLC's integers)
RECURSIVE BitsLeq(_, _)
BitsLeq(a, b) == IF a = <<>> THEN TRUE ELSE IF a[1] # b[1] THEN a[1] < b[1] ELSE BitsLeq(Tail(a), Tail(b))
RECURSIVE DecT(_, _, _), DecDict(_, _, _, _), DecAug(_, _, _, _)
ConsOk(a, v) == \A i \in 1..Len(a.cons) : BitsLeq(v[a.cons[i][1]], v[a.cons[i][2]])
DecFieldsRaw(a, sl0) ==
    FoldLeft(LAMBDA acc, f :
                IF ~acc.ok THEN acc
                ELSE LET d == DecT(f.t, acc.sl, acc.v) IN
                     IF ~d.ok THEN Bad ELSE Good(acc.v @@ (f.name :> d.v), d.sl),
             Good(("c" :> a.c), sl0), a.fs)
DecFields(a, sl0) ==
    LET d == DecFieldsRaw(a, sl0) IN IF d.ok /\ ConsOk(a, d.v) THEN d ELSE Bad
DecT(t, sl, ctx) ==
    CASE t.k \in {"U", "I", "Bits", "One"} -> DecBits(sl, t.n)
      [] t.k = "Unit" -> Good(<<>>, sl)
      [] t.k = "Bool" -> DecBits(sl, 1)
      [] t.k = "Zero" -> LET d == DecBits(sl, t.n) IN IF d.ok /\ AllZero(d.v) THEN d ELSE Bad
      [] t.k = "UPos" -> LET d == DecBits(sl, t.n) IN IF d.ok /\ ~AllZero(d.v) THEN d ELSE Bad
      [] t.k = "UMax" -> LET d == DecBits(sl, t.n) IN IF d.ok /\ BitsLeq(d.v, NatBits(t.m, t.n)) THEN d ELSE Bad
      [] t.k = "URange" -> LET d == DecBits(sl, t.n) IN
                           IF d.ok /\ BitsLeq(NatBits(t.lo, t.n), d.v) /\ BitsLeq(d.v, NatBits(t.hi, t.n)) THEN d ELSE Bad
      [] t.k = "Pick" -> LET one == ctx[t.fl] = <<1>>  d == DecT(IF one THEN t.t1 ELSE t.t0, sl, ctx) IN
                         IF ~d.ok THEN Bad ELSE Good(IF one THEN [v0 |-> <<>>, v1 |-> d.v] ELSE [v0 |-> d.v, v1 |-> <<>>], d.sl)
      [] t.k = "Leq" -> LET w == BitLen(t.n)  d == DecBits(sl, w) IN IF d.ok /\ BitsLeq(d.v, NatBits(t.n, w)) THEN d ELSE Bad
      [] t.k \in {"VarU", "VarI"} ->
            LET d == DecBits(sl, BitLen(t.n - 1)) IN
            IF ~d.ok THEN Bad
            ELSE LET e == DecBits(d.sl, 8 * BitsNat(d.v)) IN IF ~e.ok THEN Bad ELSE Good(BitsToBytes(e.v), e.sl)
      [] t.k = "AddrInt" ->
            LET d == DecBits(sl, 3) IN
            IF ~d.ok \/ SubSeq(d.v, 1, 2) # <<1, 0>> THEN Bad
            ELSE IF d.v[3] = 0
            THEN LET e == DecBits(d.sl, 264) IN
                 IF ~e.ok THEN Bad ELSE Good([wc |-> SubSeq(e.v, 1, 8), hash |-> SubSeq(e.v, 9, 264), any |-> <<>>], e.sl)
            ELSE LET dp == DecBits(d.sl, 5) IN
                 IF ~dp.ok \/ BitsNat(dp.v) < 1 \/ BitsNat(dp.v) > 30 THEN Bad
                 ELSE LET e == DecBits(dp.sl, BitsNat(dp.v) + 264)  n == BitsNat(dp.v) IN
                      IF ~e.ok THEN Bad
                      ELSE Good([wc |-> SubSeq(e.v, n + 1, n + 8), hash |-> SubSeq(e.v, n + 9, n + 264), any |-> <<SubSeq(e.v, 1, n)>>], e.sl)
      [] t.k = "AddrExt" ->
            LET d == DecBits(sl, 2) IN
            IF ~d.ok THEN Bad
            ELSE IF d.v = <<0, 0>> THEN Good(<<>>, d.sl)
            ELSE IF d.v # <<0, 1>> THEN Bad
            ELSE LET l == DecBits(d.sl, 9) IN
                 IF ~l.ok THEN Bad ELSE LET a == DecBits(l.sl, BitsNat(l.v)) IN IF ~a.ok THEN Bad ELSE Good(<<a.v>>, a.sl)
      [] t.k = "CC" ->
            LET g == DecT(VarU(16), sl, ctx) IN
            IF ~g.ok THEN Bad
            ELSE LET o == DecT(HmE(32, VarU(32)), g.sl, ctx) IN IF ~o.ok THEN Bad ELSE Good([grams |-> g.v, other |-> o.v], o.sl)
      [] t.k = "Maybe" ->
            LET d == DecBits(sl, 1) IN
            IF ~d.ok THEN Bad
            ELSE IF d.v = <<0>> THEN Good(<<>>, d.sl)
            ELSE LET e == DecT(t.t, d.sl, ctx) IN IF ~e.ok THEN Bad ELSE Good(<<e.v>>, e.sl)
      [] t.k = "Either" ->
            LET d == DecBits(sl, 1) IN
            IF ~d.ok THEN Bad
            ELSE LET e == DecT(IF d.v = <<0>> THEN t.l ELSE t.r, d.sl, ctx) IN
                 IF ~e.ok THEN Bad ELSE Good([side |-> d.v[1], v |-> e.v], e.sl)
      [] t.k = "Ref" ->
            IF sl.r = <<>> \/ IsExotic(sl.r[1]) THEN Bad
            ELSE LET d == DecT(t.t, SlOf(sl.r[1]), ctx) IN IF d.ok /\ EmptySl(d.sl) THEN Good(d.v, TakeR(sl, 1)) ELSE Bad
      [] t.k \in {"RefCell", "RefAny"} -> IF sl.r = <<>> THEN Bad ELSE Good(sl.r[1], TakeR(sl, 1))
      [] t.k = "AnyRest" -> Good([b |-> sl.b, r |-> sl.r], [b |-> <<>>, r |-> <<>>])
      [] t.k = "Lite" -> DecT(t.t, sl, ctx)
      [] t.k = "Named" ->
            LET as == Schema[t.nm]
                fit == {i \in 1..Len(as) : IsPrefixOf(as[i].tag, sl.b)} IN
            IF fit = {} THEN Bad
            ELSE LET a == as[CHOOSE i \in fit : \A j \in fit : Len(as[j].tag) <= Len(as[i].tag)] IN DecFields(a, TakeB(sl, Len(a.tag)))
      [] t.k = "HmE" ->
            LET d == DecBits(sl, 1) IN
            IF ~d.ok THEN Bad
            ELSE IF d.v = <<0>> THEN Good(<<>>, d.sl)
            ELSE IF d.sl.r = <<>> \/ IsExotic(d.sl.r[1]) THEN Bad
            ELSE LET e == DecDict(SlOf(d.sl.r[1]), t.n, <<>>, t.t) IN
                 IF e.ok /\ EmptySl(e.sl) THEN Good(e.v, TakeR(d.sl, 1)) ELSE Bad
      [] t.k \in {"Hm", "HmS"} -> DecDict(sl, t.n, <<>>, t.t)
      [] t.k = "BinTree" ->
            LET d == DecBits(sl, 1) IN
            IF ~d.ok THEN Bad
            ELSE IF d.v = <<0>> THEN LET e == DecT(t.t, d.sl, ctx) IN IF ~e.ok THEN Bad ELSE Good([leaf |-> <<e.v>>, kids |-> <<>>], e.sl)
            ELSE IF Len(d.sl.r) < 2 \/ IsExotic(d.sl.r[1]) \/ IsExotic(d.sl.r[2]) THEN Bad
            ELSE LET a == DecT(t, SlOf(d.sl.r[1]), ctx)  b == DecT(t, SlOf(d.sl.r[2]), ctx) IN
                 IF a.ok /\ b.ok /\ EmptySl(a.sl) /\ EmptySl(b.sl) THEN Good([leaf |-> <<>>, kids |-> <<a.v, b.v>>], TakeR(d.sl, 2)) ELSE Bad
      [] t.k = "HmAug" ->
            LET e == DecAug(sl, t.n, <<>>, t) IN IF ~e.ok THEN Bad ELSE Good([es |-> e.v, post |-> e.post], e.sl)
      [] t.k = "HmAugE" ->
            LET d == DecBits(sl, 1) IN
            IF ~d.ok THEN Bad
            ELSE IF d.v = <<0>> THEN LET x == DecT(t.x, d.sl, ctx) IN IF ~x.ok THEN Bad ELSE Good([es |-> <<>>, post |-> <<>>, rx |-> x.v], x.sl)
            ELSE IF d.sl.r = <<>> \/ IsExotic(d.sl.r[1]) THEN Bad
            ELSE LET e == DecAug(SlOf(d.sl.r[1]), t.n, <<>>, t) IN
                 IF ~(e.ok /\ EmptySl(e.sl)) THEN Bad
                 ELSE LET x == DecT(t.x, TakeR(d.sl, 1), ctx) IN
                      IF ~x.ok THEN Bad ELSE Good([es |-> e.v, post |-> e.post, rx |-> x.v], x.sl)
      [] t.k = "If" -> IF ctx[t.fl] = <<1>> THEN DecT(t.t, sl, ctx) ELSE Good(<<>>, sl)
      [] t.k = "IfBit" -> IF FlagBit(ctx[t.fl], t.bit) = 1 THEN DecT(t.t, sl, ctx) ELSE Good(<<>>, sl)
      [] t.k = "RefPick" ->
            IF sl.r = <<>> \/ IsExotic(sl.r[1]) THEN Bad
            ELSE LET one == ctx[t.fl] = <<1>>
                     d == DecT(IF one THEN t.t1 ELSE t.t0, SlOf(sl.r[1]), ctx) IN
                 IF d.ok /\ EmptySl(d.sl) THEN Good(IF one THEN [v0 |-> <<>>, v1 |-> d.v] ELSE [v0 |-> d.v, v1 |-> <<>>], TakeR(sl, 1)) ELSE Bad
\* hm_edge: label, then hmn_leaf (value) when no key bits remain, else hmn_fork (two references).  Any label kind.
DecDict(sl, m, pfx, t) ==
    LET L == ReadLabel(sl.b, m) IN
    IF ~L.ok THEN Bad
    ELSE LET p == pfx \o L.s  m2 == m - L.n  rest == TakeB(sl, L.used) IN
    IF m2 = 0 THEN LET d == DecT(t, rest, <<>>) IN IF ~d.ok THEN Bad ELSE Good(<<[k |-> p, v |-> d.v]>>, d.sl)
    ELSE IF Len(rest.r) < 2 \/ IsExotic(rest.r[1]) \/ IsExotic(rest.r[2]) THEN Bad
    ELSE LET a == DecDict(SlOf(rest.r[1]), m2 - 1, Append(p, 0), t)
             b == DecDict(SlOf(rest.r[2]), m2 - 1, Append(p, 1), t) IN
         IF a.ok /\ b.ok /\ EmptySl(a.sl) /\ EmptySl(b.sl) THEN Good(a.v \o b.v, TakeR(rest, 2)) ELSE Bad
\* ahm_edge: label; ahmn_leaf extra:Y value:X; ahmn_fork left:^ right:^ extra:Y.  post = extras in depth-first order.
DecAug(sl, m, pfx, t) ==
    LET L == ReadLabel(sl.b, m) IN
    IF ~L.ok THEN Bad
    ELSE LET p == pfx \o L.s  m2 == m - L.n  rest == TakeB(sl, L.used) IN
    IF m2 = 0
    THEN LET x == DecT(t.x, rest, <<>>) IN
         IF ~x.ok THEN Bad
         ELSE LET d == DecT(t.t, x.sl, <<>>) IN
              IF ~d.ok THEN Bad ELSE [ok |-> TRUE, v |-> <<[k |-> p, v |-> d.v, x |-> x.v]>>, post |-> <<x.v>>, sl |-> d.sl]
    ELSE IF Len(rest.r) < 2 \/ IsExotic(rest.r[1]) \/ IsExotic(rest.r[2]) THEN Bad
    ELSE LET a == DecAug(SlOf(rest.r[1]), m2 - 1, Append(p, 0), t)
             b == DecAug(SlOf(rest.r[2]), m2 - 1, Append(p, 1), t) IN
         IF ~(a.ok /\ b.ok /\ EmptySl(a.sl) /\ EmptySl(b.sl)) THEN Bad
         ELSE LET x == DecT(t.x, TakeR(rest, 2), <<>>) IN
              IF ~x.ok THEN Bad ELSE [ok |-> TRUE, v |-> a.v \o b.v, post |-> a.post \o b.post \o <<x.v>>, sl |-> x.sl]
\* a cell holding exactly one value of the named type
Decode(nm, tree) == LET d == DecT(Named(nm), SlOf(tree), <<>>) IN IF d.ok /\ EmptySl(d.sl) THEN d ELSE Bad

\* ---- tags of a type are prefix-free (a parser can decide the alternative)
TagsPrefixFree(nm) == \A i, j \in 1..Len(Schema[nm]) : i # j => ~IsPrefixOf(Schema[nm][i].tag, Schema[nm][j].tag)
=============================================================================
