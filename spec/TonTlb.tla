------------------------------- MODULE TonTlb -------------------------------
(* A TL-B interpreter: schemas are data, one generic encoder, a flattener     *)
(* that lists every leaf of a value with the ABSTRACT value a parser must     *)
(* report for it, and a one-factor-at-a-time boundary value generator.        *)
(*                                                                            *)
(* Schema : [TypeName |-> <<Alt(ctor, tag bits, <<F(field, kind), ...>>)>>]   *)
(* kinds  : U(n) I(n) Bits(n) Bool VarU(n) VarI(n) Leq(n) Grams AddrInt       *)
(*          AddrExt CC Maybe(t) Either(l, r) Ref(t) RefCell AnyRest Named(nm) *)
(*          HmE(n, t) Hm(n, t) If(flag field, t) IfBit(flags field, bit, t)   *)
(*          RefPick(flag field, t0, t1)                                       *)
(* values : records [c |-> ctor, field |-> value]; integers and bit strings   *)
(*          are bit sequences; VarU/VarI/Grams are byte sequences (the        *)
(*          payload, possibly non-minimal); Maybe is <<>> or <<v>>; cells     *)
(*          are trees [b |-> bits, r |-> <<trees>>]; dictionaries are         *)
(*          sequences of [k |-> key bits, v |-> value].                       *)
EXTENDS TonBits, TonHashmap
CONSTANT Schema

U(n) == [k |-> "U", n |-> n]
I(n) == [k |-> "I", n |-> n]
Bits(n) == [k |-> "Bits", n |-> n]
Zero(n) == [k |-> "Zero", n |-> n]            \* n-bit field constrained to 0 by the schema
One(n) == [k |-> "One", n |-> n]              \* n-bit field held at 1 (keeps { main >= 1 }-style constraints true)
UMax(n, m) == [k |-> "UMax", n |-> n, m |-> m]   \* n-bit field with { field <= m }
UPos(n) == [k |-> "UPos", n |-> n]            \* n-bit field with { field >= 1 }
Bool == [k |-> "Bool"]
VarU(n) == [k |-> "VarU", n |-> n]            \* VarUInteger n: length field of BitLen(n - 1) bits, then that many bytes
VarI(n) == [k |-> "VarI", n |-> n]
Grams == [k |-> "VarU", n |-> 16]
Leq(n) == [k |-> "Leq", n |-> n]              \* #<= n
AddrInt == [k |-> "AddrInt"]                  \* addr_std$10 without anycast: value [wc (8 bits), hash (256 bits)]
AddrExt == [k |-> "AddrExt"]                  \* addr_none$00 | addr_extern$01 len:(## 9) bits: value <<>> or <<bits>>
CC == [k |-> "CC"]                            \* CurrencyCollection: [grams (bytes), other (seq of [k (32 bits), v (bytes)])]
Maybe(t) == [k |-> "Maybe", t |-> t]
Either(l, r) == [k |-> "Either", l |-> l, r |-> r]   \* value [side |-> 0 / 1, v]
Ref(t) == [k |-> "Ref", t |-> t]
RefCell == [k |-> "RefCell"]                  \* ^Cell, opaque
AnyRest == [k |-> "AnyRest"]                  \* X = Any at the end of a cell: the rest of the bits and references
Named(nm) == [k |-> "Named", nm |-> nm]
HmE(n, t) == [k |-> "HmE", n |-> n, t |-> t]  \* HashmapE n T
Hm(n, t) == [k |-> "Hm", n |-> n, t |-> t]    \* Hashmap n T (non-empty, inline)
If(fl, t) == [k |-> "If", fl |-> fl, t |-> t]                      \* fl?T with fl a one-bit field
IfBit(fl, bit, t) == [k |-> "IfBit", fl |-> fl, bit |-> bit, t |-> t]   \* flags . bit?T
RefPick(fl, t0, t1) == [k |-> "RefPick", fl |-> fl, t0 |-> t0, t1 |-> t1]  \* ^(T fl)
Lite(t) == [k |-> "Lite", t |-> t]            \* same encoding as t; the value generator does not expand variations below it (t is varied on its own)
HmAug(n, t, x) == [k |-> "HmAug", n |-> n, t |-> t, x |-> x]   \* HashmapAug n T X (non-empty, inline); entries [k, v, x]; fork extras: see ForkExtra
F(name, t) == [name |-> name, t |-> t]
Alt(cn, tag, fs) == [c |-> cn, tag |-> tag, fs |-> fs]

ByteBits(bs) == BytesToBits(bs)
Cat(a, b) == [b |-> a.b \o b.b, r |-> a.r \o b.r]
Only(bits) == [b |-> bits, r |-> <<>>]
AltOf(nm, cn) == LET as == Schema[nm] IN as[CHOOSE i \in 1..Len(as) : as[i].c = cn]
FlagBit(bits, bit) == bits[Len(bits) - bit]               \* bit number `bit` (LSB = 0) of a bit sequence

\* ---- encoder: value -> cell contribution [b, r]
\* augmented dictionaries: ahm_edge label node; ahmn_leaf extra:Y value:X; ahmn_fork left:^ right:^ extra:Y.
\* mp : key bits -> [v |-> [b, r], x |-> [b, r]] (encoded value / extra); fx : depth -> encoded extra of a fork at that depth.
\* TL-B does not say how a fork's extra is computed (block.tlb describes it in comments); a parser must read whatever is there.
RECURSIVE AugTree(_, _, _, _), AugPost(_, _, _, _)
AugTree(mp, m, fx, depth) ==
    LET ks == DOMAIN mp  lab == Lcp(ks)  l == Len(lab)
        lbits == LabelEnc(RefKind(l, m, l > 0 /\ AllSame(lab)), lab, m)
    IN IF l = m THEN [b |-> lbits \o mp[lab].x.b \o mp[lab].v.b, r |-> mp[lab].x.r \o mp[lab].v.r]
       ELSE [b |-> lbits \o fx[depth].b,
             r |-> <<AugTree(SubMap(mp, l, m, 0), m - l - 1, fx, depth + 1), AugTree(SubMap(mp, l, m, 1), m - l - 1, fx, depth + 1)>> \o fx[depth].r]
\* the extras in the order a depth-first parser meets them: left subtree, right subtree, then the fork's own (mp : key -> leaf extra, any value)
AugPost(mp, m, fx, depth) ==
    LET ks == DOMAIN mp  lab == Lcp(ks)  l == Len(lab)
    IN IF l = m THEN <<mp[lab]>>
       ELSE AugPost(SubMap(mp, l, m, 0), m - l - 1, fx, depth + 1) \o AugPost(SubMap(mp, l, m, 1), m - l - 1, fx, depth + 1) \o <<fx[depth]>>
RECURSIVE EncT(_, _, _), EncAlt(_, _), DictTree(_, _, _), ForkExtraV(_, _), ZeroV(_)
\* ctx = the record the field lives in (for conditional fields)
EncT(t, v, ctx) ==
    CASE t.k \in {"U", "I", "Bits", "Bool", "Leq", "Zero", "One", "UMax", "UPos"} -> Only(v)
      [] t.k \in {"VarU", "VarI"} -> Only(NatBits(Len(v), BitLen(t.n - 1)) \o ByteBits(v))
      [] t.k = "AddrInt" -> Only(<<1, 0, 0>> \o v.wc \o v.hash)
      [] t.k = "AddrExt" -> IF v = <<>> THEN Only(<<0, 0>>) ELSE Only(<<0, 1>> \o NatBits(Len(v[1]), 9) \o v[1])
      [] t.k = "CC" -> Cat(Only(NatBits(Len(v.grams), 4) \o ByteBits(v.grams)),
                           EncT(HmE(32, VarU(32)), v.other, ctx))
      [] t.k = "Maybe" -> IF v = <<>> THEN Only(<<0>>) ELSE Cat(Only(<<1>>), EncT(t.t, v[1], ctx))
      [] t.k = "Either" -> IF v.side = 0 THEN Cat(Only(<<0>>), EncT(t.l, v.v, ctx)) ELSE Cat(Only(<<1>>), EncT(t.r, v.v, ctx))
      [] t.k = "Ref" -> [b |-> <<>>, r |-> <<EncT(t.t, v, ctx)>>]
      [] t.k = "RefCell" -> [b |-> <<>>, r |-> <<v>>]
      [] t.k = "AnyRest" -> v
      [] t.k = "Named" -> EncAlt(AltOf(t.nm, v.c), v)
      [] t.k = "HmE" -> IF v = <<>> THEN Only(<<0>>) ELSE [b |-> <<1>>, r |-> <<DictTree(t.n, t.t, v)>>]
      [] t.k = "Hm" -> DictTree(t.n, t.t, v)
      [] t.k = "Lite" -> EncT(t.t, v, ctx)
      [] t.k = "HmAug" ->
            LET mp == [key \in {v[i].k : i \in 1..Len(v)} |->
                         LET e == v[CHOOSE i \in 1..Len(v) : v[i].k = key]
                         IN [v |-> EncT(t.t, e.v, e), x |-> EncT(t.x, e.x, e)]]
            IN AugTree(mp, t.n, [d \in 0..t.n |-> EncT(t.x, ForkExtraV(t.x, d), <<>>)], 0)
      [] t.k = "If" -> IF ctx[t.fl] = <<1>> THEN EncT(t.t, v, ctx) ELSE Only(<<>>)
      [] t.k = "IfBit" -> IF FlagBit(ctx[t.fl], t.bit) = 1 THEN EncT(t.t, v, ctx) ELSE Only(<<>>)
      [] t.k = "RefPick" -> [b |-> <<>>, r |-> <<IF ctx[t.fl] = <<1>> THEN EncT(t.t1, v.v1, ctx) ELSE EncT(t.t0, v.v0, ctx)>>]
EncAlt(a, v) == FoldLeft(LAMBDA acc, f : Cat(acc, EncT(f.t, v[f.name], v)), Only(a.tag), a.fs)
\* canonical Patricia tree of a dictionary whose leaves are encoded values
DictTree(n, t, entries) ==
    LET mp == [key \in {entries[i].k : i \in 1..Len(entries)} |->
                 LET e == entries[CHOOSE i \in 1..Len(entries) : entries[i].k = key]
                     enc == EncT(t, e.v, e)
                 IN [v |-> enc.b, x |-> <<>>, r |-> enc.r]]
    IN EdgeP(mp, n, "canon", FALSE, 0, 0)
\* fork extras: alternately a fixed non-zero and the all-zero value of the extra's type (only CC, U(n) and single-alternative
\* record types of such leaves occur as extras in block.tlb)
ZeroV(t) == CASE t.k \in {"U", "I", "Bits"} -> [i \in 1..t.n |-> 0]
              [] t.k = "Bool" -> <<0>>
              [] t.k \in {"VarU", "VarI"} -> <<>>
              [] t.k = "CC" -> [grams |-> <<>>, other |-> <<>>]
              [] t.k = "Named" -> LET a == Schema[t.nm][1] IN
                    [f \in {"c"} \cup {a.fs[i].name : i \in 1..Len(a.fs)} |->
                        IF f = "c" THEN a.c ELSE ZeroV(a.fs[CHOOSE i \in 1..Len(a.fs) : a.fs[i].name = f].t)]
ForkExtraV(t, d) ==
    IF d % 2 = 1 THEN ZeroV(t)
    ELSE CASE t.k \in {"U", "I", "Bits"} -> [i \in 1..t.n |-> IF i % 2 = 1 THEN 1 ELSE 0]
           [] t.k = "Bool" -> <<1>>
           [] t.k \in {"VarU", "VarI"} -> <<3, 9>>
           [] t.k = "CC" -> [grams |-> <<1, 44>>, other |-> <<[k |-> NatBits(11, 32), v |-> <<6>>]>>]
           [] t.k = "Named" -> LET a == Schema[t.nm][1] IN
                 [f \in {"c"} \cup {a.fs[i].name : i \in 1..Len(a.fs)} |->
                     IF f = "c" THEN a.c ELSE ForkExtraV(a.fs[CHOOSE i \in 1..Len(a.fs) : a.fs[i].name = f].t, d)]
Encode(nm, v) == EncT(Named(nm), v, v)
\* a value is a value of the type only if every cell of its encoding respects the cell limits
RECURSIVE TreeFits(_)
TreeFits(t) == Len(t.b) <= 1023 /\ Len(t.r) <= 4 /\ \A j \in 1..Len(t.r) : TreeFits(t.r[j])

\* ---- flatten: every leaf with its path and the abstract value a correct parser reports
Leaf(path, k, a) == [path |-> path, k |-> k, a |-> a]
BytesOrInt(bits) == IF Len(bits) % 8 = 0 /\ Len(bits) >= 16 THEN [bytes |-> BitsToBytes(bits)] ELSE [int |-> BigOfUBits(bits)]
BigOfBytes(bs) == [neg |-> 0, mag |-> StripLead(bs)]
BigOfSBytes(bs) == BigOfSBits(BytesToBits(bs))
RECURSIVE Leaves(_, _, _, _), Flat2R(_, _, _, _)
Leaves(t, v, ctx, path) ==
    CASE t.k \in {"U", "Leq", "Zero", "One", "UMax", "UPos"} -> <<Leaf(path, "U", [int |-> BigOfUBits(v)])>>
      [] t.k = "I" -> <<Leaf(path, t.k, [int |-> BigOfSBits(v)])>>
      [] t.k = "Bits" -> <<Leaf(path, t.k, BytesOrInt(v))>>
      [] t.k = "Bool" -> <<Leaf(path, t.k, [bool |-> v[1]])>>
      [] t.k = "VarU" -> <<Leaf(path, t.k, [int |-> BigOfBytes(v)])>>
      [] t.k = "VarI" -> <<Leaf(path, t.k, [int |-> BigOfSBytes(v)])>>
      [] t.k = "AddrInt" -> <<Leaf(path, t.k, [addr |-> [wc |-> BitsIntSmall(v.wc), hash |-> BitsToBytes(v.hash)]])>>
      [] t.k = "AddrExt" -> <<Leaf(path, t.k, IF v = <<>> THEN [none |-> 1] ELSE [ext |-> [len |-> Len(v[1]), v |-> BigOfUBits(v[1])]])>>
      [] t.k = "CC" -> <<Leaf(Append(path, "grams"), "VarU", [int |-> BigOfBytes(v.grams)]),
                         Leaf(Append(path, "other"), "Dict", [dict |-> [i \in 1..Len(v.other) |->
                                <<BigOfUBits(v.other[i].k), BigOfBytes(v.other[i].v)>>]])>>
      [] t.k = "Maybe" -> IF v = <<>> THEN <<Leaf(path, "None", [none |-> 1])>> ELSE Leaves(t.t, v[1], ctx, path)
      [] t.k = "Either" -> Leaves(IF v.side = 0 THEN t.l ELSE t.r, v.v, ctx, path)
      [] t.k = "Ref" -> Leaves(t.t, v, ctx, path)
      [] t.k \in {"RefCell", "AnyRest"} -> <<Leaf(path, "Cell", [cell |-> v])>>
      [] t.k = "Named" ->
            LET a == AltOf(t.nm, v.c) IN
            FoldLeft(LAMBDA acc, f : acc \o Leaves(f.t, v[f.name], v, Append(path, f.name)),
                     <<Leaf(path, "Ctor", [ctor |-> v.c])>>, a.fs)
      [] t.k \in {"HmE", "Hm"} ->
            <<Leaf(path, "Count", [count |-> Len(v)])>> \o Flat2R(t, v, path, 1)
      [] t.k = "Lite" -> Leaves(t.t, v, ctx, path)
      [] t.k = "HmAug" ->
            LET mpx == [key \in {v[i].k : i \in 1..Len(v)} |-> (v[CHOOSE i \in 1..Len(v) : v[i].k = key]).x]
                post == AugPost(mpx, t.n, [d \in 0..t.n |-> ForkExtraV(t.x, d)], 0)
            IN <<Leaf(path, "Count", [count |-> Len(v)])>> \o Flat2R(t, v, path, 1)
               \o <<Leaf(path, "AugExtras", [extras |-> [j \in 1..Len(post) |-> Leaves(t.x, post[j], <<>>, <<>>)]])>>
      [] t.k = "If" -> IF ctx[t.fl] = <<1>> THEN Leaves(t.t, v, ctx, path) ELSE <<Leaf(path, "None", [none |-> 1])>>
      [] t.k = "IfBit" -> IF FlagBit(ctx[t.fl], t.bit) = 1 THEN Leaves(t.t, v, ctx, path) ELSE <<Leaf(path, "None", [none |-> 1])>>
      [] t.k = "RefPick" -> IF ctx[t.fl] = <<1>> THEN Leaves(t.t1, v.v1, ctx, path) ELSE Leaves(t.t0, v.v0, ctx, path)
\* dictionary entries in the order given (ascending keys): a "#key" leaf followed by the leaves of the value
Flat2R(t, v, path, i) ==
    IF i > Len(v) THEN <<>>
    ELSE <<Leaf(Append(path, "#key"), "Key", [int |-> BigOfUBits(v[i].k)])>>
         \o Leaves(t.t, v[i].v, v[i], Append(path, "#val")) \o Flat2R(t, v, path, i + 1)
FlattenV(nm, v) == Leaves(Named(nm), v, v, <<>>)

\* ---- tags of a type are prefix-free (a parser can decide the alternative)
IsPrefixOf(a, b) == Len(a) <= Len(b) /\ SubSeq(b, 1, Len(a)) = a
TagsPrefixFree(nm) == \A i, j \in 1..Len(Schema[nm]) : i # j => ~IsPrefixOf(Schema[nm][i].tag, Schema[nm][j].tag)
=============================================================================
