-------------------------------- MODULE TonVm --------------------------------
(* TVM stack values (C17): the VmStack / VmStackValue / VmTuple / VmCont       *)
(* schemas of block.tlb as an encoder over abstract values.                    *)
(*   value: [k |-> "null"], [k |-> "int", v (big integer)], [k |-> "cell", t], *)
(*          [k |-> "slice", t] (t = the slice's remaining data as a cell),     *)
(*          [k |-> "builder", t], [k |-> "tuple", v (sequence of values)],     *)
(*          [k |-> "cont", c (constructor), ...fields]                         *)
(*   trees: [b |-> bits, r |-> <<trees>>]                                      *)
EXTENDS TonHashmap
Cat(a, b) == [b |-> a.b \o b.b, r |-> a.r \o b.r]
Only(bits) == [b |-> bits, r |-> <<>>]
RefTo(t) == [b |-> <<>>, r |-> <<t>>]
Tag8(x) == NatBits(x, 8)
Fits64(x) == BigSFits(x, 64)
Fits257(x) == BigSFits(x, 257)

RECURSIVE EncValue(_), EncTuple(_), EncTupleRef(_), EncCont(_), EncStackList(_), EncCtl(_), EncStack(_)
\* vm_ctl_data$_ nargs:(Maybe uint13) stack:(Maybe VmStack) save:VmSaveList cp:(Maybe int16)
\*   value [nargs |-> <<>> or <<big>>, stack |-> <<>> or <<values>>, save |-> sequence of [k |-> 0..15, v |-> value], cp |-> <<>> or <<big>>]
\*   _ cregs:(HashmapE 4 VmStackValue) = VmSaveList;
NoCtl == [nargs |-> <<>>, stack |-> <<>>, save |-> <<>>, cp |-> <<>>]
CtlOf(c) == IF "cdata" \in DOMAIN c THEN c.cdata ELSE NoCtl
SaveTree(save) ==
    LET mp == [key \in {NatBits(save[i].k, 4) : i \in 1..Len(save)} |->
                 LET e == save[CHOOSE i \in 1..Len(save) : NatBits(save[i].k, 4) = key]
                     enc == EncValue(e.v)
                 IN [v |-> enc.b, x |-> <<>>, r |-> enc.r]]
    IN EdgeP(mp, 4, "canon", FALSE, 0, 0)
EncCtl(d) ==
    Cat(Cat(Cat(IF d.nargs = <<>> THEN Only(<<0>>) ELSE Only(<<1>> \o BigUBits(d.nargs[1], 13)),
                IF d.stack = <<>> THEN Only(<<0>>) ELSE Cat(Only(<<1>>), EncStack(d.stack[1]))),
            IF d.save = <<>> THEN Only(<<0>>) ELSE [b |-> <<1>>, r |-> <<SaveTree(d.save)>>]),
        IF d.cp = <<>> THEN Only(<<0>>) ELSE Only(<<1>> \o BigSBits(d.cp[1], 16)))
\* _ cell:^Cell st_bits:(## 10) end_bits:(## 10) st_ref:(#<= 4) end_ref:(#<= 4) = VmCellSlice;
\* canonical form: the slice's remaining data is the whole referenced cell
EncCellSlice(t) == Cat(RefTo(t), Only(NatBits(0, 10) \o NatBits(Len(t.b), 10) \o NatBits(0, 3) \o NatBits(Len(t.r), 3)))
\* any window [sb, eb) x [sr, er) of a cell t denotes the slice whose remaining data is that window
EncCellSliceWin(t, sb, eb, sr, er) == Cat(RefTo(t), Only(NatBits(sb, 10) \o NatBits(eb, 10) \o NatBits(sr, 3) \o NatBits(er, 3)))
Window(t, sb, eb, sr, er) == [b |-> SubSeq(t.b, sb + 1, eb), r |-> SubSeq(t.r, sr + 1, er)]
EncValue(v) ==
    CASE v.k = "null" -> Only(Tag8(0))
      [] v.k = "int" -> IF Fits64(v.v) THEN Only(Tag8(1) \o BigSBits(v.v, 64))                       \* vm_stk_tinyint#01
                        ELSE Only(<<0, 0, 0, 0, 0, 0, 1, 0, 0, 0, 0, 0, 0, 0, 0>> \o BigSBits(v.v, 257))   \* vm_stk_int#0201_
      [] v.k = "cell" -> Cat(Only(Tag8(3)), RefTo(v.t))
      [] v.k = "slice" -> Cat(Only(Tag8(4)), EncCellSlice(v.t))
      [] v.k = "slicewin" -> Cat(Only(Tag8(4)), EncCellSliceWin(v.t, v.sb, v.eb, v.sr, v.er))   \* non-canonical window (parse direction only)
      [] v.k = "builder" -> Cat(Only(Tag8(5)), RefTo(v.t))
      [] v.k = "cont" -> Cat(Only(Tag8(6)), EncCont(v))
      [] v.k = "tuple" -> Cat(Only(Tag8(7) \o NatBits(Len(v.v), 16)), EncTuple(v.v))
\* vm_tuple_nil / vm_tuple_tcons head:(VmTupleRef n) tail:^VmStackValue
EncTuple(vals) == IF vals = <<>> THEN Only(<<>>)
                  ELSE Cat(EncTupleRef(SubSeq(vals, 1, Len(vals) - 1)), RefTo(EncValue(vals[Len(vals)])))
\* vm_tupref_nil / _single entry:^VmStackValue / _any ref:^(VmTuple (n + 2))
EncTupleRef(vals) == IF vals = <<>> THEN Only(<<>>)
                     ELSE IF Len(vals) = 1 THEN RefTo(EncValue(vals[1]))
                     ELSE RefTo(EncTuple(vals))
EncCont(c) ==
    CASE c.c = "vmc_std" -> Cat(Cat(Only(<<0, 0>>), EncCtl(CtlOf(c))), EncCellSlice(c.code))
      [] c.c = "vmc_envelope" -> Cat(Cat(Only(<<0, 1>>), EncCtl(CtlOf(c))), RefTo(EncCont(c.next)))
      [] c.c = "vmc_quit" -> Only(<<1, 0, 0, 0>> \o BigSBits(c.exit_code, 32))
      [] c.c = "vmc_quit_exc" -> Only(<<1, 0, 0, 1>>)
      [] c.c = "vmc_repeat" -> Cat(Cat(Only(<<1, 0, 1, 0, 0>> \o BigUBits(c.count, 63)), RefTo(EncCont(c.body))), RefTo(EncCont(c.after)))
      [] c.c = "vmc_until" -> Cat(Cat(Only(<<1, 1, 0, 0, 0, 0>>), RefTo(EncCont(c.body))), RefTo(EncCont(c.after)))
      [] c.c = "vmc_again" -> Cat(Only(<<1, 1, 0, 0, 0, 1>>), RefTo(EncCont(c.body)))
      [] c.c = "vmc_while_cond" -> Cat(Cat(Cat(Only(<<1, 1, 0, 0, 1, 0>>), RefTo(EncCont(c.cond))), RefTo(EncCont(c.body))), RefTo(EncCont(c.after)))
      [] c.c = "vmc_while_body" -> Cat(Cat(Cat(Only(<<1, 1, 0, 0, 1, 1>>), RefTo(EncCont(c.cond))), RefTo(EncCont(c.body))), RefTo(EncCont(c.after)))
      [] c.c = "vmc_pushint" -> Cat(Only(<<1, 1, 1, 1>> \o BigSBits(c.value, 32)), RefTo(EncCont(c.next)))
\* vm_stk_nil / vm_stk_cons rest:^(VmStackList n) tos:VmStackValue ; the LAST element of the list is the top of the stack
EncStackList(vals) == IF vals = <<>> THEN Only(<<>>)
                      ELSE Cat(RefTo(EncStackList(SubSeq(vals, 1, Len(vals) - 1))), EncValue(vals[Len(vals)]))
EncStack(vals) == Cat(Only(NatBits(Len(vals), 24)), EncStackList(vals))

\* the value a parser reports for an encoded value: a windowed slice is just the slice of its window
RECURSIVE Norm(_)
Norm(v) == CASE v.k = "slicewin" -> [k |-> "slice", t |-> Window(v.t, v.sb, v.eb, v.sr, v.er)]
             [] v.k = "tuple" -> [k |-> "tuple", v |-> [i \in 1..Len(v.v) |-> Norm(v.v[i])]]
             [] OTHER -> v
\* total structural equality of observed values: TLC raises an error when it compares values of different shapes (a
\* record with a sequence), and a broken parser may well return a value of the wrong kind where another is expected
RECURSIVE SameVal(_, _), SameSeq(_, _), SameCtl(_, _)
SameSeq(x, y) == Len(x) = Len(y) /\ \A i \in 1..Len(x) : SameVal(x[i], y[i])
SameOpt(x, y) == Len(x) = Len(y) /\ (Len(x) = 0 \/ (DOMAIN x[1] = DOMAIN y[1] /\ x[1] = y[1]))      \* <<>> or <<big integer>>
SameCtl(a, b) ==
    /\ DOMAIN a = DOMAIN b /\ DOMAIN a = {"nargs", "stack", "save", "cp"}
    /\ SameOpt(a.nargs, b.nargs) /\ SameOpt(a.cp, b.cp)
    /\ Len(a.stack) = Len(b.stack) /\ (Len(a.stack) = 0 \/ SameSeq(a.stack[1], b.stack[1]))
    /\ Len(a.save) = Len(b.save)
    /\ \A i \in 1..Len(a.save) : DOMAIN a.save[i] = DOMAIN b.save[i] /\ DOMAIN a.save[i] = {"k", "v"}
                                   /\ a.save[i].k = b.save[i].k /\ SameVal(a.save[i].v, b.save[i].v)
SameVal(a, b) ==
    /\ DOMAIN a = DOMAIN b
    /\ a.k = b.k
    /\ CASE a.k = "tuple" -> SameSeq(a.v, b.v)
         [] a.k = "cont" ->
               /\ a.c = b.c
               /\ \A f \in DOMAIN a \ {"k", "c"} :
                     IF f \in {"next", "body", "after", "cond"} THEN SameVal(a[f], b[f])
                     ELSE IF f = "cdata" THEN SameCtl(a[f], b[f])
                     ELSE a[f] = b[f]                          \* big integers and cell trees: same field, same shape
         [] OTHER -> a = b                                     \* same kind and fields: same shape
\* a stack is representable iff every cell of its encoding respects the cell limits (everything is inline by schema,
\* so e.g. a continuation with saved stack, saved registers and code below another stack entry needs 5 references)
RECURSIVE TreeFits(_)
TreeFits(t) == Len(t.b) <= 1023 /\ Len(t.r) <= 4 /\ \A j \in 1..Len(t.r) : TreeFits(t.r[j])
Representable(vals) == TreeFits(EncStack(vals))
RECURSIVE ValueOk(_)
ValueOk(v) == CASE v.k = "int" -> Fits257(v.v)
                [] v.k = "tuple" -> Len(v.v) < 65536 /\ \A i \in 1..Len(v.v) : ValueOk(v.v[i])
                [] OTHER -> TRUE
=============================================================================
