-------------------------------- MODULE TonTL --------------------------------
(* The TL binary serialisation used by TON (lite-server, node and ADNL        *)
(* schemas): little-endian constructor ids and integers, length-prefixed and  *)
(* 4-byte padded strings, vectors, flag-conditional fields, bare and boxed    *)
(* objects.  Schemas are data (a sequence of constructor records):            *)
(*   [name, cls, decl (ASCII of the declaration), xid (explicit id or <<>>),  *)
(*    fields: Seq([n (ASCII name), t (type), c (<<>> or <<flag field index,   *)
(*    bit, ASCII flag field name>>)])]                                        *)
(*   types: [k |-> "int" | "long" | "nat" | "Bool" | "int128" | "int256" |    *)
(*          "string" | "bytes" | "true"], [k |-> "vector", of], [k |-> "bare",*)
(*          n], [k |-> "boxed", cls]                                          *)
(* Values: [c |-> constructor name, f |-> field values]; an optional field    *)
(* is <<>> when absent and <<v>> when present; integers are TonBits big       *)
(* integers, Bool 0/1, text and int128/int256 byte sequences, vectors         *)
(* sequences; a bytes value is [raw |-> bytes] or [obj |-> boxed values] (a   *)
(* bytes field that carries serialised TL objects, as ADNL queries do).       *)
EXTENDS TonBits, TonCrc
CONSTANT Schemas

ByName == [nm \in {Schemas[i].name : i \in 1..Len(Schemas)} |-> Schemas[CHOOSE i \in 1..Len(Schemas) : Schemas[i].name = nm]]

\* ---- constructor id = CRC-32/IEEE of the declaration without ';', '(' and ')' (whitespace collapsed)
Ascii(s) == s
NormDecl(d) == LET noparen == SelectSeq(d, LAMBDA ch : ch \notin {40, 41, 59})
               IN FoldLeft(LAMBDA acc, ch : IF ch = 32 /\ (acc = <<>> \/ acc[Len(acc)] = 32) THEN acc ELSE Append(acc, ch), <<>>, noparen)
Trim(s) == IF s # <<>> /\ s[Len(s)] = 32 THEN SubSeq(s, 1, Len(s) - 1) ELSE s
IdBE(s) == IF s.xid # <<>> THEN s.xid ELSE Crc32BE(Trim(NormDecl(s.decl)))
IdLEOf(s) == RevSeq(IdBE(s))
Ids == [nm \in DOMAIN ByName |-> IdLEOf(ByName[nm])]

\* ---- rendering a structured schema back to its declaration text (guards the untrusted schema reader):
\* "name[#id] field:type ... = Class" with types  int long # Bool int128 int256 string bytes true, (vector T), names
Str(k) == CASE k = "int" -> <<105, 110, 116>> [] k = "long" -> <<108, 111, 110, 103>> [] k = "nat" -> <<35>>
            [] k = "Bool" -> <<66, 111, 111, 108>> [] k = "int128" -> <<105, 110, 116, 49, 50, 56>>
            [] k = "int256" -> <<105, 110, 116, 50, 53, 54>> [] k = "string" -> <<115, 116, 114, 105, 110, 103>>
            [] k = "bytes" -> <<98, 121, 116, 101, 115>> [] k = "true" -> <<116, 114, 117, 101>>
RECURSIVE TypeText(_)
TypeText(t) == CASE t.k = "vector" -> <<40, 118, 101, 99, 116, 111, 114, 32>> \o TypeText(t.of) \o <<41>>
                 [] t.k = "bare" -> t.nb
                 [] t.k = "boxed" -> t.nb
                 [] OTHER -> Str(t.k)
RECURSIVE DecStr(_)
DecStr(n) == IF n < 10 THEN <<48 + n>> ELSE DecStr(n \div 10) \o <<48 + (n % 10)>>
FieldText(f) == f.n \o <<58>> \o (IF f.c = <<>> THEN <<>> ELSE f.c[3] \o <<46>> \o DecStr(f.c[2]) \o <<63>>) \o TypeText(f.t)
Render(s) == s.head \o Flat([i \in 1..Len(s.fields) |-> <<32>> \o FieldText(s.fields[i])]) \o <<32, 61, 32>> \o s.clsb
RenderOk(s) == Render(s) = s.decl

\* ---- encoding
LEInt(x, nbytes, signed) == RevSeq(BitsToBytes(IF signed THEN BigSBits(x, 8 * nbytes) ELSE BigUBits(x, 8 * nbytes)))
IntFits(x, nbytes, signed) == IF signed THEN BigSFits(x, 8 * nbytes) ELSE BigUFits(x, 8 * nbytes)
Frame(bs) == LET n == Len(bs)
                 hdr == IF n <= 253 THEN <<n>> ELSE <<254, n % 256, (n \div 256) % 256, n \div 65536>>
                 pad == (4 - ((Len(hdr) + n) % 4)) % 4
             IN hdr \o bs \o Rep(pad, 0)
BoolTrue == <<181, 117, 114, 153>>     \* boolTrue#997275b5
BoolFalse == <<55, 151, 121, 188>>     \* boolFalse#bc799737
BitSet(x, b) == BigUBits(x, 32)[32 - b] = 1

RECURSIVE EncT(_, _), EncC(_, _, _)
EncT(t, v) ==
    CASE t.k = "int"  -> LEInt(v, 4, TRUE)
      [] t.k = "long" -> LEInt(v, 8, TRUE)
      [] t.k = "nat"  -> LEInt(v, 4, FALSE)
      [] t.k = "Bool" -> IF v = 1 THEN BoolTrue ELSE BoolFalse
      [] t.k \in {"int128", "int256"} -> v
      [] t.k = "string" -> Frame(v)
      \* a bytes value is raw bytes or holds boxed objects (one or several, concatenated): what travels is their serialisation
      [] t.k = "bytes" -> Frame(IF "obj" \in DOMAIN v THEN Flat([i \in 1..Len(v.obj) |-> EncC(v.obj[i].c, v.obj[i], TRUE)]) ELSE v.raw)
      [] t.k = "true" -> <<>>
      [] t.k = "vector" -> LE(Len(v), 4) \o Flat([i \in 1..Len(v) |-> EncT(t.of, v[i])])
      [] t.k = "bare" -> EncC(t.n, v, FALSE)
      [] t.k = "boxed" -> EncC(v.c, v, TRUE)
EncC(name, v, boxed) ==
    LET s == ByName[name] IN
    (IF boxed THEN Ids[name] ELSE <<>>)
    \o Flat([i \in 1..Len(s.fields) |->
                IF s.fields[i].c # <<>>
                THEN (IF v.f[i] = <<>> THEN <<>> ELSE EncT(s.fields[i].t, v.f[i][1]))
                ELSE EncT(s.fields[i].t, v.f[i])])

\* ---- well-typedness of a value against the schema (what the driver promises to generate)
RECURSIVE WfT(_, _), WfC(_, _)
WfT(t, v) ==
    CASE t.k = "int"  -> IntFits(v, 4, TRUE)
      [] t.k = "long" -> IntFits(v, 8, TRUE)
      [] t.k = "nat"  -> IntFits(v, 4, FALSE)
      [] t.k = "Bool" -> v \in {0, 1}
      [] t.k = "int128" -> Len(v) = 16
      [] t.k = "int256" -> Len(v) = 32
      [] t.k = "string" -> Len(v) < 16777216
      [] t.k = "bytes" -> IF "obj" \in DOMAIN v
                          THEN Len(v.obj) >= 1 /\ \A i \in 1..Len(v.obj) : v.obj[i].c \in DOMAIN ByName /\ WfC(v.obj[i].c, v.obj[i])
                          ELSE Len(v.raw) < 16777216
      [] t.k = "true" -> v = 1
      [] t.k = "vector" -> \A i \in 1..Len(v) : WfT(t.of, v[i])
      [] t.k = "bare" -> v.c = t.n /\ WfC(t.n, v)
      [] t.k = "boxed" -> v.c \in DOMAIN ByName /\ ByName[v.c].cls = t.cls /\ WfC(v.c, v)
WfC(name, v) ==
    LET s == ByName[name] IN
    /\ Len(v.f) = Len(s.fields)
    /\ \A i \in 1..Len(s.fields) :
          IF s.fields[i].c = <<>> THEN WfT(s.fields[i].t, v.f[i])
          ELSE /\ (v.f[i] # <<>>) = BitSet(v.f[s.fields[i].c[1]], s.fields[i].c[2])      \* present iff the flag bit is set
               /\ (v.f[i] # <<>> => WfT(s.fields[i].t, v.f[i][1]))
=============================================================================
