------------------------------- MODULE TonSha -------------------------------
(* SHA-256 (FIPS 180-4) over byte sequences, written to be evaluated by TLC.  *)
(* 32-bit words are pairs <<hi, lo>> of 16-bit limbs so that no intermediate  *)
(* value exceeds 2^31 - 1; xor/and come from the Bitwise community module.    *)
EXTENDS Naturals, Sequences, SequencesExt, Bitwise

\* round constants K[1..64] and initial state H0[1..8] as limb pairs
KC == <<<<17034,12184>>, <<28983,17553>>, <<46528,64463>>, <<59829,56229>>, <<14678,49755>>, <<23025,4593>>, <<37439,33444>>, <<43804,24277>>, <<55303,43672>>, <<4739,23297>>, <<9265,34238>>, <<21772,32195>>, <<29374,23924>>, <<32990,45566>>, <<39900,1703>>, <<49563,61812>>, <<58523,27073>>, <<61374,18310>>, <<4033,40390>>, <<9228,41420>>, <<11753,11375>>, <<19060,33962>>, <<23728,43484>>, <<30457,35034>>, <<38974,20818>>, <<43057,50797>>, <<45059,10184>>, <<48985,32711>>, <<50912,3059>>, <<54695,37191>>, <<1738,25425>>, <<5161,10599>>, <<10167,2693>>, <<11803,8504>>, <<19756,28156>>, <<21304,3347>>, <<25866,29524>>, <<30314,2747>>, <<33218,51502>>, <<37490,11397>>, <<41663,59553>>, <<43034,26187>>, <<49739,35696>>, <<51052,20899>>, <<53650,59417>>, <<54937,1572>>, <<62478,13701>>, <<4202,41072>>, <<6564,49430>>, <<7735,27656>>, <<10056,30540>>, <<13488,48309>>, <<14620,3251>>, <<20184,43594>>, <<23452,51791>>, <<26670,28659>>, <<29839,33518>>, <<30885,25455>>, <<33992,30740>>, <<36039,520>>, <<37054,65530>>, <<42064,27883>>, <<48889,41975>>, <<50801,30962>>>>
H0 == <<<<27145,58983>>, <<47975,44677>>, <<15470,62322>>, <<42319,62778>>, <<20750,21119>>, <<39685,26764>>, <<8067,55723>>, <<23520,52505>>>>
LOCAL M == 65536
LOCAL X2(a, b) == <<a[1] ^^ b[1], a[2] ^^ b[2]>>
LOCAL X3(a, b, c) == X2(X2(a, b), c)
LOCAL A2(a, b) == <<a[1] & b[1], a[2] & b[2]>>
LOCAL N1(a) == <<(M - 1) - a[1], (M - 1) - a[2]>>
LOCAL Add(a, b) == LET lo == a[2] + b[2] IN <<(a[1] + b[1] + (lo \div M)) % M, lo % M>>
LOCAL RotR(w, n) == LET v == IF n >= 16 THEN <<w[2], w[1]>> ELSE w
                        k == n % 16  p == 2^k  q == 2^(16 - k)
                    IN IF k = 0 THEN v ELSE <<(v[1] \div p) + (v[2] % p) * q, (v[2] \div p) + (v[1] % p) * q>>
LOCAL ShR(w, n) == IF n >= 16 THEN <<0, w[1] \div 2^(n - 16)>>
                   ELSE LET p == 2^n  q == 2^(16 - n) IN <<w[1] \div p, (w[2] \div p) + (w[1] % p) * q>>
LOCAL BS0(x) == X3(RotR(x, 2), RotR(x, 13), RotR(x, 22))
LOCAL BS1(x) == X3(RotR(x, 6), RotR(x, 11), RotR(x, 25))
LOCAL SS0(x) == X3(RotR(x, 7), RotR(x, 18), ShR(x, 3))
LOCAL SS1(x) == X3(RotR(x, 17), RotR(x, 19), ShR(x, 10))
LOCAL Ch(e, f, g) == X2(A2(e, f), A2(N1(e), g))
LOCAL Maj(a, b, c) == X3(A2(a, b), A2(a, c), A2(b, c))
\* message schedule: extend 16 words to 64
LOCAL Sched(w16) == FoldLeft(LAMBDA w, t : Append(w, Add(Add(SS1(w[t - 2]), w[t - 7]), Add(SS0(w[t - 15]), w[t - 16]))),
                             w16, [i \in 1..48 |-> i + 16])
LOCAL Round(st, kw) ==
    LET a == st[1] b == st[2] c == st[3] d == st[4] e == st[5] f == st[6] g == st[7] h == st[8]
        t1 == Add(Add(Add(h, BS1(e)), Add(Ch(e, f, g), kw[1])), kw[2])
        t2 == Add(BS0(a), Maj(a, b, c))
    IN <<Add(t1, t2), a, b, c, Add(d, t1), e, f, g>>
LOCAL Compress(hs, blockWords) ==
    LET w == Sched(blockWords)
        st == FoldLeft(LAMBDA s, t : Round(s, <<KC[t], w[t]>>), hs, [i \in 1..64 |-> i])
    IN [i \in 1..8 |-> Add(hs[i], st[i])]
\* padding: 0x80, zeros, 64-bit big-endian bit length (messages < 2^28 bytes)
LOCAL PadMsg(bs) ==
    LET n == Len(bs)
        z == (119 - (n % 64)) % 64
        bitlen == n * 8
    IN bs \o <<128>> \o [i \in 1..z |-> 0]
          \o <<0, 0, 0, 0, (bitlen \div 16777216) % 256, (bitlen \div 65536) % 256, (bitlen \div 256) % 256, bitlen % 256>>
LOCAL Words(pb, blk) == [j \in 1..16 |-> LET o == (blk - 1) * 64 + (j - 1) * 4
                                         IN <<pb[o + 1] * 256 + pb[o + 2], pb[o + 3] * 256 + pb[o + 4]>>]
Sha256(bs) ==
    LET pb == PadMsg(bs)
        hs == FoldLeft(LAMBDA h, blk : Compress(h, Words(pb, blk)), H0, [i \in 1..(Len(pb) \div 64) |-> i])
    IN [i \in 1..32 |-> LET w == hs[((i - 1) \div 4) + 1]  k == (i - 1) % 4
                        IN IF k = 0 THEN w[1] \div 256 ELSE IF k = 1 THEN w[1] % 256
                           ELSE IF k = 2 THEN w[2] \div 256 ELSE w[2] % 256]

\* ---- anchors: FIPS 180-4 / NIST example vectors
ShaAbc   == <<186,120,22,191,143,1,207,234,65,65,64,222,93,174,34,35,176,3,97,163,150,23,122,156,180,16,255,97,242,0,21,173>>
ShaEmpty == <<227,176,196,66,152,252,28,20,154,251,244,200,153,111,185,36,39,174,65,228,100,155,147,76,164,149,153,27,120,82,184,85>>
\* "abcdbcdecdefdefgefghfghighijhijkijkljklmklmnlmnomnopnopq" (56 bytes, two blocks)
LOCAL Msg56 == <<97,98,99,100,98,99,100,101,99,100,101,102,100,101,102,103,101,102,103,104,102,103,104,105,103,104,105,106,
                 104,105,106,107,105,106,107,108,106,107,108,109,107,108,109,110,108,109,110,111,109,110,111,112,110,111,112,113>>
Sha56 == <<36,141,106,97,210,6,56,184,229,192,38,147,12,62,96,57,163,60,228,89,100,255,33,103,246,236,237,212,25,219,6,193>>
ShaVectorsOk == /\ Sha256(<<97, 98, 99>>) = ShaAbc
                /\ Sha256(<<>>) = ShaEmpty
                /\ Sha256(Msg56) = Sha56
=============================================================================
