-------------------------------- MODULE TonMsg --------------------------------
(* Messages (C15): a LOGICAL message is [info, init (<<>> or <<state-init>>),  *)
(* body (a cell tree)].  block.tlb lets the serialiser place the state-init    *)
(* and the body either inline or in a reference:                               *)
(*   message$_ info:CommonMsgInfo init:(Maybe (Either StateInit ^StateInit))   *)
(*             body:(Either X ^X) = Message X;                                 *)
(* Encodings(m) is the set of all encodings that fit a cell.                   *)
EXTENDS TlbSchema
T == INSTANCE TonTlb WITH Schema <- TheSchema

TreeFits(t) == T!TreeFits(t)
MsgValue(m, s1, s2) ==
    [c |-> "message", info |-> m.info,
     init |-> IF m.init = <<>> THEN <<>> ELSE <<[side |-> s1, v |-> m.init[1]]>>,
     body |-> [side |-> s2, v |-> m.body]]
Placements(m) == {<<s1, s2>> : s1 \in (IF m.init = <<>> THEN {0} ELSE {0, 1}), s2 \in {0, 1}}
Encodings(m) == {e \in {[sides |-> p, tree |-> T!Encode("Message", MsgValue(m, p[1], p[2]))] : p \in Placements(m)} : TreeFits(e.tree)}
\* a message is representable iff its header, state-init and body each fit a cell of their own
Representable(m) == Encodings(m) # {}
\* the all-by-reference placement always fits when anything does (the encoder can always fall back to it)
FallbackLemma(m) == Representable(m) =>
    \E e \in Encodings(m) : e.sides = <<(IF m.init = <<>> THEN 0 ELSE 1), 1>>
\* ---- values that CONTAIN messages (highload wallet data: old_queries:(HashmapE 64 WalletMessage), message:^MessageAny): the
\* serialiser is free to place each nested message's state-init and body inline or by reference, so the set of valid encodings
\* of such a value is the set of encodings of its placement variants
Logical(mv) == [info |-> mv.info, init |-> IF mv.init = <<>> THEN <<>> ELSE <<mv.init[1].v>>, body |-> mv.body.v]
MsgVariants(mv) == {MsgValue(Logical(mv), p[1], p[2]) : p \in Placements(Logical(mv))}
HwVariants(v) ==
    LET n == Len(v.old_queries)
        all == UNION {MsgVariants(v.old_queries[i].v.message) : i \in 1..n}
        pick == {f \in [1..n -> all] : \A i \in 1..n : f[i] \in MsgVariants(v.old_queries[i].v.message)}
    IN {[v EXCEPT !.old_queries = [i \in 1..n |-> [k |-> v.old_queries[i].k, v |-> [v.old_queries[i].v EXCEPT !.message = f[i]]]]] : f \in pick}
WrapEncodings(ty, v) ==
    IF ty = "HighloadWalletData" THEN {e \in {T!Encode(ty, w) : w \in HwVariants(v)} : TreeFits(e)}
    ELSE {T!Encode(ty, v)}
=============================================================================
