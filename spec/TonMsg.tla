-------------------------------- MODULE TonMsg --------------------------------
(* Messages (C15): a LOGICAL message is [info, init (<<>> or <<state-init>>),  *)
(* body (a cell tree)].  block.tlb lets the serialiser place the state-init    *)
(* and the body either inline or in a reference:                               *)
(*   message$_ info:CommonMsgInfo init:(Maybe (Either StateInit ^StateInit))   *)
(*             body:(Either X ^X) = Message X;                                 *)
(* Encodings(m) is the set of all encodings that fit a cell.                   *)
EXTENDS TlbSchema
T == INSTANCE TonTlb WITH Schema <- TheSchema

TreeFits(t) == T!TreeFits(t)
MsgValue(m, s1, s2) ==
    [c |-> "message", info |-> m.info,
     init |-> IF m.init = <<>> THEN <<>> ELSE <<[side |-> s1, v |-> m.init[1]]>>,
     body |-> [side |-> s2, v |-> m.body]]
Placements(m) == {<<s1, s2>> : s1 \in (IF m.init = <<>> THEN {0} ELSE {0, 1}), s2 \in {0, 1}}
Encodings(m) == {e \in {[sides |-> p, tree |-> T!Encode("Message", MsgValue(m, p[1], p[2]))] : p \in Placements(m)} : TreeFits(e.tree)}
\* a message is representable iff its header, state-init and body each fit a cell of their own
Representable(m) == Encodings(m) # {}
\* the all-by-reference placement always fits when anything does (the encoder can always fall back to it)
FallbackLemma(m) == Representable(m) =>
    \E e \in Encodings(m) : e.sides = <<(IF m.init = <<>> THEN 0 ELSE 1), 1>>
=============================================================================
