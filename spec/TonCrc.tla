------------------------------- MODULE TonCrc -------------------------------
(* Bit-at-a-time (table-free) definitions of the three CRCs TON uses.        *)
(*   CRC-16/XMODEM : poly 0x1021, init 0, no reflection, no final xor         *)
(*   CRC-32C       : reflected poly 0x82F63B78, init/xorout 0xFFFFFFFF        *)
(*   CRC-32/IEEE   : reflected poly 0xEDB88320, init/xorout 0xFFFFFFFF (TL)   *)
(* Registers are integers (16 bit) or <<hi, lo>> 16-bit limb pairs (32 bit);  *)
(* every step processes ONE message bit, as in the catalogue definition.      *)
EXTENDS Naturals, Sequences, SequencesExt, Bitwise

LOCAL Iter8 == <<0, 1, 2, 3, 4, 5, 6, 7>>

\* ---- CRC-16/XMODEM, MSB first
LOCAL Step16(reg, bit) == LET top == reg \div 32768
                              sh  == (reg * 2) % 65536
                          IN IF top # bit THEN sh ^^ 4129 ELSE sh              \* 0x1021
LOCAL Byte16(reg, b) == FoldLeft(LAMBDA r, i : Step16(r, (b \div 2^(7 - i)) % 2), reg, Iter8)
Crc16Reg(bytes) == FoldLeft(Byte16, 0, bytes)
Crc16(bytes) == LET r == Crc16Reg(bytes) IN <<r \div 256, r % 256>>           \* big-endian result

\* ---- reflected 32-bit CRCs, LSB first; poly given as <<hi, lo>>
LOCAL Step32(reg, bit, poly) ==
    LET lsb == reg[2] % 2
        sh  == <<reg[1] \div 2, (reg[2] \div 2) + (reg[1] % 2) * 32768>>
    IN IF lsb # bit THEN <<sh[1] ^^ poly[1], sh[2] ^^ poly[2]>> ELSE sh
LOCAL Byte32(reg, b, poly) == FoldLeft(LAMBDA r, i : Step32(r, (b \div 2^i) % 2, poly), reg, Iter8)
LOCAL Reg32(bytes, poly) == FoldLeft(LAMBDA r, b : Byte32(r, b, poly), <<65535, 65535>>, bytes)
LOCAL Fin32(reg) == <<65535 - reg[1], 65535 - reg[2]>>
LOCAL BytesBE(w) == <<w[1] \div 256, w[1] % 256, w[2] \div 256, w[2] % 256>>
LOCAL BytesLE(w) == <<w[2] % 256, w[2] \div 256, w[1] % 256, w[1] \div 256>>
PolyC    == <<33526, 15224>>     \* 0x82F6 3B78
PolyIEEE == <<60856, 33568>>     \* 0xEDB8 8320
Crc32cWord(bytes) == Fin32(Reg32(bytes, PolyC))
Crc32cBE(bytes) == BytesBE(Crc32cWord(bytes))
Crc32cLE(bytes) == BytesLE(Crc32cWord(bytes))
Crc32Word(bytes) == Fin32(Reg32(bytes, PolyIEEE))
Crc32BE(bytes) == BytesBE(Crc32Word(bytes))        \* = the TL constructor id written as 0x........
Crc32LE(bytes) == BytesLE(Crc32Word(bytes))        \* = the TL constructor id on the wire

\* raw (no init, no xorout) reflected register: the linear part, used for burst lemmas
Crc32cLin(bytes) == FoldLeft(LAMBDA r, b : Byte32(r, b, PolyC), <<0, 0>>, bytes)
Crc16Lin(bytes) == Crc16Reg(bytes)                   \* XMODEM is already linear (init 0)

\* ---- anchors: catalogue check values for "123456789"
LOCAL Check9 == <<49, 50, 51, 52, 53, 54, 55, 56, 57>>
CrcVectorsOk == /\ Crc16(Check9) = <<49, 195>>                       \* 0x31C3
                /\ Crc32cBE(Check9) = <<227, 6, 146, 131>>           \* 0xE3069283
                /\ Crc32BE(Check9) = <<203, 244, 57, 38>>            \* 0xCBF43926
                /\ Crc16(<<>>) = <<0, 0>>
                /\ Crc32cBE(<<>>) = <<0, 0, 0, 0>>
=============================================================================
