#!/bin/sh
# offline setup: parse every specification module with SANY and run the SHA/CRC anchor vectors once
cd "$(dirname "$0")" || exit 1
mkdir -p build evidence replays
fail=0
for f in spec/*.tla spec/mc/*.tla spec/trace/*.tla; do
  [ -f "$f" ] || continue
  java -DTLA-Library=spec:spec/mc:spec/trace -cp /opt/veriftools/tla/tla2tools.jar:/opt/veriftools/tla/CommunityModules-deps.jar tla2sany.SANY "$f" > build/sany.log 2>&1 || { echo "SANY failed: $f"; tail -20 build/sany.log; fail=1; }
done
/venv/bin/python -c "import pytoniq_core, nacl, Cryptodome, bitarray" || fail=1
exit $fail
