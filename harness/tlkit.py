"""TL helpers for the C14 driver: an independent reader of the bundled .tl files (schema-as-data, checked by TLC through
Render/ConstructorId), a value generator, and the conversion of library dicts to the value shape the specification uses."""
import os
import random
import re

from vlib import big, unbig

SCHEMA_DIR = os.environ.get('VERIF_REPO', '/repo') + '/pytoniq_core/tl/schemas'
BASE = {'int': 'int', 'long': 'long', '#': 'nat', 'Bool': 'Bool', 'int128': 'int128', 'int256': 'int256', 'string': 'string',
        'bytes': 'bytes', 'true': 'true'}
BUILTIN_NAMES = {'int', 'long', 'double', 'string', 'object', 'function', 'bytes', 'true', 'boolTrue', 'boolFalse', 'vector', 'int128', 'int256'}


def read_declarations():
    """-> list of (declaration text without ';', file) in file order; later files override earlier names like the library does"""
    decls = []
    for fn in os.listdir(SCHEMA_DIR):
        acc = ''
        for line in open(os.path.join(SCHEMA_DIR, fn)):
            s = line.strip()
            if not s or s.startswith('//') or s.startswith('---'):
                continue
            s = s.split('//')[0].strip() if ';' in s else s
            acc = (acc + ' ' + s).strip()
            if ';' in acc:
                decls.append(acc.split(';')[0].strip())
                acc = ''
    return decls


def parse_type(t, names, classes):
    if t in BASE:
        return {'k': BASE[t]}
    m = re.fullmatch(r'\(vector (.+)\)', t)
    if m:
        of = parse_type(m.group(1).strip(), names, classes)
        return {'k': 'vector', 'of': of} if of else None
    if t in names:
        return {'k': 'bare', 'n': t}
    if t in classes:
        return {'k': 'boxed', 'cls': t}
    return None


def split_fields(body):
    out, depth, cur = [], 0, ''
    for ch in body:
        if ch == '(':
            depth += 1
        if ch == ')':
            depth -= 1
        if ch == ' ' and depth == 0:
            if cur:
                out.append(cur)
            cur = ''
        else:
            cur += ch
    if cur:
        out.append(cur)
    return out


def load_schemas():
    """-> (db: name -> entry, order list).  entry: name, cls, decl, xid, fields[{n, t, c}], ok (all types understood)"""
    decls = read_declarations()
    heads = []
    for d in decls:
        lhs, cls = d.rsplit('=', 1)
        toks = split_fields(lhs.strip())
        name = toks[0]
        xid = []
        if '#' in name:
            name, hx = name.split('#')
            xid = list(bytes.fromhex(hx))
        heads.append((name, xid, toks[1:], cls.strip(), d))
    names = {h[0] for h in heads}
    classes = {h[3] for h in heads}
    db = {}
    for name, xid, ftoks, cls, d in heads:
        fields, ok = [], name not in BUILTIN_NAMES
        for ft in ftoks:
            if ':' not in ft:
                ok = False
                continue
            fn, ty = ft.split(':', 1)
            cond = []
            m = re.fullmatch(r'(\w+)\.(\d+)\?(.+)', ty)
            if m:
                cond = [m.group(1), int(m.group(2))]
                ty = m.group(3)
            t = parse_type(ty, names, classes)
            if t is None:
                ok = False
                t = {'k': 'unknown'}
            fields.append({'n': fn, 't': t, 'c': cond, 'src': ft})
        for f in fields:       # resolve the flag field index
            if f['c']:
                idx = [i for i, g in enumerate(fields) if g['n'] == f['c'][0]]
                if not idx:
                    ok = False
                else:
                    f['c'] = [idx[0] + 1, f['c'][1], f['c'][0]]
        db[name] = {'name': name, 'cls': cls, 'decl': d, 'xid': xid, 'fields': fields, 'ok': ok}
    # transitive support: every referenced constructor / class alternative must be supported
    changed = True
    while changed:
        changed = False
        for e in db.values():
            if not e['ok']:
                continue
            for f in e['fields']:
                t = f['t']
                while t['k'] == 'vector':
                    t = t['of']
                bad = (t['k'] == 'bare' and not db[t['n']]['ok']) or \
                      (t['k'] == 'boxed' and not any(x['ok'] for x in db.values() if x['cls'] == t['cls']))
                if bad:
                    e['ok'] = False
                    changed = True
    return db


def schema_json(db):
    out = []
    for e in db.values():
        if not e['ok']:
            continue
        head = e['decl'].split(' ')[0]
        out.append({'name': e['name'], 'cls': e['cls'], 'decl': list(' '.join(e['decl'].split()).encode()), 'xid': e['xid'],
                    'head': list(head.encode()), 'clsb': list(e['cls'].encode()),
                    'fields': [{'n': list(f['n'].encode()), 't': tjson(f['t']), 'c': ([f['c'][0], f['c'][1], list(f['c'][2].encode())] if f['c'] else [])}
                               for f in e['fields']]})
    return out


def tjson(t):
    if t['k'] == 'vector':
        return {'k': 'vector', 'of': tjson(t['of'])}
    if t['k'] == 'bare':
        return {'k': 'bare', 'n': t['n'], 'nb': list(t['n'].encode())}
    if t['k'] == 'boxed':
        return {'k': 'boxed', 'cls': t['cls'], 'nb': list(t['cls'].encode())}
    return {'k': t['k']}


# ------------------------------------------------------------------ values
class Gen:
    def __init__(self, db, rng):
        self.db, self.rng = db, rng
        self.alts = {}
        for e in db.values():
            if e['ok']:
                self.alts.setdefault(e['cls'], []).append(e['name'])
        # small self-contained constructors used as objects nested in bytes fields
        self.small = sorted(e['name'] for e in db.values() if e['ok'] and len(e['fields']) <= 4 and
                            all(f['t']['k'] in ('int', 'long', 'nat', 'Bool', 'int128', 'int256', 'string', 'bytes') and not f['c'] for f in e['fields']))
        self.minimal = False

    def leaf(self, k, hint=None):
        rng = self.rng
        if self.minimal and hint is None:
            return {'int': 0, 'long': 0, 'nat': 0, 'Bool': False, 'int128': '00' * 16, 'int256': '00' * 32, 'string': '', 'bytes': b'', 'true': True}[k]
        if k == 'int':
            return rng.choice([0, 1, -1, 2 ** 31 - 1, -2 ** 31, rng.randint(-2 ** 31, 2 ** 31 - 1)])
        if k == 'long':
            return rng.choice([0, 1, -1, 2 ** 63 - 1, -2 ** 63, rng.randint(-2 ** 63, 2 ** 63 - 1)])
        if k == 'nat':
            return rng.choice([0, 1, 7, 2 ** 31 - 1, 2 ** 31, 2 ** 32 - 1, rng.randint(0, 2 ** 32 - 1)])
        if k == 'Bool':
            return bool(rng.getrandbits(1))
        if k == 'int128':
            return bytes(rng.getrandbits(8) for _ in range(16)).hex()
        if k == 'int256':
            return bytes(rng.getrandbits(8) for _ in range(32)).hex()
        if k == 'bytes' and isinstance(hint, tuple) and hint[0] == 'raw':
            return bytes(hint[1])
        if k == 'bytes' and isinstance(hint, dict):
            # a bytes field that carries boxed TL objects (as ADNL queries and answers do): hint = {'nest': k}
            return {'@nested': [self.ctor(self.rng.choice(self.small), 2, tag=True) for _ in range(hint['nest'])]}
        if k in ('bytes', 'string'):
            n = hint if hint is not None else rng.choice([0, 1, 2, 3, 4, 5, 11, 40])
            if k == 'string':
                if isinstance(hint, str):
                    return hint
                # text is UTF-8 on the wire: the length prefix counts BYTES, so characters of 2, 3 and 4 bytes are mixed in
                alpha = 'abcXYZ 019_-.' if (hint is not None or rng.random() < 0.5) else 'abZ 9.\u00e9\u00fc\u20ac\u0416\U0001d11e'
                return ''.join(rng.choice(alpha) for _ in range(n))
            b = bytes(rng.getrandbits(8) for _ in range(n))
            # a value that happens to start with a known constructor id would be auto-parsed: avoid (outside the domain)
            return b
        if k == 'true':
            return True
        raise ValueError(k)

    def of_type(self, t, depth, hint=None):
        if t['k'] == 'vector':
            n = hint if hint is not None else 0 if self.minimal else self.rng.choice([0, 1, 3]) if depth < 3 else 0
            return [self.of_type(t['of'], depth + 1) for _ in range(n)]
        if t['k'] == 'bare':
            return self.ctor(t['n'], depth + 1)
        if t['k'] == 'boxed':
            alts = self.alts[t['cls']]
            name = self.rng.choice(alts) if depth < 2 and not self.minimal else min(alts, key=lambda a: self.weight(a))
            return self.ctor(name, depth + 1, tag=True)
        return self.leaf(t['k'], hint)

    def weight(self, name, seen=()):
        if name in seen:
            return 1000
        w = 0
        for f in self.db[name]['fields']:
            if f['c']:
                continue
            t = f['t']
            if t['k'] == 'bare':
                w += 1 + self.weight(t['n'], seen + (name,))
            elif t['k'] == 'boxed':
                w += 1 + min(self.weight(a, seen + (name,)) for a in self.alts[t['cls']])
            else:
                w += 1
        return w

    def ctor(self, name, depth=0, flags=None, tag=False, hints=None):
        """-> python dict as the library takes it (optional fields present iff their flag bit is set)"""
        e = self.db[name]
        val = {}
        flagvals = {}
        for i, f in enumerate(e['fields']):
            if f['t']['k'] == 'nat' and any(g['c'] and g['c'][0] == i + 1 for g in e['fields']):
                bits = sorted({g['c'][1] for g in e['fields'] if g['c'] and g['c'][0] == i + 1})
                if flags is not None and f['n'] in flags:
                    v = flags[f['n']]
                elif depth >= 3 or self.minimal:
                    v = 0
                else:
                    v = sum(1 << b for b in bits if self.rng.random() < 0.5)
                flagvals[i + 1] = v
                val[f['n']] = v
        for i, f in enumerate(e['fields']):
            if (i + 1) in flagvals:
                continue
            if f['c'] and not (flagvals[f['c'][0]] >> f['c'][1]) & 1:
                continue
            val[f['n']] = self.of_type(f['t'], depth, (hints or {}).get(f['n']))
        if tag:
            val['@type'] = name
        return val


def to_spec(db, name, d):
    """library-style dict -> specification value {c, f}"""
    e = db[name]
    fs = []
    for f in e['fields']:
        present = f['n'] in d and d[f['n']] is not None
        if f['c']:
            fs.append([conv(db, f['t'], d[f['n']])] if present else [])
        else:
            fs.append(conv(db, f['t'], d[f['n']]))
    return {'c': name, 'f': fs}


def conv(db, t, v):
    k = t['k']
    if k in ('int', 'long', 'nat'):
        return big(int(v))
    if k == 'Bool':
        return int(bool(v))
    if k in ('int128', 'int256'):
        return list(bytes.fromhex(v)) if isinstance(v, str) else list(v)
    if k == 'string':
        return list(v.encode()) if isinstance(v, str) else list(v)
    if k == 'bytes':
        # raw bytes, or boxed objects carried in the field (given as {'@nested': [...]}; parsed back as a dict or a list of dicts)
        if isinstance(v, (bytes, bytearray)):
            return {'raw': list(v)}
        if isinstance(v, dict) and '@nested' in v:
            return {'obj': [to_spec(db, x['@type'], x) for x in v['@nested']]}
        if isinstance(v, dict) and '@type' in v:
            return {'obj': [to_spec(db, v['@type'], v)]}
        if isinstance(v, list) and v and all(isinstance(x, dict) and '@type' in x for x in v):
            return {'obj': [to_spec(db, x['@type'], x) for x in v]}
        return {'unexpected': repr(type(v))}
    if k == 'true':
        return 1
    if k == 'vector':
        return [conv(db, t['of'], x) for x in v]
    if k == 'bare':
        return to_spec(db, t['n'], v)
    if k == 'boxed':
        return to_spec(db, v['@type'], v)
    raise ValueError(k)


def lib_value(tl, v):
    """generator value -> what the library takes: {'@nested': [one]} is given as that object, several as their concatenated
    boxed serialisations (the only form the serialiser accepts for more than one)"""
    if isinstance(v, dict) and '@nested' in v:
        objs = [lib_value(tl, x) for x in v['@nested']]
        if len(objs) == 1:
            return objs[0]
        return b''.join(tl.serialize(tl.get_by_name(x['@type']), x, boxed=True) for x in objs)
    if isinstance(v, dict):
        return {k: lib_value(tl, x) for k, x in v.items()}
    if isinstance(v, list):
        return [lib_value(tl, x) for x in v]
    return v
