"""Dictionary helpers for the C09/C10 drivers."""
import random

from bitarray import bitarray

import cellkit as ck
from pytoniq_core.boc import Builder, Cell, Slice
from pytoniq_core.boc.hashmap.hashmap import HashMap
from vlib import big, bitstr, bitstr_of_list

POLICIES = '{"canon", "short", "long", "same", "mix0", "mix1", "mix2"}'


def hm_cfg(w, keyvals, maxm, emit, policies=POLICIES, xw=4, invs=True):
    s = ('SPECIFICATION Spec\nCONSTANTS W = %d\n KeyVals = {%s}\n MaxM = %d\n Emit = %s\n Policies = %s\n XW = %d\n'
         % (w, ', '.join(map(str, keyvals)), maxm, emit, policies, xw))
    if invs:
        s += 'INVARIANT ParseAll\nINVARIANT Canon\nINVARIANT AugFold\n'
    if emit == 'TRUE':
        s += 'INVARIANT Export\n'
    return s + 'CHECK_DEADLOCK FALSE\n'


def bits_to_int(bits):
    v = 0
    for b in bits:
        v = (v << 1) | b
    return v


def tree_to_cell(t):
    b = Builder().store_bits(bitarray(t['b']))
    for kid in t['r']:
        b.store_ref(tree_to_cell(kid))
    return b.end_cell()


def slice_bits(s):
    return bitstr(s.bits)


def serialize_map(w, items, vw, order=None):
    """items: list of (int key, int value); -> cell or None"""
    hm = HashMap(w).with_uint_values(vw)
    for k, v in (order or items):
        hm.set_int_key(k, v)
    return hm.serialize()
