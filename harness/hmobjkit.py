"""HashMap OBJECT histories (C09, C10): executes abstract TonHmObj calls on real HashMap objects, projects every live object
after every call, records one trace record per call.  Behaviours come from TLC (simulation of MC_HmObj) and from a seeded
random walk with wider keys; TLC validates every step against the TonHmObj machine (spec/trace/HmObjTrace.tla)."""
import random

import cellkit as ck
from pytoniq_core.boc import Builder
from pytoniq_core.boc.hashmap.hashmap import HashMap


def hmobj_cfg(widths, maxobjs, steps, record):
    return ('SPECIFICATION Spec\nCONSTANTS Widths = {%s}\n Vals = {1, 2}\n MaxObjs = %d\n MaxSteps = %d\n Record = %s\n'
            % (', '.join(map(str, widths)), maxobjs, steps, 'TRUE' if record else 'FALSE')
            + ('INVARIANT ExportBehaviour\n' if record else 'INVARIANT SerParse\nINVARIANT Aliases\nINVARIANT KeysFit\nPROPERTY FrameOne\n')
            + 'CHECK_DEADLOCK FALSE\n')


def model_checks(tier, seed):
    q = tier == 'quick'
    n, steps = (60, 14) if q else (600, 20)
    return [dict(name='hmobj_m', module='MC_HmObj.tla', workers=8, timeout=1500, cfg=hmobj_cfg([2, 3], 2, 5 if q else 6, False)),
            dict(name='hmobj_sim', module='MC_HmObj.tla', gen=True, workers=1, timeout=1500, heap='4g', cfg=hmobj_cfg([2, 3], 3, steps, True),
                 simulate='num=%d' % n, extra=['-depth', str(steps + 2), '-seed', str(seed + 11)])]


class HmPool:
    def __init__(self):
        self.records = []
        self.reset()

    def reset(self):
        self.objs = {}          # id -> HashMap
        self.store_ids = {}     # id(dict) -> store number
        self.keep = []
        self.records.append({'op': 'reset'})

    def store_of(self, hm):
        if id(hm.map) not in self.store_ids:
            self.store_ids[id(hm.map)] = len(self.store_ids) + 1
            self.keep.append(hm.map)
        return self.store_ids[id(hm.map)]

    def project(self):
        out = []
        for o in sorted(self.objs):
            hm = self.objs[o]
            out.append({'o': o, 'w': hm.size, 'st': self.store_of(hm), 'pairs': [[int(k), int(v)] for k, v in sorted(hm.map.items())]})
        return out

    def call(self, c, tags=()):
        rec = {'op': 'hmcall', 'call': c, 'tags': list(tags)}
        try:
            rec['out'] = {'res': self._exec(c)}
        except RecursionError:
            raise
        except Exception as e:
            rec['out'] = {'err': type(e).__name__}
        rec['post'] = self.project()
        self.records.append(rec)
        return rec

    def _exec(self, c):
        op = c['op']
        U = {'unit': 1}
        if op == 'new':
            self.objs[c['o']] = HashMap(c['w']).with_uint_values(8)
            assert self.store_of(self.objs[c['o']]) == c['st'], 'store numbering'
            return U
        if op == 'new_over':
            other = self.objs[c['other']]
            self.objs[c['o']] = HashMap(other.size, map_=other.map).with_uint_values(8)
            return U
        if op == 'forget':
            del self.objs[c['o']]
            return U
        hm = self.objs[c['o']]
        if op == 'set':
            via = c.get('via', 'set')
            if via == 'set':
                hm.set(c['k'], c['v'])
            elif via == 'set_int_key':
                hm.set_int_key(c['k'], c['v'])
            elif via == 'bits':
                hm.set(bin(c['k'])[2:].rjust(hm.size, '0'), c['v'])
            else:
                hm.map[c['k']] = c['v']
            return U
        if op == 'del':
            hm.map.pop(c['k'], None)
            return U
        if op == 'ser':
            cell = hm.serialize()
            if cell is None:
                return {'none': 1}
            heap, roots, _ = ck.project([cell])
            return {'cell': heap, 'root': roots[0], 'hash': list(cell.hash)}
        if op == 'parse':
            cell = hm.serialize()
            via = c.get('via', 'parse')
            w = hm.size
            if via == 'parse':
                d = HashMap.parse(cell.begin_parse(), w)
            elif via == 'from_cell':
                d = HashMap.from_cell(cell, w).map
            elif via == 'load_dict':
                d = Builder().store_dict(cell).end_cell().begin_parse().load_dict(w)
            else:
                d = cell.begin_parse().load_hashmap(w)
            res = {'pairs': [[int(k), int(v.bits.to01() or '0', 2), len(v.bits)] for k, v in d.items()]}
            for v in d.values():          # the caller reads the value slices to the end and empties the dictionary it was given
                v.load_bits(len(v.bits))
            d.clear()
            return res
        raise ValueError(op)


def random_history(p, rng, steps, widths=(2, 3, 8)):
    """seeded random walk (wider keys than the TLC behaviours, out-of-range keys, deletions back to empty)"""
    nxt = 1
    for _ in range(steps):
        objs = sorted(p.objs)
        ops = ['new'] * (3 if len(objs) < 2 else 0) + (['set'] * 6 + ['del'] * 3 + ['ser'] * 4 + ['parse'] * 2 + ['new_over'] * (1 if len(objs) < 3 else 0) if objs else [])
        op = rng.choice(ops or ['new'])
        if op == 'new':
            p.call({'op': 'new', 'o': nxt, 'st': len(p.store_ids) + 1, 'w': rng.choice(widths)})
            nxt += 1
        elif op == 'new_over':
            p.call({'op': 'new_over', 'o': nxt, 'other': rng.choice(objs)})
            nxt += 1
        else:
            o = rng.choice(objs)
            w = p.objs[o].size
            keys = sorted(p.objs[o].map)
            if op == 'set':
                k = rng.choice([0, 1, (1 << w) - 1, (1 << w) >> 1, rng.randrange(1 << w)] + keys)
                via = rng.choice(['set', 'set_int_key', 'entry', 'bits'])
                if rng.random() < 0.08:
                    k, via = rng.choice([1 << w, (1 << w) + 1, -1]), rng.choice(['set', 'set_int_key'])
                p.call({'op': 'set', 'o': o, 'k': k, 'v': rng.randrange(256), 'via': via})
            elif op == 'del':
                if keys:
                    p.call({'op': 'del', 'o': o, 'k': rng.choice(keys)})
            elif op == 'ser':
                p.call({'op': 'ser', 'o': o})
            elif keys:
                p.call({'op': 'parse', 'o': o, 'via': rng.choice(['parse', 'from_cell', 'load_dict', 'load_hashmap'])})


def generate(tier, seed, ctx, first_id):
    """-> list of shards (lists of records), ids assigned from first_id"""
    rng = random.Random(seed * 31 + 5)
    q = tier == 'quick'
    shards, pool = [], None
    behs = list(ctx['mc'].get('hmobj_sim', []))
    want = 60 if q else 600
    if len(behs) > want:
        behs = rng.sample(behs, want)
    n = 0
    for calls in behs:
        if n % 20 == 0:
            pool = HmPool()
            shards.append(pool.records)
        else:
            pool.reset()
        n += 1
        for c in calls:
            pool.call(dict(c), tags=['tlc_behaviour'])
    for k in range(40 if q else 600):
        if n % 20 == 0:
            pool = HmPool()
            shards.append(pool.records)
        else:
            pool.reset()
        n += 1
        random_history(pool, rng, rng.randint(12, 30))
    i = first_id
    for sh in shards:
        for r in sh:
            r['i'] = i
            i += 1
    return shards


def make_canaries(shards, rng, want=4):
    """copies of recorded histories with ONE corrupted record each (a serialisation whose tree is altered, a parse result with a
    changed value, a post-state with a changed entry): the validator must reject exactly these"""
    import json
    out = []
    cands = []
    for sh in shards:
        cur = None
        for r in sh:
            if r.get('op') == 'reset':
                cur = [r]
                cands.append(cur)
            elif cur is not None:
                cur.append(r)
    rng.shuffle(cands)
    for b in cands:
        if len(out) >= want:
            break
        b = json.loads(json.dumps(b))
        idx = [k for k, r in enumerate(b) if r.get('op') == 'hmcall' and 'res' in r['out'] and
               (('cell' in r['out']['res'] and r['out']['res']['cell'][0]['y']) or r['out']['res'].get('pairs') or (r['call']['op'] == 'set' and r['post']))]
        if not idx:
            continue
        r = b[rng.choice(idx)]
        res = r['out']['res']
        if 'cell' in res:
            res['cell'][0]['y'][-1] ^= 0x80 if res['cell'][0]['n'] % 8 == 1 else 1 << (7 - ((res['cell'][0]['n'] - 1) % 8))
            r['canary'] = 'serialised leaf bit'
        elif res.get('pairs'):
            res['pairs'][0][1] ^= 1
            r['canary'] = 'parsed value'
        else:
            tgt = [p for p in r['post'] if p['o'] == r['call']['o']][0]
            if not tgt['pairs']:
                continue
            tgt['pairs'][0][1] ^= 1
            for p in r['post']:
                if p['st'] == tgt['st']:
                    p['pairs'] = tgt['pairs']
            r['canary'] = 'stored value'
        out.append(b)
    return out
