"""C08 driver: random interleavings over a pool of cells, slices and builders derived from one another; after every
call every live object is re-projected (bits, refs, hash, sha256 of to_boc) and TLC checks the frame condition."""
import random

import bagkit as bk
from vlib import big, bitstr_of_list

PROP = 'C08'
TRACE_MODULE = 'C08Trace.tla'
RULE = ('behaviours of the full-size TonBag machine chosen by TLC in simulation mode (24 / 40 calls each) replayed call by call, and seeded-random behaviours of 30-60 calls over <= 12 live objects: new_builder, typed stores, store_ref/cell/slice, end_cell, '
        'begin_parse / Slice.from_cell, loads/peeks/skips, to_builder, to_cell, copy, Cell(plain bitarray), dictionary / message / VM-stack cells read by the parsers of the library (parse_as), Cell.order() with '
        'and without its argument, hash/to_boc observation, forget; distinct = distinct (op, kind of target, pool size) steps '
        'and distinct behaviours')
ASSUMPTIONS = ['TonBag.Do gives the owned object of each call; everything else must be unchanged (frame)',
               'serialisation stability is observed through sha256(to_boc()) computed by hashlib in the harness',
               'the pool is kept small by explicit forget steps of unreferenced objects']


def model_checks(tier):
    from drivers.bagmc import bag_checks, bag_sim
    import os
    return bag_checks(tier) + [bag_sim(tier, int(os.environ.get('VERIF_SEED', '0') or 0))]


def make_canaries(shards, rng, want):
    return bk.make_bag_canaries(shards, rng, want, 'frame')


def referenced(p):
    used = set()
    for i, (kind, o) in p.objs.items():
        refs = o.refs[o.ref_offset:] if kind == 'slice' else o.refs
        if id(o) in p.opaque:
            continue
        for r in refs:
            used.add(p.pyid.get(id(r)))
    return used


def behaviour(p, rng, steps):
    for _ in range(steps):
        if p.dead:
            return
        B, C, S = p.ids('builder'), p.ids('cell'), p.ids('slice')
        n = len(p.objs)
        if n >= 12:
            used = referenced(p)
            free = [i for i in p.objs if i not in used]
            drop = rng.sample(free, min(len(free), rng.randint(2, 5)))
            if drop:
                p.call({'op': 'forget', 'ids': sorted(drop)})
                continue
        ops = ['new_builder'] * (1 if B else 6)
        if B:
            ops += ['store_bits', 'store_uint', 'store_int', 'store_coins', 'store_address', 'end_cell', 'end_cell', 'builder_to_slice']
            if C:
                ops += ['store_ref', 'store_ref', 'store_cell', 'store_maybe_ref']
            if S:
                ops += ['store_slice']
        if C:
            ops += ['begin_parse', 'begin_parse', 'cell_copy', 'cell_to_builder', 'order', 'order', 'observe', 'parse_as', 'parse_as']
        if len(p.objs) < 7:
            ops += ['adopt_structured']
        if S:
            ops += ['load', 'load', 'load', 'preload', 'skip_bits', 'slice_to_cell', 'slice_copy', 'slice_to_builder']
        ops += ['cell_from_bits']
        op = rng.choice(ops)
        if op == 'new_builder':
            p.call({'op': op, 'new': p.next})
        elif op == 'store_bits':
            nb = rng.choice([0, 1, 3, 8, 15, 100])
            p.call({'op': op, 'obj': rng.choice(B), 'bits': bitstr_of_list([rng.getrandbits(1) for _ in range(nb)])})
        elif op in ('store_uint', 'store_int'):
            w = rng.choice([1, 5, 8, 32, 64])
            v = rng.getrandbits(w - 1) if w > 1 else 0
            p.call({'op': op, 'obj': rng.choice(B), 'v': big(v), 'w': w})
        elif op == 'store_coins':
            p.call({'op': op, 'obj': rng.choice(B), 'v': big(rng.choice([0, 1, 10 ** 9, 1 << 64]))})
        elif op == 'store_address':
            p.call({'op': op, 'obj': rng.choice(B), 'addr': bk.rand_addr(rng, rng.choice(['none', 'std', 'ext']))})
        elif op in ('store_ref', 'store_cell'):
            p.call({'op': op, 'obj': rng.choice(B), 'ref': rng.choice(C)})
        elif op == 'store_maybe_ref':
            p.call({'op': op, 'obj': rng.choice(B), 'ref': rng.choice(C + [0])})
        elif op == 'store_slice':
            p.call({'op': op, 'obj': rng.choice(B), 'ref': rng.choice(S)})
        elif op == 'end_cell':
            p.call({'op': op, 'obj': rng.choice(B), 'new': p.next, 'via': rng.choice(['end_cell', 'to_cell'])})
        elif op == 'builder_to_slice':
            p.call({'op': op, 'obj': rng.choice(B), 'new': p.next})
        elif op == 'begin_parse':
            p.call({'op': op, 'obj': rng.choice(C), 'new': p.next, 'via': rng.choice(['begin_parse', 'from_cell'])})
        elif op in ('cell_copy', 'cell_to_builder'):
            p.call({'op': op, 'obj': rng.choice(C), 'new': p.next})
        elif op == 'order':
            p.call({'op': op, 'obj': rng.choice(C), 'via': rng.choice(['default', 'default', 'explicit', 'reuse', 'edit']), 'other': rng.choice(C)})
        elif op == 'observe':
            p.call({'op': op, 'obj': rng.choice(C)})
        elif op == 'adopt_structured':
            # a cell with the shape one of the library's parsers expects (a small dictionary, a message, a VM stack) joins the pool,
            # children included; it is parsed right away and again later, among the other operations
            kind, cell = structured_cell(rng)
            i = p.adopt_tree(cell)
            if i:
                STRUCT[i] = kind
                p.call(dict({'op': 'parse_as', 'obj': i}, **kind))
        elif op == 'parse_as':
            known = [i for i in C if i in STRUCT]
            if known and rng.random() < 0.8:
                i = rng.choice(known)
                p.call(dict({'op': 'parse_as', 'obj': i}, **STRUCT[i]))
            else:
                p.call({'op': 'parse_as', 'obj': rng.choice(C), 'as': rng.choice(['dict', 'dict_aug', 'message', 'stateinit']), 'w': rng.choice([1, 3, 8])})
        elif op in ('load', 'preload'):
            rd = rng.choice([{'what': 'bits', 'n': rng.choice([0, 1, 4, 9])}, {'what': 'uint', 'w': rng.choice([1, 3, 8])},
                             {'what': 'int', 'w': rng.choice([1, 4])}, {'what': 'bit'}, {'what': 'ref'}, {'what': 'maybe_ref'},
                             {'what': 'bytes', 'n': 1}, {'what': 'var_uint', 'L': 4, 'via': 'coins'}])
            p.call(dict(rd, op=op, obj=rng.choice(S)))
        elif op == 'skip_bits':
            p.call({'op': op, 'obj': rng.choice(S), 'n': rng.choice([0, 1, 2, 8])})
        elif op in ('slice_to_cell', 'slice_copy', 'slice_to_builder'):
            p.call({'op': op, 'obj': rng.choice(S), 'new': p.next})
        elif op == 'cell_from_bits':
            nb = rng.choice([0, 1, 7, 8, 9, 64, 1017, 1023])
            refs = [rng.choice(C) for _ in range(rng.randint(0, min(2, len(C))))] if C else []
            p.cell_from_bits([rng.getrandbits(1) for _ in range(nb)], refs, plain=rng.random() < 0.8)
        # after an error drop the (now unspecified) target
        r = p.records[-1]
        if p.dead:
            return
        if r['op'] == 'call' and 'err' in r['out'] and 'obj' in r['call'] and p.objs[r['call']['obj']][0] != 'cell':
            i = r['call']['obj']
            if i not in referenced(p):
                p.call({'op': 'forget', 'ids': [i]})


STRUCT = {}          # pool id -> how to parse it (reset with every behaviour)


def structured_cell(rng):
    from pytoniq_core.boc import Builder, Address
    from pytoniq_core.boc.hashmap.hashmap import HashMap
    k = rng.choice(['dict', 'dict', 'dict_via_holder', 'dict_aug', 'message', 'vmstack', 'pruned', 'pruned', 'pruned'])
    if k == 'pruned':
        # a pruned branch with one of the sparse or dense level masks: cells of level > 0 enter the pool, builders reference them
        mask = rng.choice([1, 2, 4, 3, 5, 6])
        n = bin(mask).count('1')
        y = bytes([1, mask]) + bytes(rng.getrandbits(8) for _ in range(32 * n)) + b''.join(rng.randint(0, 3).to_bytes(2, 'big') for _ in range(n))
        b = Builder(type_=1)
        b.store_bytes(y)
        return {'as': 'dict', 'w': 3}, b.end_cell()
    if k in ('dict', 'dict_via_holder'):
        w = rng.choice([3, 8, 16])
        hm = HashMap(w).with_uint_values(8)
        for _ in range(rng.randint(2, 6)):
            hm.set_int_key(rng.getrandbits(w), rng.getrandbits(8))
        return {'as': k, 'w': w}, hm.serialize()
    if k == 'dict_aug':
        # hand-made HashmapAug 1: a fork with two leaves (label '00', extra 4 bits, value)
        leaf = lambda v: Builder().store_bits('00').store_uint(v & 15, 4).store_uint(v, 8).end_cell()
        return {'as': k, 'w': 1}, Builder().store_bits('00').store_ref(leaf(rng.getrandbits(8))).store_ref(leaf(rng.getrandbits(8))).store_uint(9, 4).end_cell()
    if k == 'message':
        from pytoniq_core.tlb.transaction import MessageAny, InternalMsgInfo
        from pytoniq_core.tlb.block import CurrencyCollection
        info = InternalMsgInfo(True, False, False, Address((0, bytes(rng.getrandbits(8) for _ in range(32)))),
                               Address((-1, bytes(rng.getrandbits(8) for _ in range(32)))), CurrencyCollection(rng.randint(0, 10 ** 9)), 0, 0, 5, 7)
        body = Builder().store_uint(rng.getrandbits(32), 32).store_ref(Builder().store_uint(7, 8).end_cell()).end_cell()
        return {'as': k}, MessageAny(info, None, body).serialize()
    if rng.random() < 0.5:
        # vm_stk_slice over a proper sub-window [st, end) of the bits and references of its cell (what get-method answers carry)
        kids = [Builder().store_uint(j + 1, 8).end_cell() for j in range(3)]
        target = Builder().store_uint(rng.getrandbits(32), 32)
        for kd in kids:
            target.store_ref(kd)
        target = target.end_cell()
        sb, eb, sr, er = rng.choice([(8, 24, 1, 2), (0, 16, 0, 1), (4, 32, 2, 3), (0, 32, 1, 3)])
        stack = (Builder().store_uint(1, 24).store_ref(Builder().end_cell()).store_uint(4, 8).store_ref(target)
                 .store_uint(sb, 10).store_uint(eb, 10).store_uint(sr, 3).store_uint(er, 3).end_cell())
        return {'as': 'vmstack'}, stack
    from pytoniq_core.tlb.vm_stack import VmStack
    vals = [rng.randint(-5, 5), Builder().store_uint(rng.getrandbits(8), 8).end_cell(), [1, [2, 3]], None][:rng.randint(1, 4)]
    return {'as': 'vmstack'}, VmStack.serialize(vals)


def generate(tier, seed, ctx):
    rng = random.Random(seed)
    nbeh = 300 if tier == 'quick' else 5000
    shards, pool = [], None
    for k in range(nbeh):
        if k % 10 == 0:
            pool = bk.Pool()
            shards.append(pool.records)
        else:
            pool.reset()
        STRUCT.clear()
        behaviour(pool, rng, rng.randint(30, 60))
    # spec -> code: behaviours of the TonBag machine chosen by TLC (simulation mode), replayed call by call; what the library
    # did is recorded like everything else and goes back to TLC for validation
    sims = ctx['mc'].get('bag_sim', [])
    want = 150 if tier == 'quick' else 3000          # (TLC prints every candidate last step of every simulated behaviour)
    if len(sims) > want:
        sims = rng.sample(sims, want)
    for j, calls in enumerate(sims):
        if j % 10 == 0:
            pool = bk.Pool()
            shards.append(pool.records)
        else:
            pool.reset()
        for c in calls:
            pool.call(dict(c), tags=['tlc_behaviour'])
    k = 0
    for sh in shards:
        for r in sh:
            k += 1
            r['i'] = k
    return shards


def nontrivial_key(r):
    if r.get('op') != 'call':
        return None
    c = r['call']
    return (c['op'], c.get('what'), c.get('via'), len(r['post']), 'err' in r['out'])


def extra_coverage(flat, ctx):
    calls = [r for r in flat if r.get('op') == 'call']
    return {'behaviours': sum(1 for r in flat if r.get('op') == 'reset'),
            'calls_of_tlc_simulated_behaviours_replayed': sum(1 for r in calls if 'tlc_behaviour' in r.get('tags', [])),
            'max_live_objects': max(len(r['post']) for r in calls),
            'live_object_projections_checked': sum(len(r['post']) for r in calls)}
