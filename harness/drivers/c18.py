"""C18 driver: record crc16 / crc32c outputs of the library for TLC to validate."""
import random

from pytoniq_core.crypto.crc import crc16, crc32c

PROP = 'C18'
TRACE_MODULE = 'C18Trace.tla'
RULE = ('records = byte strings: all 256 one-byte strings (every table entry of both tables), all two-byte strings '
        '(thorough) or a seeded 1/32 sample (quick), structured lengths 0..64 x patterns, seeded-random strings up to '
        '4 KiB; distinct = distinct byte strings of length >= 1')
ASSUMPTIONS = ['TonCrc bit-serial definitions anchored on the catalogue check values for "123456789" (ASSUME in MC_Crc)',
               'TLC/SANY 1.8.0 and CommunityModules Bitwise xor']
EXHAUSTIVE = {'quick': False, 'thorough': False}


def model_checks(tier):
    n = 2 if tier == 'quick' else 3
    cfg = ('INIT Init\nNEXT Next\nCONSTANTS MaxLen = %d\nAlphabet = {0, 1, 128, 255, 90%s}\n'
           'INVARIANT Lin16\nINVARIANT Lin32\nINVARIANT Affine32\nINVARIANT Burst32\nINVARIANT Burst16\n' % (n, '' if tier == 'quick' else ', 17'))
    return [dict(name='crc_algebra', module='MC_Crc.tla', cfg=cfg, workers=8)]


def rec(data):
    data = bytes(data)
    return {'op': 'crc', 'data': list(data), 'c16': list(crc16(data)), 'c32le': list(crc32c(data)),
            'c32be': list(crc32c(data, 'big'))}


def generate(tier, seed, ctx):
    rng = random.Random(seed)
    out = [rec(b'')]
    out += [rec(bytes([b])) for b in range(256)]
    if tier == 'thorough':
        out += [rec(bytes([a, b])) for a in range(256) for b in range(256)]
    else:
        out += [rec(bytes([a, b])) for a in range(256) for b in range(256) if rng.random() < 1 / 32]
    for n in range(0, 65):
        for pat in (b'\x00', b'\xff', b'\xaa', b'\x01', b'\x80'):
            out.append(rec(pat * n))
        out.append(rec(bytes(rng.getrandbits(8) for _ in range(n))))
    k = 150 if tier == 'quick' else 3000
    for _ in range(k):
        n = rng.choice([3, 4, 5, 7, 8, 9, 15, 16, 17, 31, 32, 33, 36, 100, 255, 256, 257, 1000])
        out.append(rec(bytes(rng.getrandbits(8) for _ in range(n))))
    for n in ([4096, 2049] if tier == 'quick' else [4096, 4095, 2049, 3000, 1025, 4000]):
        out.append(rec(bytes(rng.getrandbits(8) for _ in range(n))))
    return out


def canary(r, rng):
    f = rng.choice(['c16', 'c32le', 'c32be'])
    j = rng.randrange(len(r[f]))
    r[f][j] ^= 1 << rng.randrange(8)
    r['canary'] = f
    return r


def nontrivial_key(r):
    return bytes(r['data']) if r['data'] else None
