"""C18 driver: record crc16 / crc32c outputs of the library for TLC to validate."""
import random

from pytoniq_core.crypto.crc import crc16, crc32c

PROP = 'C18'
TRACE_MODULE = 'C18Trace.tla'
RULE = ('records = byte strings: all 256 one-byte strings (every table entry of both tables), all two-byte strings '
        '(thorough) or a seeded 1/32 sample (quick), structured lengths 0..64 x patterns, seeded-random strings up to '
        '4 KiB; crafted strings (up to 64 KiB + 37) whose internal register is exactly zero at every power-of-two boundary; both byte orders also '
        'named by run-time string objects and by keyword; the data also held by bytearray / memoryview objects; distinct = distinct byte strings of length >= 1')
ASSUMPTIONS = ['TonCrc bit-serial definitions anchored on the catalogue check values for "123456789" (ASSUME in MC_Crc)',
               'TLC/SANY 1.8.0 and CommunityModules Bitwise xor']
EXHAUSTIVE = {'quick': False, 'thorough': False}


def model_checks(tier):
    n = 2 if tier == 'quick' else 3
    cfg = ('INIT Init\nNEXT Next\nCONSTANTS MaxLen = %d\nAlphabet = {0, 1, 128, 255, 90%s}\n'
           'INVARIANT Lin16\nINVARIANT Lin32\nINVARIANT Affine32\nINVARIANT Burst32\nINVARIANT Burst16\n' % (n, '' if tier == 'quick' else ', 17'))
    return [dict(name='crc_algebra', module='MC_Crc.tla', cfg=cfg, workers=8)]


def rec(data, dyn=False, forms=False):
    data = bytes(data)
    if len(data) % 7 == 3:
        # a rejected call (unknown byte order, surplus argument) right before: what it leaves behind has no bearing on the next call
        for bad in (lambda: crc32c(data, 'LITTLE'), lambda: crc32c(data + b'x', 'middle'), lambda: crc16(data, 'bogus'), lambda: crc16(None)):
            try:
                bad()
            except Exception:
                pass
    r = {'op': 'crc', 'data': list(data), 'c16': list(crc16(data)), 'c32le': list(crc32c(data)),
         'c32be': list(crc32c(data, 'big'))}
    if forms:
        # the data held by other bytes-like objects (Cell.to_boc itself passes a bytearray), the byte order given by position or keyword
        r['forms'] = []
        for mk in (bytearray, memoryview, lambda d: memoryview(bytearray(d))):
            try:
                r['forms'].append({'c16': list(crc16(mk(data))), 'le': list(crc32c(mk(data))), 'be': list(crc32c(mk(data), 'big')),
                                   'bek': list(crc32c(mk(data), byteorder='big')), 'lek': list(crc32c(mk(data), byteorder='little'))})
            except Exception as e:
                r['forms'].append({'err': type(e).__name__})
    if dyn:
        # the byte order named by string objects created at run time (equal to, but not identical with, the literals)
        r['be2'] = list(crc32c(data, ''.join(['b', 'i', 'g'])))
        r['le2'] = list(crc32c(data, b'little'.decode()))
    return r


def _raw32(data, reg=0xFFFFFFFF):
    """input construction only (never a verdict): the raw CRC-32C register after `data`"""
    for b in data:
        reg ^= b
        for _ in range(8):
            reg = (reg >> 1) ^ (0x82F63B78 if reg & 1 else 0)
    return reg


def _raw16(data, reg=0):
    for b in data:
        reg ^= b << 8
        for _ in range(8):
            reg = ((reg << 1) ^ 0x1021 if reg & 0x8000 else reg << 1) & 0xFFFF
    return reg


def register_zero_input(rng, boundaries, tail, which):
    """a byte string whose internal register is exactly zero after `b` bytes for every b in boundaries (feeding a register its own
    value zeroes it): implementations that process the data in blocks, or treat a zero register as "start", slip here"""
    data = bytearray()
    r32, r16 = 0xFFFFFFFF, 0
    for b in boundaries:
        w = 4 if which == 32 else 2
        fill = bytes(rng.getrandbits(8) for _ in range(b - w - len(data)))
        data += fill
        r32, r16 = _raw32(fill, r32), _raw16(fill, r16)
        own = r32.to_bytes(4, 'little') if which == 32 else r16.to_bytes(2, 'big')
        data += own
        r32, r16 = _raw32(own, r32), _raw16(own, r16)
    return bytes(data) + bytes(rng.getrandbits(8) for _ in range(tail))


def generate(tier, seed, ctx):
    rng = random.Random(seed)
    out = [rec(b'')]
    out += [rec(bytes([b])) for b in range(256)]
    if tier == 'thorough':
        out += [rec(bytes([a, b])) for a in range(256) for b in range(256)]
    else:
        out += [rec(bytes([a, b])) for a in range(256) for b in range(256) if rng.random() < 1 / 32]
    for n in range(0, 65):
        for pat in (b'\x00', b'\xff', b'\xaa', b'\x01', b'\x80'):
            out.append(rec(pat * n))
        out.append(rec(bytes(rng.getrandbits(8) for _ in range(n))))
    k = 150 if tier == 'quick' else 3000
    for _ in range(k):
        n = rng.choice([3, 4, 5, 7, 8, 9, 15, 16, 17, 31, 32, 33, 36, 100, 255, 256, 257, 1000])
        out.append(rec(bytes(rng.getrandbits(8) for _ in range(n))))
    for n in ([4096, 2049] if tier == 'quick' else [4096, 4095, 2049, 3000, 1025, 4000]):
        out.append(rec(bytes(rng.getrandbits(8) for _ in range(n))))
    for r in rng.sample(out, 40):
        r.update(rec(r['data'], dyn=True))
    for r in out[:4] + rng.sample(out, 60):
        r.update(rec(r['data'], forms=True))
    # registers passing through zero at block boundaries (every power of two up to 64 KiB, and just around them)
    pw = [2 ** k for k in range(3, 17)]
    out.append(rec(register_zero_input(rng, pw, 37, 32), dyn=True))
    out.append(rec(register_zero_input(rng, pw, 37, 16)))
    out.append(rec(register_zero_input(rng, [k * 4096 for k in range(1, 9)], 5, 32)))
    out.append(rec(register_zero_input(rng, [1000, 10000, 50000] if tier == 'quick' else [1000, 10000, 100000], 1, 32)))
    return out


def canary(r, rng):
    f = rng.choice(['c16', 'c32le', 'c32be'])
    j = rng.randrange(len(r[f]))
    r[f][j] ^= 1 << rng.randrange(8)
    r['canary'] = f
    return r


def nontrivial_key(r):
    return bytes(r['data']) if r['data'] else None
