"""C14 driver: TlSchemas.serialize / deserialize for every supported bundled constructor, and the BlockIdExt helpers."""
import json
import os
import random

import tlkit
import vlib
from pytoniq_core.tl.block import BlockIdExt
from pytoniq_core.tl.generator import TlGenerator
from vlib import big

PROP = 'C14'
TRACE_MODULE = 'C14Trace.tla'
RULE = ('every bundled constructor whose field types are in {int, long, #, Bool, int128, int256, string, bytes, true, (vector T), bare and '
        'boxed object types} (transitively): a base value, every flag combination (<= 64), string/bytes lengths {0..4, 252..257, 65536} on '
        'each string/bytes field, vector lengths {0, 1, 3}, each alternative of every polymorphic field, boxed objects carried in bytes fields, the smallest encodings, random values; malformed nested input interleaved on the same schemas object; boxed serialisation, '
        'parse back; BlockIdExt helpers on boundary values; distinct = distinct (constructor, emitted bytes)')
ASSUMPTIONS = ['the schema-as-data reader (tlkit) is untrusted: TLC re-renders every constructor to its declaration text and recomputes the '
               'constructor id (CRC-32/IEEE of the declaration without ;()) itself', 'well-typed value: optional field present iff its flag bit '
               'is set; int128/int256 as hex strings; # is an unsigned 32-bit natural; text strings are UTF-8 (ASCII and multi-byte characters, also texts that begin with the bytes of a constructor id); a bytes value is raw bytes that do not begin with a known constructor id, or boxed TL objects (one or several) which the parser hands back as objects (except in the two fields the library documents as untouched)',
               'library dicts are converted to the specification\'s value shape by tlkit.to_spec (glue); comparison is done by TLC']
V_ENV = {}


def model_checks(tier):
    return [dict(name='tl_m', module='MC_TL.tla', workers=8, timeout=900,
                 cfg='INIT Init\nNEXT Next\nINVARIANT Injective\nINVARIANT PrefixFree\nCHECK_DEADLOCK FALSE\n')]


UNTOUCHED = {'adnl.message.part': {'data'}, 'overlay.broadcastFec': {'data'}}    # fields the library documents as never auto-parsed


def hostile(tl, out, rng, payloads, names):
    """malformed input fed to the SAME long-lived schemas object between the round trips (no expectation on these calls themselves:
    what is demanded is that the round trips around them are unaffected - results are a function of the input, not of history)"""
    outer = tl.get_by_name('adnl.message.query')
    for pl in rng.sample(payloads, min(len(payloads), 7)):
        rec = {'op': 'tl_hostile', 'bytes': list(pl)}
        try:
            data = tl.serialize(outer, {'query_id': '11' * 32, 'query': pl}, boxed=True)
            tl.deserialize(data)
            rec['out'] = {'ok': 1}
        except Exception as e:
            rec['out'] = {'err': type(e).__name__}
        out.append(rec)


class Timeout(Exception):
    pass


def _alarm(signum, frame):
    raise Timeout()


def one(tl, db, name, d, boxed=True):
    import signal
    signal.signal(signal.SIGALRM, _alarm)
    signal.alarm(20)          # machinery watchdog: a stuck call is recorded as an error of that call (work bounds are C19's subject)
    try:
        return _one(tl, db, name, d, boxed)
    finally:
        signal.alarm(0)


def scramble(x, depth=0):
    """what a caller may do with a value it was handed: empty it, recursively"""
    if depth > 8:
        return
    if isinstance(x, dict):
        for v in list(x.values()):
            scramble(v, depth + 1)
        x.clear()
    elif isinstance(x, list):
        for v in x:
            scramble(v, depth + 1)
        del x[:]


def _one(tl, db, name, d, boxed=True):
    rec = {'op': 'tl', 'c': name, 'boxed': int(boxed), 'v': tlkit.to_spec(db, name, d)}
    try:
        data = tl.serialize(tl.get_by_name(name), tlkit.lib_value(tl, d), boxed=boxed)
        rec['out'] = {'bytes': list(data)}
    except Exception as e:
        rec['out'] = {'err': type(e).__name__}
        rec['back'] = {'err': 'not_serialized'}
        return rec
    try:
        if len(data) % 4 == 0 and (len(data) // 4) % 3 == 0:
            # the caller took an earlier parse of the very same bytes apart (it owns what it was given)
            first = tl.deserialize(data) if boxed else tl.deserialize(data, False, tl.get_by_name(name).args)
            scramble(first[0])
        if boxed:
            back, used = tl.deserialize(data)
        else:
            back, used = tl.deserialize(data, False, tl.get_by_name(name).args)
        rec['back'] = {'v': tlkit.to_spec(db, name, back), 'used': used}
    except Exception as e:
        rec['back'] = {'err': type(e).__name__}
        return rec
    # second generation: what the parser returned (labelled with '@type' throughout), serialised again, is the same encoding
    try:
        rec['again'] = {'bytes': list(tl.serialize(tl.get_by_name(name), back, boxed=boxed))}
    except Exception as e:
        rec['again'] = {'err': type(e).__name__}
    return rec


def generate(tier, seed, ctx):
    rng = random.Random(seed)
    q = tier == 'quick'
    db = tlkit.load_schemas()
    sj = tlkit.schema_json(db)
    path = os.path.join(ctx['work'], 'tl_schemas.json')
    os.makedirs(ctx['work'], exist_ok=True)
    json.dump(sj, open(path, 'w'))
    V_ENV['SCHEMA_FILE'] = path
    # schemas objects are independent of one another: an earlier object whose public parsing settings were changed (as the
    # repository's own tests do) has no bearing on the one used from here on
    earlier = TlGenerator.with_default_schemas().generate()
    earlier.untouchables['adnl.message.query'] = {'query'}
    earlier.untouchables['adnl.message.answer'] = {'answer'}
    earlier._auto_deserialize = False
    tl = TlGenerator.with_default_schemas().generate()
    g = tlkit.Gen(db, rng)
    out = []
    names = [e['name'] for e in db.values() if e['ok']]
    longs = []                                   # (constructor, string/bytes field) pairs
    # constructor ids whose four little-endian bytes are text
    idtexts = []
    for sch in tl.list:
        try:
            idtexts.append(bytes(sch.id[::-1]).decode('utf-8'))
        except Exception:
            pass
    idtexts = sorted(set(idtexts)) or ['abcd']
    # truncated ids (those whose missing high bytes are zero come first: a lookup that zero-extends would find them)
    short_ids = []
    for sch in tl.list:
        le = bytes(sch.id[::-1])
        for n in (3, 2, 1):
            if all(b == 0 for b in le[n:]):
                short_ids.insert(0, le[:n])
            else:
                short_ids.append(le[:n])
    short_ids = short_ids[:40] + rng.sample(short_ids, 40)
    # payloads that fail INSIDE a nested parse: a constructor whose first field is a vector, announcing elements that are not there
    hostile_payloads = [bytes(tl.get_by_name(n).id[::-1]) + (3).to_bytes(4, 'little') for n in names
                        if db[n]['fields'] and db[n]['fields'][0]['t']['k'] == 'vector' and not db[n]['fields'][0]['c']][:12]
    for name in names:
        e = db[name]
        sch = tl.get_by_name(name)
        out.append({'op': 'schema', 'name': name, 'libid': list(sch.id) if sch is not None else []})
        vals = []
        flagfields = [f for i, f in enumerate(e['fields']) if f['t']['k'] == 'nat' and any(h['c'] and h['c'][0] == i + 1 for h in e['fields'])]
        if flagfields:
            ff = flagfields[0]
            idx = e['fields'].index(ff) + 1
            bits = sorted({h['c'][1] for h in e['fields'] if h['c'] and h['c'][0] == idx})
            combos = range(1 << len(bits))
            if len(bits) > (3 if q else 6):
                combos = rng.sample(range(1 << len(bits)), 8 if q else 64)
            for m in combos:
                fv = sum(1 << b for j, b in enumerate(bits) if (m >> j) & 1)
                vals.append(g.ctor(name, flags={ff['n']: fv}))
        else:
            vals.append(g.ctor(name))
        for f in e['fields']:
            if f['c']:
                continue
            k = f['t']['k']
            if k in ('bytes', 'string'):
                for n in ([0, 1, 3, 4, 253, 254, 255] if q else [0, 1, 2, 3, 4, 252, 253, 254, 255, 256, 257, 65535, 65536, 70001]):
                    if rng.random() < (0.35 if q else (1.0 if n < 60000 else 0.1)):
                        vals.append(g.ctor(name, hints={f['n']: n}))
                longs.append((name, f['n']))
                if k == 'string' and rng.random() < (0.5 if q else 1.0):
                    # multi-byte text at the 253/254-byte boundary and in the long form (characters != bytes)
                    for txt in ('h\u00e9llo', '\u00e9' * 126 + 'a', '\u00e9' * 127, '\u20ac' * 100, '\U0001d11e' * 63 + 'ab'):
                        vals.append(g.ctor(name, hints={f['n']: txt}))
                if k == 'bytes' and f['n'] not in UNTOUCHED.get(name, ()) and rng.random() < (0.4 if q else 1.0):
                    # the field carries boxed objects (one; several, concatenated), which the parser hands back as objects
                    for nest in (1, 2, 3):
                        vals.append(g.ctor(name, hints={f['n']: {'nest': nest}}))
                if k == 'bytes' and rng.random() < (0.25 if q else 1.0):
                    # raw bytes that are the first one, two or three bytes of a constructor id (not an id: they stay raw bytes)
                    for sid in rng.sample(short_ids, 3 if q else 12):
                        vals.append(g.ctor(name, hints={f['n']: ('raw', sid)}))
                if k == 'string' and rng.random() < (0.3 if q else 1.0):
                    # a text is a text whatever it starts with - also the four bytes of a constructor id
                    for idt in rng.sample(idtexts, 2 if q else 8):
                        vals.append(g.ctor(name, hints={f['n']: idt + rng.choice(['', ' ok', '\u00e9', 'x' * 300])}))
            elif k == 'vector':
                for n in (0, 1, 3):
                    vals.append(g.ctor(name, hints={f['n']: n}))
                # the smallest encodings: every optional part absent, every string empty, 1 and 2 elements
                g.minimal = True
                for n in (1, 2):
                    vals.append(g.ctor(name, hints={f['n']: n}))
                g.minimal = False
            elif k == 'boxed' and not q:
                for alt in g.alts[f['t']['cls']][:6]:
                    v = g.ctor(name)
                    v[f['n']] = g.ctor(alt, 1, tag=True)
                    vals.append(v)
        for _ in range(0 if q else 6):
            vals.append(g.ctor(name))
        g.minimal = True
        vals.append(g.ctor(name))
        g.minimal = False
        if len(out) % 40 < 3:
            hostile(tl, out, rng, hostile_payloads, names)
        for d in vals:
            out.append(one(tl, db, name, d, boxed=True))
        if rng.random() < 0.2:
            out.append(one(tl, db, name, vals[0], boxed=False))
    # the three-byte length of the long string form needs its third byte from 65536 bytes on (quick: a few fields)
    if q:
        for (name, fn), n in zip(rng.sample(longs, min(6, len(longs))), [65535, 65536, 65537, 70001, 65536, 131072]):
            out.append(one(tl, db, name, g.ctor(name, hints={fn: n}), boxed=True))
    # BlockIdExt helpers
    for _ in range(40 if q else 1500):
        wc = rng.choice([-1, -2, 0, 1, 2 ** 31 - 1, -2 ** 31, rng.randint(-2 ** 31, 2 ** 31 - 1)])
        shard = rng.choice([-2 ** 63, 2 ** 63 - 1, 0, -1, -2 ** 62, -2, rng.randint(-2 ** 63, 2 ** 63 - 1)])
        seqno = rng.choice([0, 1, 2 ** 31 - 1, -1, -2 ** 31, rng.randint(0, 2 ** 31 - 1), rng.randint(-2 ** 31, -1)])   # TL int: signed 32-bit
        root, file = bytes(rng.getrandbits(8) for _ in range(32)), bytes(rng.getrandbits(8) for _ in range(32))
        rec = {'op': 'blockid', 'workchain': big(wc), 'shard': big(shard), 'seqno': big(seqno), 'root': list(root), 'file': list(file)}
        b = BlockIdExt(wc, shard, seqno, root, file)
        try:
            raw = b.to_bytes()
            rec['bytes'] = list(raw)
            fb = BlockIdExt.from_bytes(raw)
            rec['from_bytes'] = {'workchain': big(fb.workchain), 'shard': big(fb.shard), 'seqno': big(fb.seqno),
                                 'root': list(fb.root_hash if isinstance(fb.root_hash, bytes) else bytes.fromhex(fb.root_hash)),
                                 'file': list(fb.file_hash if isinstance(fb.file_hash, bytes) else bytes.fromhex(fb.file_hash))}
            rec['rt_bytes'] = int(fb == b and fb.to_bytes() == raw)
        except Exception as e:
            rec['rt_bytes'] = 0
        try:
            d = b.to_dict()
            b2 = BlockIdExt.from_dict(d)
            rec['rt_dict'] = int(b2 == b and b2.to_dict() == d and BlockIdExt(wc, shard, seqno, root.hex(), file.hex()) == b)
        except Exception:
            rec['rt_dict'] = 0
        # ids that differ in one field only are different ids - also where the integers' own hashes coincide (-1 / -2, values
        # 2^61 - 1 apart) - and occupy two dictionary slots
        try:
            near = [BlockIdExt(wc2, shard, seqno, root, file) for wc2 in ({-1: -2, -2: -1}.get(wc, wc + 1),)] + \
                   [BlockIdExt(wc, shard, s2, root, file) for s2 in ({-1: -2, -2: -1}.get(seqno, seqno ^ 1),)] + \
                   [BlockIdExt(wc, sh2, seqno, root, file) for sh2 in ({-2 ** 62: -2 ** 61, -2 ** 63: -4, -1: -2}.get(shard, shard ^ (1 << 60)),)] + \
                   [BlockIdExt(wc, shard, seqno, root[:-1] + bytes([root[-1] ^ 1]), file)]
            rec['distinct'] = int(all(x != b and b != x and not (x == b) and len({b: 1, x: 2}) == 2 for x in near))
        except Exception:
            rec['distinct'] = 0
        try:
            twin = BlockIdExt(wc, shard, seqno, bytes(root), bytes(file))
            rec['hashable'] = int(isinstance(hash(b), int))
            rec['collide'] = int(hash(b) == hash(twin) and len({b: 1, twin: 2}) == 1)
        except Exception:
            rec['hashable'] = 0
            rec['collide'] = 0
        out.append(rec)
    return out


def canary(r, rng):
    if r['op'] == 'tl' and 'bytes' in r['out'] and r['out']['bytes'] and len(r['out']['bytes']) < 3000:
        r['out']['bytes'][rng.randrange(len(r['out']['bytes']))] ^= 1
        r['canary'] = 'byte'
        return r
    return None


def nontrivial_key(r):
    if r['op'] == 'tl' and 'bytes' in r['out']:
        return (r['c'], bytes(r['out']['bytes']))
    return None


def extra_coverage(flat, ctx):
    cs = {r['c'] for r in flat if r['op'] == 'tl'}
    return {'constructors_exercised': len(cs), 'constructor_ids_checked': sum(1 for r in flat if r['op'] == 'schema'),
            'serialize_errors': sum(1 for r in flat if r['op'] == 'tl' and 'err' in r['out']),
            'parse_errors': sum(1 for r in flat if r['op'] == 'tl' and 'err' in r.get('back', {})),
            'blockid_cases': sum(1 for r in flat if r['op'] == 'blockid')}
