"""C02 driver: exotic cells (pruned / library / Merkle proof / Merkle update) built and parsed; masks, per-level
hashes and depths recorded for TLC."""
import base64
import os
import random
import re

import bockit as bk
import cellkit as ck
from pytoniq_core.boc import Cell
from drivers.c01 import dag_cfg

PROP = 'C02'
TRACE_MODULE = 'C02Trace.tla'
RULE = ('G: every heap of the CellDag machine with exotic constructors (<= MaxCells) and every state of the directed '
        'pruning machine MC_Prune (tree, wraps, prunings; pruned twin + original), each through routes builder/ctor/boc/boc_wh (a foreign bag that stores hashes next to cells); '
        'random: random DAGs with random prunings at levels 1..3 under 0..2 Merkle wrappers; the bundled main-net block '
        '(301 cells, 82 exotic); distinct = distinct (route, root hash) of records containing an exotic cell')
ASSUMPTIONS = ['TonSha.Sha256 anchored on FIPS vectors', 'TonCell transcription of TON DataCell::create / LevelMask',
               'random part: stored hashes of pruned branches are filled from the library (input construction only; every '
               'level hash of every cell is re-derived by TLC from the recorded content)']
ROUTES = ['builder', 'ctor', 'boc', 'boc_wh']


def prune_cfg(wrap, depth, kids, lens, symbolic, emit, invs=True):
    s = ('SPECIFICATION Spec\nCONSTANTS MaxWrap = %d\n TreeDepth = %d\n MaxKids = %d\n DataLens = {%s}\n Symbolic = %s\n Emit = %s\n'
         % (wrap, depth, kids, ', '.join(map(str, lens)), symbolic, emit))
    if invs:
        s += 'INVARIANT PruningInvariance\nINVARIANT AllValid\nINVARIANT Complete\n'
    if emit == 'TRUE':
        s += 'INVARIANT Export\n'
    return s + 'CHECK_DEADLOCK FALSE\n'


ALLX = '{"pruned", "library", "mproof", "mupdate"}'
XINV = ['AllValid', 'HashEqIffUnfoldEq', 'DepthDef', 'LevelsFlat', 'MaskLaws', 'PrunedCarries', 'PruningInvariance']


def dagx_cfg(maxcells, bitlens, maxrefs, maxlvl, symbolic, emit, invs):
    s = dag_cfg(maxcells, bitlens, maxrefs, ALLX, maxlvl, symbolic, emit, invs=False)
    if invs:
        s = s.replace('CHECK_DEADLOCK', ''.join('INVARIANT %s\n' % x for x in XINV) + 'CHECK_DEADLOCK')
    return s


def model_checks(tier):
    q = tier == 'quick'
    return [
        dict(name='dagx_g', module='MC_CellDag.tla', gen=True, workers=1, cfg=dagx_cfg(3, [1, 9] if q else [0, 1, 9], 2, 3, 'FALSE', 'TRUE', False)),
        dict(name='prune_chain_g', module='MC_Prune.tla', gen=True, workers=1, timeout=900 if q else 5400, cfg=prune_cfg(2, 3, 1, [1], 'FALSE', 'TRUE', invs=not q)),
        dict(name='prune_wide_g', module='MC_Prune.tla', gen=True, workers=1, timeout=900 if q else 5400, cfg=prune_cfg(1 if q else 2, 1, 2, [0, 1], 'FALSE', 'TRUE', invs=not q)),
        dict(name='dagx_sym', module='MC_CellDag.tla', workers=8, timeout=1500,
             cfg=dagx_cfg(3 if q else 4, [0, 1, 9] if q else [1], 2, 2, 'TRUE', 'FALSE', True)),
        dict(name='prune_sym', module='MC_Prune.tla', workers=8 if q else 16, timeout=1500 if q else 5400,
             cfg=prune_cfg(2, 1 if q else 2, 2, [0, 1], 'TRUE', 'FALSE')),
        dict(name='prune_chain_sym', module='MC_Prune.tla', workers=4, timeout=1500,
             cfg=prune_cfg(2, 3, 1, [1], 'TRUE', 'FALSE')),
    ]


def record(heap, route, rng, twins=(), note=None):
    rec = {'op': 'xcells', 'route': route, 'pairs': [], 'twins': [list(t) for t in twins]}
    if note:
        rec['note'] = note
    try:
        objs = ck.build_heap(heap, 'ctor' if route == 'ctor' else 'builder')
        if route in ('boc', 'boc_wh'):
            roots = [o for k, o in enumerate(objs) if not any((k + 1) in c['r'] for c in heap)]
            if route == 'boc':
                parsed = Cell.from_boc(roots[-1].to_boc())
            else:
                # the same bag written by a foreign encoder that stores hashes and depths next to special cells / all cells
                parsed = Cell.from_boc(bk.emit_with_hashes(roots[-1], rng.choice(['exotic', 'exotic', 'level', 'all'])))
            _, _, objs = ck.project(parsed)
            rec['twins'] = []
    except Exception as e:
        rec['err'] = type(e).__name__
        rec['cells'] = heap
        return rec
    heap2, _, pobjs = ck.project(objs)
    if route not in ('boc', 'boc_wh') and len(heap2) == len(heap):
        # keep the driver's numbering so that twin indices stay meaningful (project() may reorder)
        heap2, pobjs = [dict(ck.abstract(o), r=list(c['r'])) for o, c in zip(objs, heap)], objs
    else:
        rec['twins'] = []
    cells = []
    for a, o in zip(heap2, pobjs):
        a = dict(a)
        a.update(ck.observe(o, with_repr=False))
        cells.append(a)
    rec['cells'] = cells
    rec['pairs'] = [p[:3] + [0] for p in ck.pairs_of(pobjs, rng, 10)]
    return rec


def lib_pruned(cell, lvl):
    """abstract pruned branch for a live library cell at level lvl (input construction)."""
    m0 = cell.level_mask.mask
    m = m0 | (1 << (lvl - 1))
    levels = [l for l in range(0, 3) if l < m.bit_length() and (l == 0 or (m >> (l - 1)) & 1)]
    y = bytes([1, m]) + b''.join(cell.get_hash(l) for l in levels) + b''.join(cell.get_depth(l).to_bytes(2, 'big') for l in levels)
    return {'t': 1, 'n': 8 * len(y), 'y': list(y), 'r': []}


def random_pruned_case(rng):
    """random ordinary DAG; a pruned twin in which random subtrees are replaced by pruned branches; optional wrappers."""
    n = rng.randint(3, 12)
    heap = ck.rand_heap(rng, n, [0, 1, 7, 8, 9, 64, 255, 1017, 1023], max_refs=3)
    objs = ck.build_heap(heap, 'builder')
    wraps = rng.randint(0, 2)
    # twin heap: cells 1..n original, then pruned/rebuilt copies
    out = [dict(c) for c in heap]
    live = list(objs)
    twin_of = {}
    twins = []
    pruned_set = set(k for k in range(1, n) if rng.random() < 0.3)

    def add(c):
        out.append(c)
        return len(out)

    def rebuild(k):   # -> index in out of the twin of original cell k (1-based)
        if k in twin_of:
            return twin_of[k]
        if k in pruned_set:
            lvl = rng.randint(wraps + 1, 3)
            idx = add(lib_pruned(objs[k - 1], lvl))
        else:
            kids = [rebuild(j) for j in heap[k - 1]['r']]
            if kids == heap[k - 1]['r']:
                idx = k
            else:
                idx = add(dict(heap[k - 1], r=kids))
        twin_of[k] = idx
        if idx != k and k not in pruned_set:
            twins.append((idx, k))
        return idx

    root_t = rebuild(n)
    return out, twins, n, root_t, wraps


def wrap_merkle(heap, k_list, objs_builder):
    pass


def generate(tier, seed, ctx):
    rng = random.Random(seed)
    out = []
    for h in ctx['mc'].get('dagx_g', []):
        if not any(c['t'] for c in h):
            continue
        for route in ROUTES:
            out.append(record(h, route, rng))
    for name in ('prune_chain_g', 'prune_wide_g'):
        for st in ctx['mc'].get(name, []):
            ph, oh = st['heap'], st['oheap']
            if not any(c['t'] == 1 for c in ph):
                continue
            # one heap holding the original and the pruned twin; indices of the twin shifted
            off = len(oh)
            both = oh + [dict(c, r=[j + off for j in c['r']]) for c in ph]
            tw = [(st['root'] + off, st['oroot'])]
            out.append(record(both, rng.choice(['builder', 'ctor']), rng, tw, note=name))
            out.append(record(ph, rng.choice(['boc', 'boc_wh']), rng, note=name))
    # random prunings (stored hashes from the library), with Merkle wrappers built by the library values too
    for _ in range(40 if tier == 'quick' else 600):
        heap, twins, n, root_t, wraps = random_pruned_case(rng)
        try:
            objs = ck.build_heap(heap, 'builder')
        except Exception as e:
            out.append({'op': 'xcells', 'route': 'builder', 'pairs': [], 'twins': [], 'err': type(e).__name__, 'cells': heap})
            continue
        # wrappers over both the original root (n) and the twin root
        a, b = n, root_t
        for w in range(wraps):
            for which in (0, 1):
                k = (a, b)[which]
                o = ck.build_heap(heap, 'builder')[k - 1]
                y = bytes([3]) + o.get_hash(0) + o.get_depth(0).to_bytes(2, 'big')
                heap.append({'t': 3, 'n': 8 * len(y), 'y': list(y), 'r': [k]})
                if which == 0:
                    a = len(heap)
                else:
                    b = len(heap)
        if a != b:
            twins = list(twins) + [(b, a)]
        out.append(record(heap, rng.choice(ROUTES[:2]), rng, twins, note='random'))
        if rng.random() < 0.5:
            out.append(record(heap[:], rng.choice(['boc', 'boc_wh']), rng, note='random'))
    # the bundled main-net block
    src = open(os.environ.get('VERIF_REPO', '/repo') + '/tests/test_cell.py').read()
    b64 = re.search(r"block_boc = '([^']+)'", src).group(1)
    root = Cell.one_from_boc(base64.b64decode(b64))
    h, _, objs = ck.project([root])
    cells = []
    for a, o in zip(h, objs):
        a = dict(a)
        a.update(ck.observe(o, with_repr=False))
        cells.append(a)
    out.append({'op': 'xcells', 'route': 'boc', 'note': 'mainnet_block', 'pairs': [], 'twins': [], 'cells': cells})
    return out


def canary(r, rng):
    if 'err' in r or not r['cells'] or len(r['cells']) > 60:
        return None
    ex = [k for k, c in enumerate(r['cells']) if c['mask']]
    if not ex:
        return None
    c = r['cells'][rng.choice(ex)]
    f = rng.choice(['mask', 'lh', 'ld'])
    if f == 'mask':
        c['mask'] ^= 1 << rng.randrange(3)
    elif f == 'lh':
        c['lh'][rng.randrange(4)][rng.randrange(32)] ^= 1
    else:
        c['ld'][rng.randrange(4)] += 1
    r['canary'] = f
    return r


def nontrivial_key(r):
    if 'err' in r or not any(c['t'] for c in r['cells']):
        return None
    return (r['route'], bytes(r['cells'][-1]['hash']))


def extra_coverage(flat, ctx):
    masks, types = {}, {}
    for r in flat:
        for c in r['cells']:
            if 'mask' in c:
                masks[c['mask']] = masks.get(c['mask'], 0) + 1
                if c['t'] == 1:
                    types.setdefault('pruned_masks', set()).add(c['y'][1])
            types.setdefault('types', set()).add(c['t'])
    return {'cells_by_level_mask': {str(k): v for k, v in sorted(masks.items())},
            'pruned_branch_masks_seen': sorted(types.get('pruned_masks', [])), 'cell_types_seen': sorted(types.get('types', [])),
            'construction_errors': sum(1 for r in flat if 'err' in r),
            'twin_pairs_checked': sum(len(r['twins']) for r in flat)}
