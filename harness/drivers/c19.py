"""C19 driver: deterministic work units (Python line events inside pytoniq_core) for serialising, parsing and hashing
adversarial DAGs and adversarial byte strings; the tracer aborts a call at the budget so the check always terminates."""
import random
import sys
import threading

import cellkit as ck
from pytoniq_core.boc import Builder, Cell
from pytoniq_core.boc.hashmap.hashmap import HashMap
from pytoniq_core.tl.generator import TlGenerator

PROP = 'C19'
TRACE_MODULE = 'C19Trace.tla'
RULE = ('DAG families: double chains depth 1..60 (every level references its child twice), ladders, fans, diamonds, random shared DAGs, '
        'balanced trees up to 2000 cells, a depth-1023 chain; operations to_boc (all option sets), from_boc, order, hashing by '
        'construction, dictionary build/parse; adversarial inputs: BoC headers with maximal cells/roots/size fields over a truncated body, '
        'TL vectors with count up to 2^32-1, TL bytes with length 0xFFFFFF, nested bytes, dictionaries with maximal labels; distinct = '
        'distinct (kind, size)')
ASSUMPTIONS = ['memory of parser calls on byte strings: peak traced allocation (tracemalloc) <= 1 MiB + 8 KiB per input byte', 'work = number of Python "line" trace events whose code lives under pytoniq_core (deterministic, refactoring-neutral up to constants)',
               'bound = 50 * (cells + refs + input bytes)^2 + 2000 events: the property\'s "low-degree polynomial"; capped at 1.8e9 for sizes > 6000',
               'wall-clock is not judged; the tracer raises at the budget so an exponential or count-driven loop ends the call and is recorded as aborted']
K, K0 = 50, 2000


def bound(size):
    return 1800002000 if size > 6000 else K * size * size + K0


def model_checks(tier):
    q = tier == 'quick'
    cfg = ('SPECIFICATION Spec\nCONSTANTS MaxCells = %d\n MaxRefsGen = %d\n ChainDepths = {%s}\nINVARIANT WorkLinear\nINVARIANT Correct\n'
           'PROPERTY Terminates\nCHECK_DEADLOCK FALSE\n' % (4 if q else 6, 2, '5, 12' if q else '5, 12, 30, 60'))
    # (gen=True: finished before the driver starts - the driver lowers the address-space limit around library calls, and a JVM
    # started by another thread in that window would inherit the lowered limit)
    return [dict(name='order_algo', module='MC_Work.tla', gen=True, workers=8, timeout=1500, heap='8g', cfg=cfg)]


class Abort(BaseException):
    pass


def _alarm(signum, frame):
    raise Abort()


class capped_memory:
    """caps the address space for the duration of a library call: a structure sized by a count or length field read from the
    input fails with MemoryError instead of taking the machine down"""

    def __enter__(self):
        import resource
        self.res = resource
        self.soft, self.hard = resource.getrlimit(resource.RLIMIT_AS)
        try:
            with open('/proc/self/statm') as f:
                cur = int(f.read().split()[0]) * resource.getpagesize()
        except Exception:
            cur = 1 << 31
        cap = cur + (3 << 30)
        resource.setrlimit(resource.RLIMIT_AS, (cap if self.hard == resource.RLIM_INFINITY or cap < self.hard else self.hard, self.hard))
        return self

    def __exit__(self, *a):
        self.res.setrlimit(self.res.RLIMIT_AS, (self.soft, self.hard))
        return False


def measure(fn, budget, holder=None):
    """-> (work, aborted, outcome); the call's result is left in holder[0]"""
    import signal
    count = [0]

    def local(frame, event, arg):
        if event == 'line':
            count[0] += 1
            if count[0] > budget:
                raise Abort()
        return local

    def tracer(frame, event, arg):
        if 'pytoniq_core' in frame.f_code.co_filename:
            return local
        return None
    aborted, out = 0, 'ok'
    # secondary watchdog: work done inside C code emits no line events; one call on a small input must not take a minute
    signal.signal(signal.SIGALRM, _alarm)
    signal.alarm(60)
    sys.settrace(tracer)
    try:
        with capped_memory():
            r = fn()
        if holder is not None:
            holder.append(r)
    except Abort:
        aborted = 1
        out = 'aborted'
    except RecursionError:
        out = 'RecursionError'
    except Exception as e:
        out = type(e).__name__
    finally:
        sys.settrace(None)
        signal.alarm(0)
    return count[0], aborted, out


def peak_kib(fn):
    """peak traced allocation of one call, in KiB (a MemoryError under the cap, or a minute without an answer, counts as huge)"""
    import signal
    import tracemalloc
    signal.signal(signal.SIGALRM, _alarm)
    signal.alarm(60)
    peak = 0
    try:
        tracemalloc.start()
        try:
            with capped_memory():
                fn()
        except MemoryError:
            peak = 1 << 40
        except (Abort, Exception):
            pass
        peak = max(peak, tracemalloc.get_traced_memory()[1])
    except Abort:
        peak = max(peak, 1 << 40)
    finally:
        tracemalloc.stop()
        signal.alarm(0)
    return min((peak + 1023) // 1024, 1 << 30)


def dag_size(root):
    seen, e, stack = set(), 0, [root]
    while stack:
        c = stack.pop()
        if id(c) in seen:
            continue
        seen.add(id(c))
        e += len(c.refs)
        stack.extend(c.refs)
    return len(seen), e


def double_chain(d, k=2):
    c = Builder().store_uint(1, 8).end_cell()
    for lvl in range(d):
        b = Builder().store_uint(lvl % 251, 8)
        for _ in range(k):
            b.store_ref(c)
        c = b.end_cell()
    return c


def double_chain_over_pruned(d, lvl=1):
    """the same adversarial sharing, but every cell has level > 0 (a pruned branch at the bottom)"""
    y = bytes([1, 1 << (lvl - 1)]) + bytes(range(32)) + b'\x00\x05'
    b = Builder(type_=1)
    b.store_bytes(y)
    c = b.end_cell()
    for k in range(d):
        c = Builder().store_uint(k % 251, 8).store_ref(c).store_ref(c).end_cell()
    return c


def ladder(d):
    a = Builder().store_uint(1, 8).end_cell()
    b = Builder().store_uint(2, 8).end_cell()
    for lvl in range(d):
        a, b = (Builder().store_uint(lvl % 251, 8).store_ref(a).store_ref(b).end_cell(),
                Builder().store_uint(lvl % 241, 9).store_ref(b).store_ref(a).end_cell())
    return Builder().store_ref(a).store_ref(b).end_cell()


def generate(tier, seed, ctx):
    rng = random.Random(seed)
    q = tier == 'quick'
    out = []

    def rec(kind, n, e, ln, fn, outn=None, tags=()):
        """every library call of this driver goes through here, under the budgeted tracer"""
        b = bound(n + e + ln + (outn or 0))
        holder = []
        work, aborted, outcome = measure(fn, b, holder)
        r = {'op': 'work', 'kind': kind, 'n': n, 'e': e, 'len': ln, 'work': work, 'aborted': aborted, 'budget': b, 'outcome': outcome, 'tags': list(tags)}
        if outn is not None:
            r['outn'] = outn
        if n == 0 and ln > 0 and not aborted:
            # byte strings fed to a parser: memory is work too (a table sized by a count field read from the input costs the count,
            # not the input length, and emits no line events).  Second run of the same call, peak traced allocation in KiB
            r['peakkb'] = peak_kib(fn)
        out.append(r)
        return holder[0] if holder else None

    roots = []

    def built(kind, n, e, fn):
        r = rec('build_' + kind, n, e, 0, fn)          # constructing = hashing every cell once
        if r is not None:
            roots.append((kind, r))

    for d in (list(range(1, 25)) + [30, 40, 50, 60] if q else list(range(1, 61)) + [100, 200, 500, 1000]):
        built('double_chain', d + 1, 2 * d, lambda: double_chain(d))
    for d in ([3, 10, 20, 40] if q else [3, 10, 20, 40, 100, 300]):
        built('double_chain_pruned', d + 1, 2 * d, lambda: double_chain_over_pruned(d, 1 + d % 3))
        built('ladder', 2 * d + 3, 4 * d + 2, lambda: ladder(d))
        built('quad_chain', d + 1, 4 * d, lambda: double_chain(d, 4))
    import bockit
    for nc in ([50, 400] if q else [50, 400, 2000]):
        h = bockit.tree_heap(nc)
        built('tree', len(h), sum(len(c['r']) for c in h), lambda: ck.build_heap(h)[-1])
    for _ in range(6 if q else 60):
        h = ck.rand_heap(rng, rng.randint(5, 80), [0, 8, 64], share=0.9)
        built('random_shared', len(h), sum(len(c['r']) for c in h), lambda: ck.build_heap(h)[-1])

    def chain():
        c = Builder().store_uint(1, 1).end_cell()
        for _ in range(1023):
            c = Builder().store_ref(c).end_cell()
        return c
    built('chain1023', 1024, 1023, chain)
    for kind, root in roots:
        n, e = dag_size(root)
        rec('to_boc_' + kind, n, e, 0, lambda: root.to_boc())
        data = rec('to_boc_idx_crc_' + kind, n, e, 0, lambda: root.to_boc(True, True, True))
        rec('order_' + kind, n, e, 0, lambda: root.order())
        if data is None:
            continue
        rec('from_boc_' + kind, n, e, len(data), lambda: Cell.one_from_boc(data))
        rec('copy_hash_' + kind, n, e, 0, lambda: (root.copy().hash, root.begin_parse().to_cell().hash))
    # two separately built (equal, not identical) copies of a shared DAG: comparing them, using one to look the other up, and
    # serialising a tree that holds both is work in the size of the DAG, not in the number of its paths
    for d in ((10, 20, 40) if q else (5, 10, 20, 30, 40, 60)):
        a, b = double_chain(d), double_chain(d)
        pa = Cell.one_from_boc(a.to_boc())
        rec('eq_double_chain', 2 * (d + 1), 4 * d, 0, lambda: (a == b, b == pa, a != pa))
        rec('dictkey_double_chain', 2 * (d + 1), 4 * d, 0, lambda: ({a: 1}.get(b), pa in {b: 2}, len({a, b, pa})))
        both = Builder().store_ref(a).store_ref(pa).end_cell()
        rec('to_boc_two_copies_double_chain', 2 * (d + 1) + 1, 4 * d + 2, 0, lambda: both.to_boc())
    # adversarial BoC headers: huge counts over a short body
    body = bytes(rng.getrandbits(8) for _ in range(200))
    for size, offb in ((1, 1), (2, 2), (4, 4), (4, 8), (3, 3)):
        for flags in (0x00, 0x80, 0xc0, 0x40):
            hdr = b'\xb5\xee\x9c\x72' + bytes([flags | size, offb]) + b'\xff' * size + b'\xff' * size + b'\x00' * size + b'\xff' * offb
            for tail in (b'', body[:10], body):
                data = hdr + tail
                rec('from_boc_adversarial_header', 0, 0, len(data), lambda: Cell.from_boc(data))
            for magic in (b'\x68\xff\x65\xf3', b'\xac\xc3\xa7\x28'):
                for cells in (b'\xff' * size, b'\x00' * (size - 1) + b'\x03'):
                    for tot in (b'\xff' * offb, (40).to_bytes(offb, 'big')):
                        data3 = magic + bytes([size, offb]) + cells + (1).to_bytes(size, 'big') + b'\x00' * size + tot + body[:40]
                        rec('from_boc_adversarial_legacy_header', 0, 0, len(data3), lambda: Cell.from_boc(data3))
            hdr2 = b'\xb5\xee\x9c\x72' + bytes([flags | size, offb]) + b'\xff' * size + (1).to_bytes(size, 'big') + b'\x00' * size + (180).to_bytes(offb, 'big')
            data2 = hdr2 + b'\x00' * size + body
            rec('from_boc_adversarial_cells', 0, 0, len(data2), lambda: Cell.from_boc(data2))
    # zero-width count/offset fields: the length guards that multiply by a width say nothing, only the count field is left
    for size in (1, 2, 3, 4, 7):
        for offb in (0, 1):
            for flags in (0x80, 0xc0, 0xa0, 0x00):
                data = b'\xb5\xee\x9c\x72' + bytes([flags | size, offb]) + b'\xff' * size + b'\x00' * size + b'\x00' * size + b'\x00' * offb
                rec('from_boc_adversarial_zero_width', 0, 0, len(data), lambda: Cell.from_boc(data))
                data = b'\xb5\xee\x9c\x72' + bytes([flags | size, offb]) + b'\xff' * size + b'\xff' * size + b'\x00' * size + b'\x00' * offb + body[:30]
                rec('from_boc_adversarial_zero_width', 0, 0, len(data), lambda: Cell.from_boc(data))
            for magic in (b'\x68\xff\x65\xf3', b'\xac\xc3\xa7\x28'):
                data = magic + bytes([size, offb]) + b'\xff' * size + (1).to_bytes(size, 'big') + b'\x00' * size + b'\x00' * offb + body[:20]
                rec('from_boc_adversarial_zero_width', 0, 0, len(data), lambda: Cell.from_boc(data))
    # TL parser
    tl = TlGenerator.with_default_schemas().generate()
    # a bytes field holding several boxed objects, nested: content_k = query(content_{k-1}) ++ getTime (12 bytes per level)
    qs, ts = tl.get_by_name('liteServer.query'), tl.get_by_name('liteServer.getTime')
    if qs is not None and ts is not None:
        def frame(b):
            o = (bytes([len(b)]) if len(b) <= 253 else b'\xfe' + len(b).to_bytes(3, 'little')) + b
            return o + b'\x00' * (-len(o) % 4)
        for depth in ((4, 10, 16, 24) if q else (4, 8, 12, 16, 20, 24, 32, 48)):
            content = ts.little_id()
            for _ in range(depth):
                content = qs.little_id() + frame(content) + ts.little_id()
            data = qs.little_id() + frame(content)
            rec('tl_nested_multi_object_bytes', 0, 0, len(data), lambda: tl.deserialize(data))
    sch = tl.get_by_name('liteServer.accountId') or None
    # one constructor per vector ELEMENT type (base types int / long / int256 / bytes / string first, then object types),
    # with the vector as its first field so that the count field sits right after the constructor id
    import re
    by_elem = {}
    for sc in tl.list:
        args = list(sc.args.items())
        if args and 'vector' in args[0][1]:
            m = re.search(r'vector\s+([^)\s]+)', args[0][1]) or re.search(r'vector<([^>]+)>', args[0][1])
            by_elem.setdefault(m.group(1) if m else args[0][1], sc)
    base_first = sorted(by_elem, key=lambda e: (e not in ('int', 'long', 'int256', 'int128', 'bytes', 'string', '#'), e))
    n_base = sum(1 for e in base_first if e in ('int', 'long', 'int256', 'int128', 'bytes', 'string', '#'))
    for e in (base_first[:n_base + 4] if q else base_first):
        sc = by_elem[e]
        for count in (0xffffffff, 0x7fffffff, 65536, 0x01000000):
            for tail in (b'', b'\x00' * 8, bytes(rng.getrandbits(8) for _ in range(64))):
                data = sc.little_id() + count.to_bytes(4, 'little') + tail
                rec('tl_vector_count', 0, 0, len(data), lambda: tl.deserialize(data))
        # the same lying count inside a bytes field that the parser deserialises on its own accord (nested object)
        inner = sc.little_id() + (0xffffffff).to_bytes(4, 'little')
        wrap = tl.get_by_name('adnl.message.answer')
        if wrap is not None:
            data = wrap.little_id() + b'\x00' * 32 + bytes([len(inner)]) + inner + b'\x00' * ((-(1 + len(inner))) % 4)
            rec('tl_vector_count_nested', 0, 0, len(data), lambda: tl.deserialize(data))
    bytes_types = [s for s in tl.list if any(t in ('bytes', 'string') for t in s.args.values())]
    for s in (bytes_types[:6] if q else bytes_types[:40]):
        pre = b''
        for f, t in s.args.items():
            if t in ('bytes', 'string'):
                break
            pre += b'\x00' * 4
        for blob in (b'\xfe\xff\xff\xff', b'\xfe\xff\xff\xff' + b'\x00' * 100, b'\xfd' + b'\x01' * 20,
                     b'\xfe\x00\x01\x00' + (s.little_id() + b'\xfe\x00\x01\x00') * 30):
            data = s.little_id() + pre + blob
            rec('tl_bytes_length', 0, 0, len(data), lambda: tl.deserialize(data))
    for n in ([50, 300] if q else [50, 300, 3000]):
        data = bytes(rng.getrandbits(8) for _ in range(n))
        rec('tl_random_bytes', 0, 0, n, lambda: tl.deserialize(data))
        ids = list(tl.id_map)
        data2 = ids[rng.randrange(len(ids))][::-1] + data
        rec('tl_random_after_id', 0, 0, len(data2), lambda: tl.deserialize(data2))
    # dictionaries
    for w, nk in ((8, 200), (32, 300), (256, 200), (64, 1000 if not q else 400)):
        keys = sorted({rng.getrandbits(w) for _ in range(nk)})
        hm = HashMap(w).with_uint_values(8)
        for k in keys:
            hm.set_int_key(k, 1)
        cell = rec('dict_serialize', len(keys) * 2, len(keys) * 2, len(keys) * w // 8, lambda: hm.serialize())
        if cell is None:
            continue
        n, e = dag_size(cell)
        rec('dict_parse', n, e, 0, lambda: HashMap.parse(cell.begin_parse(), w))
    # dictionaries whose fork cells reference the same child twice (a DAG): L forks over one shared end cell.
    # (a) the end is a leaf: a valid map of 2^L keys - the result itself has 2^L entries, counted with the input (outn);
    # (b) the end is a pruned branch: the result is empty, every path is still a path (tag: the known finding C19-KF1 covers
    #     exactly this input class; the same family through the augmented parser carries its own kind)
    def shared_forks(L, end):
        c = end
        for _ in range(L):
            c = Builder().store_bits('00').store_ref(c).store_ref(c).end_cell()
        return c
    leaf = Builder().store_bits('00').store_uint(7, 8).end_cell()
    prb = Builder(type_=1)
    prb.store_bytes(bytes([1, 1]) + leaf.hash + b'\x00\x00')
    prb = prb.end_cell()
    for L in ((2, 6, 10) if q else (2, 6, 10, 13)):
        c = shared_forks(L, leaf)
        rec('dict_parse_shared_forks_to_leaves', L + 1, 2 * L, 0, lambda: HashMap.parse(c.begin_parse(), L), outn=2 ** L)
    for L in ((2, 6, 12, 20, 30) if q else (2, 4, 6, 8, 12, 16, 20, 24, 30, 60)):
        c = shared_forks(L, prb)
        rec('dict_parse_shared_forks_to_pruned', L + 1, 2 * L, 0, lambda: HashMap.parse(c.begin_parse(), 256), tags=['dict_shared_forks_pruned'])
        from pytoniq_core.boc.hashmap.parse import parse_hashmap_aug
        rec('dict_parse_aug_shared_forks_to_pruned', L + 1, 2 * L, 0,
            lambda: parse_hashmap_aug(c.begin_parse(), 256, lambda sl: None, lambda sl: None), tags=['dict_shared_forks_pruned'])
    # labels LONGER than the remaining key length (n:(#<= m) violated): the remaining length goes negative and its magnitude can
    # double with every level, so a chain of L small cells announces labels of 2^L bits.  Given as a bag of cells (bytes in).
    def overshoot_chain(L, m0=2):
        ms, m = [], m0
        for _ in range(L):
            k = abs(m).bit_length()
            n = (1 << k) - 1
            ms.append((k, n))
            m = m - n - 1
        c = None
        for k, n in reversed(ms):
            b = Builder().store_bits('111')
            if k:
                b.store_uint(n, k)
            c = b.end_cell() if c is None else b.store_ref(c).store_ref(c).end_cell()
        return c
    for L in ((4, 12, 20, 28, 36) if q else (4, 8, 12, 16, 20, 24, 28, 32, 36, 48)):
        data = overshoot_chain(L).to_boc()
        rec('dict_parse_labels_longer_than_the_key', 0, 0, len(data), lambda: HashMap.parse(Cell.one_from_boc(data).begin_parse(), 2))
        from pytoniq_core.boc.hashmap.parse import parse_hashmap_aug as _pa
        rec('dict_parse_aug_labels_longer_than_the_key', 0, 0, len(data),
            lambda: _pa(Cell.one_from_boc(data).begin_parse(), 2, lambda sl: None, lambda sl: None))
    # dictionary labels with maximal length fields on short cells
    for bits in ('10' + '1' * 10 + '0' * 5, '11' + '1' + '1' * 10, '0' + '1' * 300, '10' + '1' * 9):
        c = Builder().store_bits(bits).end_cell()
        rec('dict_parse_adversarial_label', 1, 0, len(bits) // 8, lambda: HashMap.parse(c.begin_parse(), 1023))
    return out


def canary(r, rng):
    r['work'] = r['budget'] + 1
    r['canary'] = 'over budget'
    return r


def nontrivial_key(r):
    return (r['kind'], r['n'], r['e'], r['len'])


def extra_coverage(flat, ctx):
    kinds = {}
    for r in flat:
        k = r['kind'].split('_')[0] + '_' + r['kind'].split('_')[1]
        kinds[k] = max(kinds.get(k, 0), r['work'])
    worst = max(flat, key=lambda r: r['work'] / r['budget'])
    return {'max_work_by_kind': kinds, 'tightest_case': {k: worst[k] for k in ('kind', 'n', 'e', 'len', 'work', 'budget')},
            'aborted_calls': sum(r['aborted'] for r in flat), 'outcomes': sorted({r['outcome'] for r in flat})}
