"""C07 driver: stores at every fill level, out-of-range values, over-reads, depth limit; recorded for TonBag."""
import random

import bagkit as bk
from pytoniq_core.boc import Builder, Cell
from vlib import big, bitstr_of_list

PROP = 'C07'
TRACE_MODULE = 'C07Trace.tla'
RULE = ('behaviours: (a) each store op at bit fill levels {0, 1, cap-w-1, cap-w, cap-w+1, cap} x ref levels 0..4; (b) values +-1 '
        'around every bound for widths {1,2,8,64,256,257} and every VarInteger byte class; (c) each load op on slices with '
        '{0, w-1, w, w+1} remaining bits / 0..1 refs, on built, BoC-parsed and plain-bitarray cells; (d) composite stores '
        '(store_cell/store_slice of fresh and partly consumed slices, store_address, store_snake_bytes, maybe-refs) at the '
        'boundaries; (e) depth 1022/1023/1024; distinct = distinct (op, arguments, fill level, ref level)')
ASSUMPTIONS = ['TonBag.Put / Read decide fits/does-not-fit; any Python exception counts as the error the property asks for',
               'after an error the builder/slice is dropped (no atomicity promised)',
               'very deep chains are adopted opaquely: their depth is read from the library (validated by C01)']


def model_checks(tier):
    import os
    from drivers.bagmc import bag_checks, bag_sim
    return bag_checks(tier) + [bag_sim(tier, 1000 + int(os.environ.get('VERIF_SEED', '0') or 0))]


def make_canaries(shards, rng, want):
    return bk.make_bag_canaries(shards, rng, want, 'guard')


def builder_at(p, rng, fill, nrefs, cells):
    b = p.next
    p.call({'op': 'new_builder', 'new': b})
    if fill:
        p.call({'op': 'store_bits', 'obj': b, 'bits': bitstr_of_list([rng.getrandbits(1) for _ in range(fill)])})
    for _ in range(nrefs):
        p.call({'op': 'store_ref', 'obj': b, 'ref': rng.choice(cells)})
    return b


def leaf(p, rng, n=None, refs=()):
    b = p.next
    p.call({'op': 'new_builder', 'new': b})
    n = rng.choice([0, 1, 8]) if n is None else n
    p.call({'op': 'store_bits', 'obj': b, 'bits': bitstr_of_list([rng.getrandbits(1) for _ in range(n)])})
    for r in refs:
        p.call({'op': 'store_ref', 'obj': b, 'ref': r})
    c = p.next
    p.call({'op': 'end_cell', 'obj': b, 'new': c})
    return c


def store_cases(rng):
    """(call fields, bits needed, refs needed) for one store of every kind"""
    out = []
    for w in (1, 2, 8, 64, 256, 257):
        out.append(({'op': 'store_uint', 'v': big(rng.getrandbits(min(w, 256))), 'w': w if w < 257 else 256}, min(w, 256), 0))
        out.append(({'op': 'store_int', 'v': big(rng.getrandbits(w - 1) - (1 << (w - 1)) if w > 1 else -1), 'w': w}, w, 0))
    for L, v in ((4, 0), (4, 255), (4, 1 << 119), (3, 65535), (5, (1 << 248) - 1)):
        nb = (v.bit_length() + 7) // 8
        out.append(({'op': 'store_var_uint', 'v': big(v), 'L': L}, L + 8 * nb, 0))
    out.append(({'op': 'store_coins', 'v': big(10 ** 9)}, 4 + 32, 0))
    out.append(({'op': 'store_var_int', 'v': big(-129), 'L': 4}, 4 + 16, 0))
    out.append(({'op': 'store_bit', 'bit': 1}, 1, 0))
    for n in (0, 1, 9, 1023):
        out.append(({'op': 'store_bits', 'bits': bitstr_of_list([1] * n)}, n, 0))
    for n in (1, 127):
        out.append(({'op': 'store_bytes', 'bytes': [rng.getrandbits(8) for _ in range(n)]}, 8 * n, 0))
    out.append(({'op': 'store_string', 'bytes': list(b'hello ton')}, 72, 0))
    for a in ('none', 'ext', 'std', 'any30'):
        ad = bk.rand_addr(rng, a)
        out.append(({'op': 'store_address', 'addr': ad}, bk.addr_bits(ad), 0))
    out.append(({'op': 'store_ref', 'ref': 'CELL'}, 0, 1))
    out.append(({'op': 'store_maybe_ref', 'ref': 'CELL'}, 1, 1))
    out.append(({'op': 'store_dict', 'ref': 'CELL'}, 1, 1))
    out.append(({'op': 'store_maybe_ref', 'ref': 0}, 1, 0))
    return out


def generate(tier, seed, ctx):
    rng = random.Random(seed)
    q = tier == 'quick'
    shards, pool, cnt = [], None, [0]

    def fresh():
        nonlocal pool
        if pool is None or cnt[0] % 12 == 0:
            pool = bk.Pool()
            shards.append(pool.records)
        else:
            pool.reset()
        cnt[0] += 1
        return pool

    reps = 1 if q else 8
    for _ in range(reps):
        # (a) stores at fill levels x ref levels
        for call, nb, nr in store_cases(rng):
            fills = sorted({0, 1, max(0, 1023 - nb - 1), max(0, 1023 - nb), min(1023, 1023 - nb + 1), 1023})
            for fill in fills:
                for nrefs in ((0, 3, 4) if nr == 0 and q else range(5)):
                    if q and nr == 0 and nrefs == 3 and rng.random() < 0.5:
                        continue
                    p = fresh()
                    cells = [leaf(p, rng)]
                    b = builder_at(p, rng, fill, nrefs, cells)
                    c = dict(call, obj=b)
                    if c.get('ref') == 'CELL':
                        c['ref'] = cells[0]
                    p.call(c)
        # (a') the same bits handed over in every iterable form store_bits is annotated with, sized and unsized
        for form in ('str', 'list', 'tuple', 'tvm', 'gen', 'map', 'iter', 'chain'):
            for fill, n in ((0, 0), (0, 5), (0, 1023), (0, 1024), (1000, 23), (1000, 24), (1000, 100), (1023, 0), (1023, 1), (1, 1023)):
                p = fresh()
                b = builder_at(p, rng, fill, 0, [])
                p.call({'op': 'store_bits', 'obj': b, 'form': form, 'bits': bitstr_of_list([rng.getrandbits(1) for _ in range(n)])})
                if 'res' in p.records[-1].get('out', {}) and not p.dead:
                    c = p.next
                    p.call({'op': 'end_cell', 'obj': b, 'new': c})
        # (b) out-of-range values
        for w in (1, 2, 8, 64, 256, 257):
            for signed in (False, True):
                if not signed and w == 257:
                    continue
                inr, outr = bk.int_menu(w, signed, rng)
                p = fresh()
                for v in outr + [inr[0], inr[-1]]:
                    b = builder_at(p, rng, rng.choice([0, 5]), 0, [])
                    p.call({'op': 'store_int' if signed else 'store_uint', 'obj': b, 'v': big(v), 'w': w})
        # the empty field (## 0): only the value 0 fits it
        p = fresh()
        for v in (0, 1, 5, -1, 255, 1 << 64):
            b = builder_at(p, rng, rng.choice([0, 5, 1023]), 0, [])
            p.call({'op': 'store_uint', 'obj': b, 'v': big(v), 'w': 0})
        for L in (2, 3, 4, 5):
            for signed in (False, True):
                inr, outr = bk.var_menu(L, signed, rng)
                p = fresh()
                for v in outr + rng.sample(inr, min(6, len(inr))):
                    b = builder_at(p, rng, 0, 0, [])
                    p.call({'op': 'store_var_int' if signed else 'store_var_uint', 'obj': b, 'v': big(v), 'L': L})
        p = fresh()
        for v in (-1, 1 << 120, (1 << 120) - 1):
            b = builder_at(p, rng, 0, 0, [])
            p.call({'op': 'store_coins', 'obj': b, 'v': big(v)})
        # an 8-bit signed workchain: -128..127 fit, everything else must be refused (object form and raw text form)
        p = fresh()
        for wc in (127, -128, 128, 255, 256, -129, 300, -1000):
            for via in (None, 'str'):
                b = builder_at(p, rng, rng.choice([0, 9]), 0, [])
                c = {'op': 'store_address', 'obj': b, 'addr': {'kind': 'std', 'wc': wc, 'hash': [rng.getrandbits(8) for _ in range(32)], 'any': []}}
                if via:
                    c['via'] = via
                    c['i'] = 0
                p.call(c)
        # addr_extern: the value must fit the stated length, also when the length is not a whole number of bytes
        p = fresh()
        for ln, v in ((9, 0x3FF), (9, 0x200), (9, 0x1FF), (1, 2), (1, 1), (7, 128), (7, 127), (12, 0xFFFF), (255, 1 << 255), (255, (1 << 255) - 1), (8, 256)):
            b = builder_at(p, rng, rng.choice([0, 9]), 0, [])
            p.call({'op': 'store_address', 'obj': b, 'addr': {'kind': 'ext', 'len': ln, 'v': big(v)}})
        # (c) loads at remaining lengths, three slice provenances
        reads = [({'what': 'uint', 'w': w}, w, 0) for w in (1, 8, 64, 256)] + [({'what': 'int', 'w': w}, w, 0) for w in (1, 8, 257)] + \
                [({'what': 'bits', 'n': n}, n, 0) for n in (1, 9, 1023)] + [({'what': 'bytes', 'n': n}, 8 * n, 0) for n in (1, 32)] + \
                [({'what': 'bit'}, 1, 0), ({'what': 'bool'}, 1, 0), ({'what': 'ref'}, 0, 1), ({'what': 'maybe_ref'}, 1, 1),
                 ({'what': 'var_uint', 'L': 4}, 4 + 16, 0), ({'what': 'var_uint', 'L': 4, 'via': 'coins'}, 4 + 16, 0),
                 ({'what': 'var_int', 'L': 3}, 3 + 8, 0), ({'what': 'address'}, 267, 0)]
        for rd, nb, nr in reads:
            for rem in sorted({0, max(0, nb - 1), nb, min(1023, nb + 1)}):
                for prov in ('built', 'boc', 'plain'):
                    for refs_there in ((0, 1) if nr else (0,)):
                        p = fresh()
                        bits = [rng.getrandbits(1) for _ in range(rem)]
                        if rd['what'] in ('var_uint', 'var_int') and rem >= rd['L']:
                            ln = 2 if rd['what'] == 'var_uint' else 1      # length field consistent with nb
                            for k in range(rd['L']):
                                bits[k] = (ln >> (rd['L'] - 1 - k)) & 1
                        if rd['what'] == 'address' and rem >= 3:
                            bits[0:3] = [1, 0, 0]
                        if rd['what'] == 'maybe_ref' and rem >= 1:
                            bits[0] = 1
                        kids = [leaf(p, rng)] if refs_there else []
                        if prov == 'built':
                            c = leaf(p, rng, 0, kids) if rem == 0 else None
                            if c is None:
                                b = p.next
                                p.call({'op': 'new_builder', 'new': b})
                                p.call({'op': 'store_bits', 'obj': b, 'bits': bitstr_of_list(bits)})
                                for r in kids:
                                    p.call({'op': 'store_ref', 'obj': b, 'ref': r})
                                c = p.next
                                p.call({'op': 'end_cell', 'obj': b, 'new': c})
                        elif prov == 'plain':
                            r = p.cell_from_bits(bits, kids, plain=True)
                            if 'err' in r['out']:
                                continue
                            c = r['out']['res']['new']
                        else:
                            bb = Builder().store_bits(bk.bitarray(bits))
                            for r in kids:
                                bb.store_ref(p.o(r))
                            parsed = Cell.one_from_boc(bb.end_cell().to_boc())
                            # the parsed cell is adopted with its children (they are new objects)
                            c = p.next
                            p.reg(parsed, 'cell')
                            p.finish({'op': 'call', 'call': {'op': 'adopt', 'new': c}, 'tags': [], 'out': {'res': {'new': c}}})
                        s = p.next
                        p.call({'op': 'begin_parse', 'obj': c, 'new': s})
                        if rng.random() < 0.3:
                            p.call(dict(rd, op='preload', obj=s))
                        p.call(dict(rd, op='load', obj=s))
        # over-reads far beyond what is left, at every kind of remaining length (also the full 1023 bits, also beyond the cell size)
        for rem in (0, 1, 8, 511, 1016, 1022, 1023):
            for ask in sorted({rem + 1, rem + 8, 1023, 1024, 1025, 2047, 4000, 1 << 16}):
                if ask <= rem:
                    continue
                p = fresh()
                c = leaf(p, rng, rem)
                for rd in ({'what': 'bits', 'n': ask}, {'what': 'uint', 'w': ask}, {'what': 'int', 'w': ask},
                           {'what': 'bytes', 'n': (ask + 7) // 8}, None):
                    if rd is not None and 8 * rd.get('n', 0) <= rem and rd['what'] == 'bytes':
                        continue
                    s = p.next
                    p.call({'op': 'begin_parse', 'obj': c, 'new': s})
                    if rd is None:
                        p.call({'op': 'skip_bits', 'obj': s, 'n': ask})
                    else:
                        p.call(dict(rd, op='load', obj=s))
        # skip_bits and partly consumed slices
        for rem in (0, 1, 10):
            for n in (0, 1, rem, rem + 1):
                p = fresh()
                c = leaf(p, rng, rem)
                s = p.next
                p.call({'op': 'begin_parse', 'obj': c, 'new': s})
                p.call({'op': 'skip_bits', 'obj': s, 'n': n})
        # (d) composite stores
        for fill in (0, 1000, 1013, 1014, 1015, 1023):
            for nrefs in range(5):
                for inner_bits, inner_refs, consume in ((8, 0, 0), (9, 1, 0), (9, 1, 1), (9, 2, 1), (9, 2, 2), (0, 4, 0), (0, 4, 3), (0, 4, 4), (1023, 0, 0)):
                    p = fresh()
                    kids = [leaf(p, rng) for _ in range(max(1, min(2, inner_refs)))]
                    inner = leaf(p, rng, inner_bits, [kids[j % len(kids)] for j in range(inner_refs)])
                    b = builder_at(p, rng, fill, nrefs, kids)
                    if consume or rng.random() < 0.5:
                        s = p.next
                        p.call({'op': 'begin_parse', 'obj': inner, 'new': s})
                        for _ in range(consume):
                            p.call({'op': 'load', 'obj': s, 'what': 'ref'})
                        if rng.random() < 0.3 and inner_bits >= 3:
                            p.call({'op': 'load', 'obj': s, 'what': 'uint', 'w': 3})
                        p.call({'op': 'store_slice', 'obj': b, 'ref': s})
                    else:
                        p.call({'op': 'store_cell', 'obj': b, 'ref': inner})
                    r = p.records[-1]
                    if 'res' in r.get('out', {'err': 1}) and not p.dead:
                        c = p.next
                        p.call({'op': 'end_cell', 'obj': b, 'new': c})
        for fill in (0, 7, 8, 1000, 1016, 1017, 1023):
            for nrefs in (0, 3, 4):
                for n in (0, 1, 2, 126, 127, 128, 300):
                    p = fresh()
                    kids = [leaf(p, rng)]
                    b = builder_at(p, rng, fill, nrefs, kids)
                    p.call({'op': 'store_snake_bytes', 'obj': b, 'bytes': [rng.getrandbits(8) for _ in range(n)]})
        # (e) depth limit
        chain = Builder().store_uint(1, 1).end_cell()
        tops = {}
        for d in range(1, 1024):
            chain = Builder().store_ref(chain).end_cell()
            if d in (1021, 1022, 1023):
                tops[d] = chain
        for d, top in sorted(tops.items()):
            for how in ('builder', 'ctor'):
                p = fresh()
                t = p.adopt(top)
                if how == 'builder':
                    b = builder_at(p, rng, 3, 0, [])
                    p.call({'op': 'store_ref', 'obj': b, 'ref': t})
                    c = p.next
                    p.call({'op': 'end_cell', 'obj': b, 'new': c})
                else:
                    p.cell_from_bits([1, 0], [t], plain=False)
    # depth through a pruned branch: the branch records the depth of what it stands for; an ordinary cell above it is one deeper at
    # level 0, whatever its depth at the top level is (the limit holds at every level)
    for stored in (1021, 1022, 1023):
        for mask in (1, 2):
            y = bytes([1, mask]) + bytes(rng.getrandbits(8) for _ in range(32)) + stored.to_bytes(2, 'big')
            try:
                pb = Builder(type_=1)
                pb.store_bytes(y)
                pr = pb.end_cell()
            except Exception:
                continue
            p = fresh()
            t = p.adopt(pr)
            b = builder_at(p, rng, 3, 0, [])
            p.call({'op': 'store_ref', 'obj': b, 'ref': t})
            c = p.next
            r = p.call({'op': 'end_cell', 'obj': b, 'new': c})
            if 'res' in r['out'] and not p.dead:
                b2 = builder_at(p, rng, 1, 0, [])
                p.call({'op': 'store_ref', 'obj': b2, 'ref': c})
                p.call({'op': 'end_cell', 'obj': b2, 'new': p.next})
    # spec -> code: behaviours of the full-size TonBag machine chosen by TLC's simulation mode, INCLUDING calls whose guard is
    # false (StepRefuse: the call must be refused, its target is then forgotten), replayed call by call
    sims = ctx['mc'].get('bag_sim', [])
    want = 150 if q else 3000
    if len(sims) > want:
        sims = rng.sample(sims, want)
    for calls in sims:
        p = fresh()
        for c in calls:
            if c['op'] == 'forget' and any(i not in p.objs for i in c['ids']):
                continue
            p.call(dict(c), tags=['tlc_behaviour'])
    k = 0
    for sh in shards:
        for r in sh:
            k += 1
            r['i'] = k
    return shards


def nontrivial_key(r):
    if r.get('op') != 'call':
        return None
    c = r['call']
    if c['op'] in ('new_builder', 'end_cell', 'begin_parse', 'adopt'):
        return None
    tgt = [p for p in r['post'] if p['id'] == c.get('obj')]
    lvl = (tgt[0]['n'], len(tgt[0]['r'])) if tgt else ()
    return (c['op'], repr(sorted((k, repr(v)) for k, v in c.items() if k not in ('obj', 'new', 'ref'))), lvl, 'err' in r['out'])


def extra_coverage(flat, ctx):
    calls = [r for r in flat if r.get('op') == 'call']
    return {'calls_refused_by_library': sum(1 for r in calls if 'err' in r['out']),
            'calls_accepted_by_library': sum(1 for r in calls if 'res' in r['out'])}
