"""C11 driver: genuine Merkle proofs (from TLC-enumerated prunings and random ones) and forgeries through check_proof,
check_block_header_proof, check_account_proof and check_shard_proof."""
import random

import cellkit as ck
from drivers.c02 import prune_cfg, lib_pruned
from pytoniq_core.boc import Builder, Cell, begin_cell
from pytoniq_core.boc.address import Address
from pytoniq_core.boc.hashmap.hashmap import HashMap
from pytoniq_core.proof.check_proof import check_account_proof, check_block_header_proof, check_proof
from pytoniq_core.tl.block import BlockIdExt

PROP = 'C11'
TRACE_MODULE = 'C11Trace.tla'
RULE = ('generic: every (tree, pruning, wrapper) state of the directed pruning machine (TLC) and random DAGs with random prunings, each '
        'as a genuine proof plus forgeries {wrong expected hash, flipped data bit of an unpruned cell, dropped/duplicated/swapped '
        'reference, substituted pruned hash, altered pruned depth, not a Merkle cell, altered stored hash, altered cell arriving in a bag of cells that stores the original hash next to it}; header: synthetic blocks '
        'with every subset of children pruned; account: shard states with 1-3 accounts, genuine + {wrong account cell, pruned-branch as '
        'account, absent address, wrong block, wrong state, swapped roots, single root}; shard: masterchain states with ShardHashes over two workchains, genuine (siblings / other workchain pruned, update children re-pruned, the block itself) + {wrong block hash, seqno, not a masterchain id, unknown shard block, shard of another workchain, unlisted workchain, descriptor or workchain pruned away, other state, stored-hash-only state proof, uncommitted level-0 slot, swapped roots, single root}; distinct = distinct (kind, proof root hash)')
ASSUMPTIONS = ['TonProof.CheckProof / CheckBlockHeader / AccountAccepts decide acceptance from the recorded cells with TLC-computed SHA-256; '
               'soundness of CheckProof itself (no forged candidate accepted) is model-checked with an injective symbolic hash (MC_Proof)',
               'the stored depth of a pruned branch standing for the WHOLE tree is not checked by anyone (noted observation, not demanded)',
               'account scenarios use no extra currencies, so the account cell is the first reference of its dictionary leaf',
               'proof cells are built with the library Builder and library hashes (input construction); every hash is recomputed by TLC']


def model_checks(tier):
    q = tier == 'quick'
    pcfg = lambda d, k, cd: ('INIT Init\nNEXT Next\nCONSTANTS TreeDepth = %d\n MaxKids = %d\n DataLens = {0, 1}\n CandDepth = %d\n'
                             'INVARIANT Sound\nINVARIANT Complete\nCHECK_DEADLOCK FALSE\n' % (d, k, cd))
    neg = pcfg(1, 2, 1).replace('INVARIANT Complete', 'INVARIANT WeakSound')
    return [dict(name='prune_chain_g', module='MC_Prune.tla', gen=True, workers=1, cfg=prune_cfg(1, 3, 1, [1], 'FALSE', 'TRUE', invs=False)),
            dict(name='prune_wide_g', module='MC_Prune.tla', gen=True, workers=1, cfg=prune_cfg(1, 1, 2, [0, 1], 'FALSE', 'TRUE', invs=False)),
            dict(name='proof_sound', module='MC_Proof.tla', workers=16, timeout=2400, heap='12g', cfg=pcfg(1, 2, 1) if q else pcfg(2, 2, 1)),
            dict(name='proof_neg_weak', module='MC_Proof.tla', workers=4, cfg=neg, expect_violation='WeakSound'),
            dict(name='prune_sym', module='MC_Prune.tla', workers=8 if q else 16, timeout=1500 if q else 5400, cfg=prune_cfg(2, 1 if q else 2, 2, [0, 1], 'TRUE', 'FALSE'))]


def mproof_abs(child_obj, child_idx, h=None, d=None, t=3):
    y = bytes([3]) + (h if h is not None else child_obj.get_hash(0)) + (d if d is not None else child_obj.get_depth(0)).to_bytes(2, 'big')
    return {'t': t, 'n': 8 * len(y), 'y': list(y), 'r': [child_idx]}


VIA_BAG = [0]


def run_proof(heap, want, label, genuine):
    rec = {'op': 'proof', 'label': label, 'genuine': int(genuine), 'cells': heap, 'proof': len(heap), 'want': list(want)}
    try:
        objs = ck.build_heap(heap, 'ctor')
    except Exception as e:
        return None          # not constructible: nothing to check (C02's subject)
    try:
        VIA_BAG[0] += 1
        root = objs[-1]
        if VIA_BAG[0] % 3 == 0:
            # the proof travels as a bag of cells, as it does on the wire (a proof that cannot be read back is a proof rejected)
            rec['via'] = 'bag'
            root = Cell.one_from_boc(root.to_boc())
        check_proof(root, bytes(want))
        rec['out'] = {'ok': 1}
    except Exception as e:
        rec['out'] = {'err': type(e).__name__}
    return rec


def run_proof_obj(root, want, label, genuine):
    """the proof as a live object (e.g. as a parser returned it): recorded by its content, judged like every other proof"""
    heap, roots, _ = ck.project([root])
    rec = {'op': 'proof', 'label': label, 'genuine': int(genuine), 'cells': heap, 'proof': roots[0], 'want': list(want)}
    try:
        check_proof(root, bytes(want))
        rec['out'] = {'ok': 1}
    except Exception as e:
        rec['out'] = {'err': type(e).__name__}
    return rec


def stored_hash_forgery(rng, body, root_idx, orig_hash):
    """a proof that arrives as a bag of cells: one unpruned cell is altered and written in the with-hashes form, carrying the hashes
    and depths of the ORIGINAL cell next to it (prover-supplied bytes: a parser that believes them lets the altered tree through)"""
    import bockit as bk
    base = body[:root_idx]
    reach, todo = set(), [root_idx]
    while todo:
        x = todo.pop()
        if x not in reach:
            reach.add(x)
            todo += base[x - 1]['r']
    ords = [k for k in range(root_idx) if base[k]['t'] == 0 and (k + 1) in reach]
    if not ords:
        return None
    k = rng.choice(ords)
    m = [dict(c) for c in base]
    c = m[k]
    if c['n'] == 0:
        c['n'], c['y'] = 1, [128]
    else:
        y = list(c['y'])
        b = rng.randrange(c['n'])
        y[b // 8] ^= 0x80 >> (b % 8)
        c['y'] = y
    try:
        go = ck.build_heap(base, 'ctor')
        fo = ck.build_heap(m, 'ctor')
        gp = ck.build_heap(base + [mproof_abs(go[root_idx - 1], root_idx)], 'ctor')[-1]
        # the forged proof cell keeps the ORIGINAL hash and depth in its data (that is what the verifier compares with)
        fp = ck.build_heap(m + [mproof_abs(go[root_idx - 1], root_idx)], 'ctor')
        bag = bk.emit_with_hashes(fp[-1], 'claimed', claim={id(fp[k]): go[k]})
        parsed = Cell.one_from_boc(bag)
    except Exception:
        return None
    return run_proof_obj(parsed, orig_hash, 'forged_data_bit_with_original_hash_stored_next_to_it', False)


def forgeries(rng, body, root_idx, orig_hash):
    """body: heap (children-first) of the proof body, root_idx its root; yields (heap incl. proof cell, want, label)"""
    try:
        objs = ck.build_heap(body, 'ctor')
    except Exception:
        return
    root = objs[root_idx - 1]
    base = body[:root_idx]
    gen = base + [mproof_abs(root, root_idx)]
    yield gen, orig_hash, 'genuine', True
    wrong = bytes(rng.getrandbits(8) for _ in range(32))
    yield gen, wrong, 'forged_wrong_expected_hash', False
    # proof cell carrying the wrong hash consistently (stored = wanted = wrong)
    yield base + [mproof_abs(root, root_idx, h=wrong)], wrong, 'forged_stored_hash_only', False
    yield base + [mproof_abs(root, root_idx, h=wrong)], orig_hash, 'forged_stored_hash_altered', False
    # not a Merkle proof cell: same bytes, ordinary type
    yield base + [dict(mproof_abs(root, root_idx), t=0)], orig_hash, 'forged_not_merkle', False
    reach, todo = set(), [root_idx]
    while todo:
        x = todo.pop()
        if x not in reach:
            reach.add(x)
            todo += base[x - 1]['r']
    ords = [k for k in range(root_idx) if base[k]['t'] == 0 and (k + 1) in reach]
    prs = [k for k in range(root_idx) if base[k]['t'] == 1 and (k + 1) in reach]
    reach = None
    for _ in range(3):
        if not ords:
            break
        k = rng.choice(ords)
        m = [dict(c) for c in base]
        c = m[k]
        if c['n'] == 0:
            c['n'], c['y'] = 1, [128]
        else:
            y = list(c['y'])
            b = rng.randrange(c['n'])
            y[b // 8] ^= 0x80 >> (b % 8)
            c['y'] = y
        try:
            o2 = ck.build_heap(m, 'ctor')
        except Exception:
            continue
        yield m + [mproof_abs(root, root_idx)], orig_hash, 'forged_data_bit', False
    withrefs = [k for k in ords if base[k]['r']]
    for _ in range(2):
        if not withrefs:
            break
        k = rng.choice(withrefs)
        m = [dict(c) for c in base]
        r = list(m[k]['r'])
        how = rng.choice(['drop', 'dup', 'swap', 'retarget'])
        if how == 'drop':
            r.pop(rng.randrange(len(r)))
        elif how == 'dup' and len(r) < 4:
            r.append(r[-1])
        elif how == 'swap' and len(r) > 1 and objs[r[0] - 1].get_hash(0) != objs[r[1] - 1].get_hash(0):
            r[0], r[1] = r[1], r[0]
        else:
            j = rng.randrange(len(r))
            alt = [x for x in range(1, k + 1) if objs[x - 1].get_hash(0) != objs[r[j] - 1].get_hash(0)]
            if not alt:
                continue
            r[j] = rng.choice(alt)
        m[k]['r'] = r
        yield m + [mproof_abs(root, root_idx)], orig_hash, 'forged_refs_' + how, False
    for k in prs[:2]:
        m = [dict(c) for c in base]
        y = list(m[k]['y'])
        y[2 + rng.randrange(32)] ^= 1 << rng.randrange(8)          # the level-0 stored hash
        m[k]['y'] = y
        yield m + [mproof_abs(root, root_idx)], orig_hash, 'forged_pruned_hash', False
        if k != root_idx - 1:
            m = [dict(c) for c in base]
            y = list(m[k]['y'])
            y[2 + 32 * bin(y[1]).count('1') + 1] ^= 1        # low byte of the level-0 depth
            m[k]['y'] = y
            yield m + [mproof_abs(root, root_idx)], orig_hash, 'forged_pruned_depth', False


# ------------------------------------------------------------------ block / state / account scenarios (input construction)
def pruned(c, lvl=1):
    a = lib_pruned(c, lvl)
    b = Builder(type_=1)
    b.store_bytes(bytes(a['y']))
    return b.end_cell()


def mproof(c):
    return Builder(type_=3).store_uint(3, 8).store_bytes(c.get_hash(0)).store_uint(c.get_depth(0), 16).store_ref(c).end_cell()


def mupdate(o, n):
    return (Builder(type_=4).store_uint(4, 8).store_bytes(o.get_hash(0)).store_bytes(n.get_hash(0))
            .store_uint(o.get_depth(0), 16).store_uint(n.get_depth(0), 16).store_ref(o).store_ref(n).end_cell())


def account_cell(rng, addr, active=None):
    b = (begin_cell().store_bit(1).store_address(addr)
         .store_uint(1, 3).store_uint(rng.randint(1, 200), 8).store_uint(1, 3).store_uint(rng.randint(1, 200), 8).store_uint(0, 3)
         .store_uint(rng.getrandbits(31), 32).store_bit(0)
         .store_uint(rng.getrandbits(40), 64).store_coins(rng.randint(1, 10 ** 12)).store_bit(0))
    if active if active is not None else rng.random() < 0.6:
        # account_active$1 with a StateInit: no split_depth, no special, code and data by reference, no libraries
        code = begin_cell().store_uint(rng.getrandbits(64), 64).end_cell()
        data = begin_cell().store_uint(rng.getrandbits(32), 32).store_ref(begin_cell().store_uint(7, 8).end_cell()).end_cell()
        return b.store_bit(1).store_bits('00110').store_ref(code).store_ref(data).end_cell()
    return b.store_uint(0, 2).end_cell()


def partially_pruned(acc, rng):
    """the same account cell with some of its children replaced by pruned branches (a Merkle-pruned view of it)"""
    if not acc.refs:
        return None
    b = begin_cell().store_bits(acc.bits)
    which = rng.randrange(len(acc.refs))
    for j, r in enumerate(acc.refs):
        b.store_ref(pruned(r) if j == which or rng.random() < 0.5 else r)
    return b.end_cell()


EXTRA = {}        # account id -> extra-currency dictionary cell of its balance (set by account_records for some accounts)


def extra_currency_cell(rng):
    hm = HashMap(32, value_serializer=lambda v, dest: dest.store_var_uint(v, 5))
    for _ in range(rng.randint(1, 3)):
        hm.set_int_key(rng.getrandbits(32), rng.randint(1, 10 ** 9))
    return hm.serialize()


def shard_accounts(rng, accts):
    """accts: list of (Address, account cell) -> ^ShardAccounts cell (HashmapAugE 256 ShardAccount DepthBalanceInfo)"""
    def ser(v, dest):
        acc, lt, extra = v
        dest.store_uint(0, 5).store_coins(10 ** 9)                       # extra: DepthBalanceInfo (split_depth, grams ...
        if extra is None:
            dest.store_bit(0)                                            # ... no other currencies)
        else:
            dest.store_bit(1).store_ref(extra)                           # ... other currencies: the leaf's FIRST reference
        dest.store_ref(acc).store_bytes(b'\x11' * 32).store_uint(lt, 64)  # value: ShardAccount
    hm = HashMap(256, value_serializer=ser)
    for a, c in accts:
        hm.set_int_key(int.from_bytes(a.hash_part, 'big'), (c, rng.getrandbits(40), EXTRA.get(a.hash_part)))
    root = hm.serialize()
    # canonical HashmapAug needs fork extras too: rebuild forks with an extra appended
    def fix(c, m):
        # parse the label: the node is a fork iff key bits remain after it -> append the fork's extra
        from pytoniq_core.boc.hashmap.parse import deserialize_hml
        n, _ = deserialize_hml(c.begin_parse(), m)
        if m - n > 0:
            b = Builder().store_bits(c.bits).store_uint(0, 5).store_coins(10 ** 9).store_bit(0)
            b.store_ref(fix(c.refs[0], m - n - 1)).store_ref(fix(c.refs[1], m - n - 1))
            return b.end_cell()
        return c
    root = fix(root, 256)
    return begin_cell().store_bit(1).store_ref(root).store_uint(0, 5).store_coins(10 ** 9).store_bit(0).end_cell()


def make_state(rng, accts):
    accounts = shard_accounts(rng, accts)
    outq = begin_cell().store_uint(rng.getrandbits(12), 12).end_cell()
    third = (begin_cell().store_uint(0, 64).store_uint(0, 64).store_coins(10 ** 9).store_bit(0).store_coins(0).store_bit(0)
             .store_bit(0).store_bit(0).end_cell())
    state = (begin_cell().store_bytes(bytes.fromhex('9023afe2')).store_int(-239, 32)
             .store_uint(0, 2).store_uint(0, 6).store_int(0, 32).store_uint(1 << 63, 64)
             .store_uint(100, 32).store_uint(0, 32).store_uint(1700000000, 32).store_uint(78, 64).store_uint(90, 32)
             .store_ref(outq).store_bit(0).store_ref(accounts).store_ref(third).store_bit(0).end_cell())
    return state, outq, accounts, third


def make_block(rng, state):
    old_state = begin_cell().store_uint(rng.getrandbits(8), 8).end_cell()
    kids = [begin_cell().store_uint(rng.getrandbits(32), 32).end_cell() for _ in range(3)]
    upd = mupdate(pruned(old_state), pruned(state))
    block = (begin_cell().store_bytes(bytes.fromhex('11ef55aa')).store_int(-239, 32)
             .store_ref(kids[0]).store_ref(kids[1]).store_ref(upd).store_ref(kids[2]).end_cell())
    return block, kids, upd


def deep_header_records(rng):
    """block whose state update is only partly pruned in the block itself (its new-state side is an ordinary cell holding a
    level-1 pruned branch and a subtree); the header proof prunes that subtree BELOW the Merkle update (level 2), so an
    ordinary cell gets the children masks 1 and 2"""
    out = []
    sub = begin_cell().store_uint(rng.getrandbits(40), 40).store_ref(begin_cell().store_uint(rng.getrandbits(16), 16).end_cell()).end_cell()
    part = begin_cell().store_uint(rng.getrandbits(24), 24).end_cell()
    old_state = begin_cell().store_uint(rng.getrandbits(8), 8).end_cell()
    kids = [begin_cell().store_uint(rng.getrandbits(32), 32).end_cell() for _ in range(3)]
    order = rng.random() < 0.5

    def new_side(s):
        b = begin_cell().store_uint(5, 3)
        for c in ((pruned(part), s) if order else (s, pruned(part))):
            b.store_ref(c)
        return b.end_cell()
    upd = mupdate(pruned(old_state), new_side(sub))
    block = (begin_cell().store_bytes(bytes.fromhex('11ef55aa')).store_int(-239, 32)
             .store_ref(kids[0]).store_ref(kids[1]).store_ref(upd).store_ref(kids[2]).end_cell())
    upd_p = mupdate(pruned(old_state), new_side(pruned(sub, 2)))
    bp = (begin_cell().store_bits(block.bits).store_ref(pruned(kids[0])).store_ref(kids[1]).store_ref(upd_p).store_ref(pruned(kids[2])).end_cell())
    for want, label, genuine in ((block.hash, 'genuine_header_pruned_below_update', True), (upd.hash, 'forged_wrong_block_hash', False)):
        for store in (0, 1):
            heap, roots, _ = ck.project([bp])
            rec = {'op': 'header', 'label': label, 'genuine': int(genuine), 'cells': heap, 'root': roots[0], 'want': list(want), 'store': store}
            try:
                r = check_block_header_proof(bp, want, bool(store))
                rec['out'] = {'ok': 1}
                if store:
                    rec['out']['state'] = list(r)
            except Exception as e:
                rec['out'] = {'err': type(e).__name__}
            out.append(rec)
    # a Merkle UPDATE cell whose first stored hash and first child are the expected tree is not a Merkle PROOF
    for old in (block, pruned(block)):
        upd_as_proof = mupdate(old, pruned(sub))
        heap, roots, _ = ck.project([upd_as_proof])
        rec = {'op': 'proof', 'label': 'forged_merkle_update_as_proof', 'genuine': 0, 'cells': heap, 'proof': roots[0], 'want': list(block.hash)}
        try:
            check_proof(upd_as_proof, block.hash)
            rec['out'] = {'ok': 1}
        except Exception as e:
            rec['out'] = {'err': type(e).__name__}
        out.append(rec)
    # the same through the generic check: a Merkle proof cell over the pruned block
    # (stored hash and depth are those of the ORIGINAL block, which is what a prover writes)
    mp = Builder(type_=3).store_uint(3, 8).store_bytes(block.get_hash(0)).store_uint(block.get_depth(0), 16).store_ref(bp).end_cell()
    heap, roots, _ = ck.project([mp])
    for want, label, genuine in ((block.hash, 'genuine_proof_pruned_below_update', True), (bp.refs[1].hash, 'forged_wrong_expected_hash', False)):
        rec = {'op': 'proof', 'label': label, 'genuine': int(genuine), 'cells': heap, 'proof': roots[0], 'want': list(want)}
        try:
            check_proof(mp, want)
            rec['out'] = {'ok': 1}
        except Exception as e:
            rec['out'] = {'err': type(e).__name__}
        out.append(rec)
    return out


def multi_boc(roots):
    order, seen = [], set()

    def visit(c):
        if c.hash in seen:
            return
        seen.add(c.hash)
        for r in c.refs:
            visit(r)
        order.append(c)
    for r in roots:
        visit(r)
    order = order[::-1]
    idx = {c.hash: i for i, c in enumerate(order)}
    payload = b''
    for c in order:
        payload += c._descriptors + c._data_bytes + b''.join(idx[r.hash].to_bytes(1, 'big') for r in c.refs)
    n = len(order)
    return (bytes.fromhex('b5ee9c72') + bytes([1, 2]) + bytes([n, len(roots), 0]) + len(payload).to_bytes(2, 'big')
            + bytes(idx[r.hash] for r in roots) + payload)


def header_records(rng):
    out = []
    a = Address((0, bytes(rng.getrandbits(8) for _ in range(32))))
    state, outq, accounts, third = make_state(rng, [(a, account_cell(rng, a))])
    block, kids, upd = make_block(rng, state)
    for mask in range(8):
        ch = [pruned(kids[0]) if mask & 1 else kids[0], pruned(kids[1]) if mask & 2 else kids[1], upd, pruned(kids[2]) if mask & 4 else kids[2]]
        bp = begin_cell().store_bits(block.bits)
        for c in ch:
            bp.store_ref(c)
        bp = bp.end_cell()
        for want, label, genuine in ((block.hash, 'genuine_header', True), (state.hash, 'forged_wrong_block_hash', False)):
            for store in (0, 1):
                heap, roots, _ = ck.project([bp])
                rec = {'op': 'header', 'label': label, 'genuine': int(genuine), 'cells': heap, 'root': roots[0], 'want': list(want), 'store': store}
                try:
                    r = check_block_header_proof(bp, want, bool(store))
                    rec['out'] = {'ok': 1}
                    if store:
                        rec['out']['state'] = list(r)
                except Exception as e:
                    rec['out'] = {'err': type(e).__name__}
                out.append(rec)
        # the children of the state update (level-1 pruned branches in every block) pruned AGAIN by the header proof: two stored
        # hashes each (mask 3).  Genuine; and forged: the new-state branch keeps its level-1 hash (the only one the block hash covers)
        # but carries another level-0 hash - the "state hash" a careless reader would take from it
        if mask in (0, 3, 7):
            o2, n2 = pruned(upd.refs[0], 2), pruned(upd.refs[1], 2)
            y = bytearray(n2.begin_parse().load_bytes(len(n2.bits) // 8))
            fake_state = begin_cell().store_uint(rng.getrandbits(64), 64).end_cell()
            y[2:34] = fake_state.hash
            n2f = Builder(type_=1).store_bytes(bytes(y)).end_cell()
            for o_, n_, label, genuine in ((o2, n2, 'genuine_header_update_children_repruned', True),
                                           (upd.refs[0], n2, 'genuine_header_new_state_repruned', True),
                                           (o2, n2f, 'forged_pruned_level0_hash_below_update', False)):
                u2 = Builder(type_=4).store_bytes(bytes(upd.begin_parse().load_bytes(len(upd.bits) // 8))).store_ref(o_).store_ref(n_).end_cell()
                b2 = begin_cell().store_bits(block.bits)
                for c in (ch[0], ch[1], u2, ch[3]):
                    b2.store_ref(c)
                b2 = b2.end_cell()
                for store in (0, 1):
                    if not genuine and not store:
                        continue        # without the state hash nothing below the update is used: the property is silent here
                    heap, roots, _ = ck.project([b2])
                    rec = {'op': 'header', 'label': label, 'genuine': int(genuine), 'cells': heap, 'root': roots[0], 'want': list(block.hash), 'store': store}
                    try:
                        r = check_block_header_proof(b2, block.hash, bool(store))
                        rec['out'] = {'ok': 1}
                        if store:
                            rec['out']['state'] = list(r)
                    except Exception as e:
                        rec['out'] = {'err': type(e).__name__}
                    out.append(rec)
        # the cell handed to the header check is itself a Merkle proof cell (a tree whose root is one): it is checked like any other
        # cell - by its own level-0 hash, not by the hash of what it wraps
        if mask in (0, 5):
            mp = mproof(bp)
            for want, label, genuine in ((mp.get_hash(0), 'genuine_header_root_is_a_merkle_proof_cell', True),
                                         (block.hash, 'forged_hash_of_the_wrapped_tree_for_a_merkle_rooted_tree', False)):
                heap, roots, _ = ck.project([mp])
                rec = {'op': 'header', 'label': label, 'genuine': int(genuine), 'cells': heap, 'root': roots[0], 'want': list(want), 'store': 0}
                try:
                    check_block_header_proof(mp, want, False)
                    rec['out'] = {'ok': 1}
                except Exception as e:
                    rec['out'] = {'err': type(e).__name__}
                out.append(rec)
        # altered header data
        bad = begin_cell().store_bits(block.bits[:-1]).store_bit(1 - block.bits[-1])
        for c in ch:
            bad.store_ref(c)
        bad = bad.end_cell()
        heap, roots, _ = ck.project([bad])
        rec = {'op': 'header', 'label': 'forged_header_bit', 'genuine': 0, 'cells': heap, 'root': roots[0], 'want': list(block.hash)}
        try:
            check_block_header_proof(bad, block.hash, False)
            rec['out'] = {'ok': 1}
        except Exception as e:
            rec['out'] = {'err': type(e).__name__}
        out.append(rec)
    return out


def account_records(rng, n=None):
    out = []
    n = n or rng.randint(1, 3)
    addrs = [Address((0, bytes(rng.getrandbits(8) for _ in range(32)))) for _ in range(n)]
    if n > 1 and rng.random() < 0.5:      # keys sharing a long prefix
        h0 = addrs[0].hash_part
        addrs[1] = Address((0, h0[:31] + bytes([h0[31] ^ 1])))
    accts = [(a, account_cell(rng, a)) for a in addrs]
    EXTRA.clear()
    for a in addrs:
        if rng.random() < 0.5:            # this account's balance carries other currencies
            EXTRA[a.hash_part] = extra_currency_cell(rng)
    state, outq, accounts, third = make_state(rng, accts)
    block, kids, upd = make_block(rng, state)
    state_p = begin_cell().store_bits(state.bits).store_ref(pruned(outq)).store_ref(accounts).store_ref(pruned(third)).end_cell()
    block_p = (begin_cell().store_bits(block.bits).store_ref(pruned(kids[0])).store_ref(pruned(kids[1])).store_ref(upd)
               .store_ref(pruned(kids[2])).end_cell())
    roots = [mproof(block_p), mproof(state_p)]
    blk = BlockIdExt(0, None, 100, block.hash, b'\x22' * 32)
    target, acc = accts[rng.randrange(n)]
    other_acc = account_cell(rng, target)
    other_state, *_ = make_state(rng, [(target, other_acc)])
    other_state_p = other_state
    absent = Address((0, bytes(rng.getrandbits(8) for _ in range(32))))
    cases = [
        ('genuine_account', True, roots, blk, target, acc),
        ('forged_wrong_account_cell', False, roots, blk, target, Cell.empty()),
        ('forged_other_accounts_cell', False, roots, blk, target, account_cell(rng, target)),
        ('forged_pruned_branch_as_account', False, roots, blk, target, pruned(acc)),
        ('forged_absent_address', False, roots, blk, absent, acc),
        ('forged_wrong_block', False, roots, BlockIdExt(0, None, 100, bytes(rng.getrandbits(8) for _ in range(32)), b'\x22' * 32), target, acc),
        ('forged_other_state', False, [roots[0], mproof(other_state_p)], blk, target, acc),
        ('forged_swapped_roots', False, [roots[1], roots[0]], blk, target, acc),
        # a state proof cell that CARRIES the committed state hash but whose child is another state
        ('forged_state_proof_stored_hash_only', False,
         [roots[0], Builder(type_=3).store_uint(3, 8).store_bytes(state_p.get_hash(0)).store_uint(state_p.get_depth(0), 16).store_ref(other_state_p).end_cell()],
         blk, target, other_acc),
        ('forged_single_root', False, [roots[0]], blk, target, acc),
    ]
    # (a) genuine: the block proof prunes the update's children again (two stored hashes)
    def block_with_update(o_, n_):
        u2 = Builder(type_=4).store_bytes(bytes(upd.begin_parse().load_bytes(len(upd.bits) // 8))).store_ref(o_).store_ref(n_).end_cell()
        return (begin_cell().store_bits(block.bits).store_ref(pruned(kids[0])).store_ref(pruned(kids[1])).store_ref(u2)
                .store_ref(pruned(kids[2])).end_cell())
    o2, n2 = pruned(upd.refs[0], 2), pruned(upd.refs[1], 2)
    cases.append(('genuine_account_update_children_repruned', True, [mproof(block_with_update(o2, n2)), roots[1]], blk, target, acc))
    # (b) forged: ANOTHER state smuggled in through the level-0 slot of the re-pruned new-state branch (not covered by the block hash)
    y = bytearray(n2.begin_parse().load_bytes(len(n2.bits) // 8))
    y[2:34] = other_state.get_hash(0)
    n2f = Builder(type_=1).store_bytes(bytes(y)).end_cell()
    cases.append(('forged_state_through_uncommitted_level0_slot', False, [mproof(block_with_update(o2, n2f)), mproof(other_state_p)], blk, target, other_acc))
    # (c) forged absence: the dictionary branch leading to an existing account is pruned away and "no such account" is claimed
    if n > 1:
        droot = accounts.refs[0]

        def prune_towards(c, key_bits):
            from pytoniq_core.boc.hashmap.parse import deserialize_hml
            cs = c.begin_parse()
            ln, _ = deserialize_hml(cs, len(key_bits))
            rest = key_bits[ln:]
            if not rest or len(c.refs) < 2:
                return pruned(c)
            side = rest[0]
            b = Builder().store_bits(c.bits)
            for j, r in enumerate(c.refs):
                b.store_ref(pruned(r) if j == side else r)
            return b.end_cell()
        kb = [int(x) for x in bin(int.from_bytes(target.hash_part, 'big'))[2:].rjust(256, '0')]
        acc_pruned = begin_cell().store_bits(accounts.bits).store_ref(prune_towards(droot, kb)).end_cell()
        state_pp = begin_cell().store_bits(state.bits).store_ref(pruned(outq)).store_ref(acc_pruned).store_ref(pruned(third)).end_cell()
        none_cell = begin_cell().store_bit(0).end_cell()
        cases.append(('forged_absence_by_pruning_the_path', False, [roots[0], mproof(state_pp)], blk, target, none_cell))
        cases.append(('forged_absence_by_pruning_the_path_empty_cell', False, [roots[0], mproof(state_pp)], blk, target, Cell.empty()))
    # (an address that is really absent from a fully revealed dictionary, claimed as account_none, is not generated: the property
    # does not say whether proofs of absence are supported)
    if target.hash_part in EXTRA:
        cases.append(('forged_extra_currency_dict_as_account', False, roots, blk, target, EXTRA[target.hash_part]))
    pp = partially_pruned(acc, rng)
    if pp is not None:
        cases.append(('forged_partially_pruned_account', False, roots, blk, target, pp))
    if n > 1:
        o_addr, o_acc = [x for x in accts if x[0] is not target][0]
        cases.append(('forged_neighbour_account', False, roots, blk, target, o_acc))
        cases.append(('genuine_second_account', True, roots, blk, o_addr, o_acc))
    if n > 1:
        # the same state, proved for each of its accounts with everything OFF that account's path pruned away: two different
        # views of one dictionary, checked one after the other (what is known about a state is what THIS proof shows)
        from pytoniq_core.boc.hashmap.parse import deserialize_hml

        def keep_only(c, key_bits):
            cs = c.begin_parse()
            ln, _ = deserialize_hml(cs, len(key_bits))
            rest = key_bits[ln:]
            if not rest or len(c.refs) < 2:
                return c
            side = rest[0]
            b = Builder().store_bits(c.bits)
            for j, r in enumerate(c.refs):
                b.store_ref(keep_only(r, rest[1:]) if j == side else (pruned(r) if j < 2 else r))
            return b.end_cell()
        views = []
        for a_, c_ in (accts + accts[::-1])[:4]:
            kb = [int(x) for x in bin(int.from_bytes(a_.hash_part, 'big'))[2:].rjust(256, '0')]
            view = begin_cell().store_bits(accounts.bits).store_ref(keep_only(accounts.refs[0], kb)).end_cell()
            st_view = begin_cell().store_bits(state.bits).store_ref(pruned(outq)).store_ref(view).store_ref(pruned(third)).end_cell()
            views.append(('genuine_account_other_paths_pruned', True, [roots[0], mproof(st_view)], blk, a_, c_))
        # (the narrow views come FIRST for this state: the first thing the process learns about it is one account's path)
        cases = views + cases
    for label, genuine, rts, b, addr, claimed in cases:
        heap, ridx, _ = ck.project(rts)
        ah, ar, _ = ck.project([claimed])
        rec = {'op': 'account', 'label': label, 'genuine': int(genuine), 'cells': heap, 'roots': ridx, 'blockhash': list(b.root_hash),
               'account': list(addr.hash_part), 'claimed': {'cells': ah, 'root': ar[0]}}
        try:
            check_account_proof(multi_boc(rts), b, addr, claimed)
            rec['out'] = {'ok': 1}
        except Exception as e:
            rec['out'] = {'err': type(e).__name__}
        out.append(rec)
    return out


# ------------------------------------------------------------------ shard proofs (check_shard_proof)
def shard_records(rng):
    """a masterchain block + its state with ShardHashes; the proof that a shard block (by root hash) is registered in it.
    Everything the library's parsers read on the way (block info, the McStateExtra cell and its auxiliary cell, the config
    reference) is present and well-formed in every case; only the named ingredient of each forgery differs."""
    from pytoniq_core.proof.check_proof import check_shard_proof
    rb = lambda n: bytes(rng.getrandbits(8) for _ in range(n))

    def shard_descr(root_hash, seqno):
        return (begin_cell().store_uint(0xb, 4).store_uint(seqno, 32).store_uint(rng.getrandbits(20), 32).store_uint(rng.getrandbits(40), 64)
                .store_uint(rng.getrandbits(40), 64).store_bytes(root_hash).store_bytes(rb(32))
                .store_uint(0, 5).store_uint(0, 3).store_uint(7, 32).store_uint(1 << 63, 64).store_uint(5, 32).store_uint(1700000000, 32)
                .store_bit(0).store_coins(rng.choice([0, 10 ** 9])).store_bit(0).store_coins(0).store_bit(0)).end_cell()

    def bintree(descrs, prune=()):
        if len(descrs) == 1:
            c = begin_cell().store_bit(0).store_cell(descrs[0][1]).end_cell()
            return pruned(c) if descrs[0][0] in prune else c
        h = len(descrs) // 2
        return begin_cell().store_bit(1).store_ref(bintree(descrs[:h], prune)).store_ref(bintree(descrs[h:], prune)).end_cell()

    def state_with(shards, prune=(), prune_wc=()):
        hm = HashMap(32, value_serializer=lambda v, dest: dest.store_ref(v))
        for wc, descrs in shards.items():
            t = bintree(descrs, prune)
            hm.set_int_key(wc, pruned(t) if wc in prune_wc else t)
        d = hm.serialize()
        cfgd = HashMap(32, value_serializer=lambda v, dest: dest.store_ref(v))
        cfgd.set_int_key(0, begin_cell().store_bytes(b'\x55' * 32).end_cell())
        aux = (begin_cell().store_uint(0, 16).store_uint(77, 32).store_uint(78, 32).store_bit(0)
               .store_bit(0).store_bit(0).store_uint(0, 64).store_bit(0).store_bit(0).end_cell())
        extra = (begin_cell().store_uint(0xcc26, 16).store_bit(1).store_ref(d).store_bytes(b'\x55' * 32).store_ref(cfgd.serialize()).store_ref(aux)
                 .store_coins(10 ** 9).store_bit(0).end_cell())
        a = Address((0, b'\x42' * 32))
        accounts = shard_accounts(random.Random(7), [(a, account_cell(random.Random(7), a))])
        outq = begin_cell().store_uint(0xabc, 12).end_cell()
        third = (begin_cell().store_uint(0, 64).store_uint(0, 64).store_coins(10 ** 9).store_bit(0).store_coins(0).store_bit(0)
                 .store_bit(0).store_bit(0).end_cell())
        head = (begin_cell().store_bytes(bytes.fromhex('9023afe2')).store_int(-239, 32)
                .store_uint(0, 2).store_uint(0, 6).store_int(-1, 32).store_uint(1 << 63, 64)
                .store_uint(100, 32).store_uint(0, 32).store_uint(1700000000, 32).store_uint(78, 64).store_uint(90, 32))
        full = (begin_cell().store_bits(head.bits).store_ref(outq).store_bit(0).store_ref(accounts).store_ref(third).store_bit(1).store_ref(extra).end_cell())
        shown = (begin_cell().store_bits(head.bits).store_ref(pruned(outq)).store_bit(0).store_ref(pruned(accounts)).store_ref(pruned(third))
                 .store_bit(1).store_ref(extra).end_cell())
        return full, shown

    def block_for(state, seqno, wc=-1):
        prev = begin_cell().store_uint(5, 64).store_uint(seqno - 1, 32).store_bytes(rb(32)).store_bytes(rb(32)).end_cell()
        info = (begin_cell().store_bytes(bytes.fromhex('9bc7a987')).store_uint(0, 32).store_uint(0, 8).store_uint(0, 8)
                .store_uint(seqno, 32).store_uint(0, 32).store_uint(0, 2).store_uint(0, 6).store_int(wc, 32).store_uint(1 << 63, 64)
                .store_uint(1700000000, 32).store_uint(10, 64).store_uint(20, 64).store_uint(1, 32).store_uint(2, 32).store_uint(3, 32).store_uint(4, 32)
                .store_ref(prev).end_cell())
        vf = begin_cell().store_uint(rng.getrandbits(32), 32).end_cell()
        ex = begin_cell().store_uint(rng.getrandbits(32), 32).end_cell()
        upd = mupdate(pruned(begin_cell().store_uint(rng.getrandbits(8), 8).end_cell()), pruned(state))
        full = begin_cell().store_bytes(bytes.fromhex('11ef55aa')).store_int(-239, 32).store_ref(info).store_ref(vf).store_ref(upd).store_ref(ex).end_cell()
        shown = begin_cell().store_bits(full.bits).store_ref(info).store_ref(pruned(vf)).store_ref(upd).store_ref(pruned(ex)).end_cell()
        return full, shown, upd

    out = []
    target, sib, otherwc = rb(32), rb(32), rb(32)
    nsib = rng.choice([1, 2, 3])
    descrs0 = [('s%d' % i, shard_descr(rb(32), 100 + i)) for i in range(nsib)] + [('t', shard_descr(target, 200))]
    rng.shuffle(descrs0)
    shards = {0: descrs0, 5: [('o', shard_descr(otherwc, 300))]}
    seqno = rng.choice([1, 1000, (1 << 31) - 1, rng.getrandbits(30)])
    state, state_p = state_with(shards)
    block, block_p, upd = block_for(state, seqno)
    blk = BlockIdExt(-1, -2 ** 63, seqno, block.hash, b'\x22' * 32)
    shrd = BlockIdExt(0, -2 ** 63, 200, target, b'\x33' * 32)
    roots = [mproof(block_p), mproof(state_p)]
    cases = [('genuine_shard', True, roots, blk, shrd)]
    # genuine with more pruned: every other descriptor, the other workchain's tree
    _, sp2 = state_with(shards, prune={n for n, _ in descrs0 if n != 't'}, prune_wc={5})
    cases.append(('genuine_shard_siblings_pruned', True, [roots[0], mproof(sp2)], blk, shrd))
    cases.append(('genuine_shard_other_workchain', True, roots, blk, BlockIdExt(5, -2 ** 63, 300, otherwc, b'\x33' * 32)))
    # the block itself is trivially "in" itself: nothing is looked at
    cases.append(('genuine_same_block', True, roots, blk, BlockIdExt(-1, -2 ** 63, seqno, block.hash, b'\x22' * 32)))
    # forgeries
    cases.append(('forged_wrong_block_hash', False, roots, BlockIdExt(-1, -2 ** 63, seqno, rb(32), b'\x22' * 32), shrd))
    cases.append(('forged_wrong_seqno', False, roots, BlockIdExt(-1, -2 ** 63, seqno ^ 1, block.hash, b'\x22' * 32), shrd))
    cases.append(('forged_not_masterchain_id', False, roots, BlockIdExt(0, -2 ** 63, seqno, block.hash, b'\x22' * 32), shrd))
    cases.append(('forged_unknown_shard_block', False, roots, blk, BlockIdExt(0, -2 ** 63, 200, rb(32), b'\x33' * 32)))
    cases.append(('forged_shard_of_other_workchain', False, roots, blk, BlockIdExt(5, -2 ** 63, 200, target, b'\x33' * 32)))
    cases.append(('forged_unlisted_workchain', False, roots, blk, BlockIdExt(7, -2 ** 63, 200, target, b'\x33' * 32)))
    _, sp3 = state_with(shards, prune={'t'})
    cases.append(('forged_descriptor_pruned_away', False, [roots[0], mproof(sp3)], blk, shrd))
    _, sp4 = state_with(shards, prune_wc={0})
    cases.append(('forged_workchain_pruned_away', False, [roots[0], mproof(sp4)], blk, shrd))
    # another state (it lists the shard block) under a genuine block
    forged_hash = rb(32)
    shards2 = {0: [(n, c) for n, c in descrs0 if n != 't'] + [('t', shard_descr(forged_hash, 200))]}
    st2, st2p = state_with(shards2)
    cases.append(('forged_other_state', False, [roots[0], mproof(st2p)], blk, BlockIdExt(0, -2 ** 63, 200, forged_hash, b'\x33' * 32)))
    cases.append(('forged_state_proof_stored_hash_only', False,
                  [roots[0], Builder(type_=3).store_uint(3, 8).store_bytes(state_p.get_hash(0)).store_uint(state_p.get_depth(0), 16).store_ref(st2p).end_cell()],
                  blk, BlockIdExt(0, -2 ** 63, 200, forged_hash, b'\x33' * 32)))
    cases.append(('forged_swapped_roots', False, [roots[1], roots[0]], blk, shrd))
    cases.append(('forged_single_root', False, [roots[0]], blk, shrd))
    # the state smuggled in through the level-0 slot of a re-pruned new-state branch (not covered by the block hash)
    o2, n2 = pruned(upd.refs[0], 2), pruned(upd.refs[1], 2)
    y = bytearray(n2.begin_parse().load_bytes(len(n2.bits) // 8))
    y[2:34] = st2.get_hash(0)
    n2f = Builder(type_=1).store_bytes(bytes(y)).end_cell()
    for n_, label, genuine, sroot, sh in ((n2, 'genuine_shard_update_children_repruned', True, roots[1], shrd),
                                          (n2f, 'forged_state_through_uncommitted_level0_slot', False, mproof(st2p), BlockIdExt(0, -2 ** 63, 200, forged_hash, b'\x33' * 32))):
        u2 = Builder(type_=4).store_bytes(bytes(upd.begin_parse().load_bytes(len(upd.bits) // 8))).store_ref(o2).store_ref(n_).end_cell()
        b2 = begin_cell().store_bits(block_p.bits).store_ref(block_p.refs[0]).store_ref(block_p.refs[1]).store_ref(u2).store_ref(block_p.refs[3]).end_cell()
        cases.append((label, genuine, [mproof(b2), sroot], blk, sh))
    for label, genuine, rts, b, sh in cases:
        heap, ridx, _ = ck.project(rts)
        rec = {'op': 'shard', 'label': label, 'genuine': int(genuine), 'cells': heap, 'roots': ridx,
               'same': int(b == sh), 'blk': {'wc': b.workchain, 'wc4': list((b.workchain & 0xffffffff).to_bytes(4, 'big')),
                                             'seqno4': list((b.seqno & 0xffffffff).to_bytes(4, 'big')), 'root': list(b.root_hash)},
               'shrd': {'wc4': list((sh.workchain & 0xffffffff).to_bytes(4, 'big')), 'root': list(sh.root_hash)}}
        try:
            check_shard_proof(multi_boc(rts), b, sh)
            rec['out'] = {'ok': 1}
        except Exception as e:
            rec['out'] = {'err': type(e).__name__}
        out.append(rec)
    return out


def generate(tier, seed, ctx):
    rng = random.Random(seed)
    q = tier == 'quick'
    out = []
    states = [(n, s) for n in ('prune_chain_g', 'prune_wide_g') for s in ctx['mc'].get(n, [])]
    rng.shuffle(states)
    for name, st in states[:(45 if q else 2000)]:
        objs_o = ck.build_heap(st['oheap'], 'ctor')
        orig_hash = objs_o[st['oroot'] - 1].get_hash(0)
        for heap, want, label, genuine in forgeries(rng, st['heap'], st['root'], orig_hash):
            r = run_proof(heap, want, label, genuine)
            if r:
                out.append(r)
        r = stored_hash_forgery(rng, st['heap'], st['root'], orig_hash)
        if r:
            out.append(r)
    # random DAGs with random prunings
    from drivers.c02 import random_pruned_case
    for _ in range(25 if q else 1500):
        heap, twins, n, root_t, wraps = random_pruned_case(rng)
        try:
            objs = ck.build_heap(heap, 'ctor')
        except Exception:
            continue
        orig_hash = objs[n - 1].get_hash(0)
        # proof body = twin rooted at root_t: keep only cells up to root_t in heap order (children first)
        for h2, want, label, genuine in forgeries(rng, heap[:root_t], root_t, orig_hash):
            r = run_proof(h2, want, label, genuine)
            if r:
                out.append(r)
        r = stored_hash_forgery(rng, heap[:root_t], root_t, orig_hash)
        if r:
            out.append(r)
    for _ in range(1 if q else 20):
        out += header_records(rng)
    for _ in range(3 if q else 60):
        out += deep_header_records(rng)
    for k in range(5 if q else 200):
        out += account_records(rng, n=(2, 3, None, None, 1)[k % 5])
    for k in range(3 if q else 100):
        out += shard_records(rng)
    return out


def canary(r, rng):
    r['out'] = {'ok': 1} if 'err' in r['out'] else {'err': 'Canary'}
    r['canary'] = 'flipped outcome'
    return r if len(r['cells']) < 40 else None


def nontrivial_key(r):
    return (r['op'], r['label'], bytes(r['cells'][-1]['y'][:40]), len(r['cells']))


def extra_coverage(flat, ctx):
    lab = {}
    for r in flat:
        lab[r['label']] = lab.get(r['label'], 0) + 1
    return {'cases_by_label': lab, 'accepted': sum(1 for r in flat if 'ok' in r['out']), 'rejected': sum(1 for r in flat if 'err' in r['out'])}
