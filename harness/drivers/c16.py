"""C16 driver: every boundary value the TL-B interpreter generates for the covered types, encoded by the specification,
is parsed by the library; the object's attributes are read back leaf by leaf."""
import random

import base64
import os
import re

import tlbkit
import vlib
from pytoniq_core.boc import Cell
from pytoniq_core.tlb import account as A, block as B, config as Cf, transaction as T
from pytoniq_core.tlb import utils as Ut

PROP = 'C16'
TRACE_MODULE = 'C16Trace.tla'
RULE = ('for every covered block.tlb type: the zero base value and a rich base value (all leaves non-zero, all optional parts present), '
        'one-factor-at-a-time variations around both (every constructor alternative, every Maybe/Either side and flag, leaf menus {0, 1, max, '
        'msb-set, non-minimal and maximal var-ints, extra-currency dictionaries, dictionary shapes}), every present/absent combination of the '
        'optional parts, (thorough) every pair of fields varied together - generated and encoded by TLC from the transcribed schema, decoded '
        'back by the specification (DecEnc) and parsed by the library; the bundled main-net block decoded by the specification; distinct = '
        'distinct (type, encoding)')
ASSUMPTIONS = ['TlbSchema.tla is a hand transcription of block.tlb (tags prefix-free checked by TLC; values satisfy the schema constraints)',
               'attribute paths: block.tlb field names with the aliases listed in tlbkit.ALIAS; representation (bytes / hex string / int for '
               'bit fields, {} / None for an empty dictionary) is normalised, content is compared by TLC',
               'constructor names themselves are not compared (the library uses its own labels); covered types are listed in evidence']
class _WF0:
    deserialize = staticmethod(lambda s: Cf.WorkchainFormat.deserialize(s, 0))


class _WF1:
    deserialize = staticmethod(lambda s: Cf.WorkchainFormat.deserialize(s, 1))


class _BPA:
    deserialize = staticmethod(lambda s: B.BlkPrevInfo.deserialize(s, 0))


class _BPB:
    deserialize = staticmethod(lambda s: B.BlkPrevInfo.deserialize(s, 1))


class _OutListView:
    """OutList.deserialize returns the actions as a Python list (oldest first); block.tlb's view of the same value is
    prev:^(OutList n) action:OutAction.  The view re-nests the list so that the schema's leaf paths can be walked."""
    def __init__(self, lst):
        if not isinstance(lst, list):
            raise TypeError('OutList.deserialize did not return a list')
        self.n = len(lst)
        if lst:
            self.prev = _OutListView(lst[:-1])
            self.action = lst[-1]


def _with_root_extra(parse, extra):
    """the library's stand-alone HashmapAugE types leave the root extra of the dictionary to their caller (McStateExtra reads the
    KeyMaxLt after OldMcBlocksInfo.deserialize; see the fix recorded for C16): the caller's step is replayed here"""
    def f(s):
        r = parse(s)
        extra(s)
        return r
    return staticmethod(f)


class _OMB:
    deserialize = _with_root_extra(B.OldMcBlocksInfo.deserialize, B.KeyMaxLt.deserialize)


class _SAS:
    deserialize = _with_root_extra(B.ShardAccounts.deserialize, B.DepthBalanceInfo.deserialize)


class _ShardStateView:
    """ShardState.deserialize wraps an unsplit state as .shard_state_unsplit under the label '_': block.tlb's view of that alternative
    is the state's own fields, so the view exposes them next to the label"""
    def __init__(self, o):
        inner = getattr(o, 'shard_state_unsplit', None)
        self.__dict__.update((inner if inner is not None else o).__dict__)
        self.type_ = o.type_


class _SS:
    deserialize = staticmethod(lambda s: _ShardStateView(B.ShardState.deserialize(s)))


class _OL:
    deserialize = staticmethod(lambda s: _OutListView(T.OutList.deserialize(s)))


CLS = {
    'BlkPrevInfoA': _BPA, 'BlkPrevInfoB': _BPB, 'OutList0': _OL, 'OutList1': _OL, 'OutList2': _OL, 'OutList3': _OL,
    'OldMcBlocksInfo': _OMB, 'ShardAccounts': _SAS, 'ShardState': _SS,
    'ConfigParam1': Cf.ConfigParam1, 'ConfigParam2': Cf.ConfigParam2, 'ConfigParam3': Cf.ConfigParam3, 'ConfigParam4': Cf.ConfigParam4,
    'ConfigParam8': Cf.ConfigParam8, 'ConfigParam10': Cf.ConfigParam10, 'ConfigParam11': Cf.ConfigParam11, 'ConfigParam13': Cf.ConfigParam13,
    'ConfigParam14': Cf.ConfigParam14, 'ConfigParam20': Cf.ConfigParam20, 'ConfigParam21': Cf.ConfigParam21, 'ConfigParam22': Cf.ConfigParam22,
    'ConfigParam23': Cf.ConfigParam23, 'ConfigParam24': Cf.ConfigParam24, 'ConfigParam25': Cf.ConfigParam25, 'ConfigParam28': Cf.ConfigParam28,
    'ConfigParam29': Cf.ConfigParam29, 'ConfigParam33': Cf.ConfigParam33, 'ConfigParam34': Cf.ConfigParam34, 'ConfigParam35': Cf.ConfigParam35,
    'ConfigParam36': Cf.ConfigParam36, 'ConfigParam37': Cf.ConfigParam37, 'ConfigParam44': Cf.ConfigParam44, 'ConfigParam71': Cf.ConfigParam71,
    'ConfigParam72': Cf.ConfigParam72, 'ConfigParam73': Cf.ConfigParam73, 'ConfigParam79': Cf.ConfigParam79, 'ConfigParam81': Cf.ConfigParam81,
    'ConfigParam82': Cf.ConfigParam82,
    'WorkchainFormat0': _WF0, 'WorkchainFormat1': _WF1, 'WcSplitMergeTimings': Cf.WcSplitMergeTimings, 'WorkchainDescr': Cf.WorkchainDescr,
    'ConsensusConfig': Cf.ConsensusConfig,
    'ConfigParam0': Cf.ConfigParam0, 'ConfigParam5': Cf.ConfigParam5, 'ConfigParam6': Cf.ConfigParam6, 'ConfigParam7': Cf.ConfigParam7,
    'ConfigParam9': Cf.ConfigParam9, 'ConfigParam12': Cf.ConfigParam12, 'ConfigParam15': Cf.ConfigParam15, 'ConfigParam16': Cf.ConfigParam16,
    'ConfigParam17': Cf.ConfigParam17, 'ConfigParam18': Cf.ConfigParam18, 'ConfigParam31': Cf.ConfigParam31, 'ConfigParam32': Cf.ConfigParam32, 'SuspendedAddressList': Cf.SuspendedAddressList, 'OracleBridgeParams': Cf.OracleBridgeParams,
    'JettonBridgePrices': Cf.JettonBridgePrices, 'JettonBridgeParams': Cf.JettonBridgeParams,
    'StorageUsedShort': A.StorageUsedShort, 'StorageUsed': A.StorageUsed, 'StorageInfo': A.StorageInfo, 'AccStatusChange': T.AccStatusChange,
    'AccountStatus': A.AccountStatus, 'TrStoragePhase': T.TrStoragePhase, 'TrCreditPhase': T.TrCreditPhase, 'TrBouncePhase': T.TrBouncePhase,
    'ComputeSkipReason': T.ComputeSkipReason, 'TrComputePhase': T.TrComputePhase, 'TrActionPhase': T.TrActionPhase, 'SplitMergeInfo': T.SplitMergeInfo,
    'TransactionDescr': T.TransactionDescr, 'IntermediateAddress': T.IntermediateAddress, 'MsgMetadata': T.MsgMetadata, 'ShardIdent': B.ShardIdent,
    'ExtBlkRef': B.ExtBlkRef, 'BlkMasterInfo': B.BlkMasterInfo, 'GlobalVersion': B.GlobalVersion, 'FutureSplitMerge': B.FutureSplitMerge,
    'ShardDescr': B.ShardDescr, 'SigPubKey': Cf.SigPubKey, 'ValidatorDescr': Cf.ValidatorDescr, 'CatchainConfig': Cf.CatchainConfig,
    'KeyMaxLt': B.KeyMaxLt, 'KeyExtBlkRef': B.KeyExtBlkRef, 'Counters': B.Counters, 'CreatorStats': B.CreatorStats, 'ValidatorInfo': B.ValidatorInfo,
    'DepthBalanceInfo': B.DepthBalanceInfo, 'TickTock': A.TickTock,
    'StateInit': A.StateInit, 'CommonMsgInfo': T.CommonMsgInfo, 'Message': T.MessageAny, 'AccountState': A.AccountState,
    'AccountStorage': A.AccountStorage, 'Account': A.Account, 'HashUpdate': Ut.HashUpdate, 'MsgEnvelope': T.MsgEnvelope,
    'BlockInfo': B.BlockInfo, 'ValueFlow': B.ValueFlow, 'ValidatorSet': Cf.ValidatorSet,
    'Transaction': T.Transaction, 'ShardAccount': A.ShardAccount, 'AccountBlock': A.AccountBlock, 'ImportFees': T.ImportFees,
    'MsgEnvelopeAny': T.MsgEnvelope, 'InMsg': T.InMsg, 'OutMsg': T.OutMsg, 'BlockExtra': B.BlockExtra, 'Block': B.Block,
    'ConfigParams': B.ConfigParams, 'BlockCreateStats': B.BlockCreateStats, 'McStateExtra': B.McStateExtra, 'McBlockExtra': B.McBlockExtra,
    'ShardStateUnsplit': B.ShardStateUnsplit, 'LibRef': T.LibRef, 'OutAction': T.OutAction,
    'ConfigProposalSetup': Cf.ConfigProposalSetup, 'ConfigVotingSetup': Cf.ConfigVotingSetup, 'ComplaintPricing': Cf.ComplaintPricing,
    'BlockCreateFees': Cf.BlockCreateFees, 'StoragePrices': Cf.StoragePrices, 'GasLimitsPrices': Cf.GasLimitsPrices, 'ParamLimits': Cf.ParamLimits,
    'BlockLimits': Cf.BlockLimits, 'MsgForwardPrices': Cf.MsgForwardPrices,
}


def tlb_cfg(types, emit='TRUE', pairs='FALSE'):
    return ('INIT Init\nNEXT Next\nCONSTANTS Types = {%s}\n Emit = %s\n Pairs = %s\nINVARIANT Export\nINVARIANT Count\nINVARIANT DecEnc\nCHECK_DEADLOCK FALSE\n'
            % (', '.join('"%s"' % t for t in types), emit, pairs))


def model_checks(tier):
    names = sorted(set(CLS) - {'Block'})        # Block is read in the decode direction only (its state update is not transcribed)
    if os.environ.get('VERIF_ONLY_TYPES'):      # development aid: restrict the run to some types
        names = [n for n in names if n in os.environ['VERIF_ONLY_TYPES'].split(',')]
    k = 8 if tier == 'quick' else 16
    chunks = [names[i::k] for i in range(k)]
    return [dict(name='tlb_g%d' % i, module='MC_Tlb.tla', gen=True, workers=2 if tier == 'quick' else 1, timeout=3000, heap='4g',
                 cfg=tlb_cfg(ch, pairs='FALSE' if tier == 'quick' else 'TRUE'))
            for i, ch in enumerate(chunks)]


def damaged(tree, depth):
    if depth <= 0:
        return {'b': tree['b'][:1], 'r': []}
    return {'b': tree['b'], 'r': [damaged(r, depth - 1) for r in tree['r']]}


def generate(tier, seed, ctx):
    out = []
    for name in sorted(ctx['mc']):
        for case in ctx['mc'][name]:
            ty = case['type']
            rec = {'op': 'tlb', 'type': ty, 'flat': case['flat']}
            try:
                s = tlbkit.tree_to_cell(case['enc']).begin_parse()
                if len(out) % 5 == 0:
                    # an earlier parse of the same cell whose result the caller took apart
                    try:
                        tlbkit.scramble_object(CLS[ty].deserialize(tlbkit.tree_to_cell(case['enc']).begin_parse()))
                    except Exception:
                        pass
                if len(out) % 2 == 0:
                    # malformed input in between: the same encoding with everything two references down cut to a single bit (the
                    # parse fails somewhere inside a nested value); what a rejected input leaves behind has no bearing on the next parse
                    for dmg in (2, 1):
                        try:
                            CLS[ty].deserialize(tlbkit.tree_to_cell(damaged(case['enc'], dmg)).begin_parse())
                        except Exception:
                            pass
                obj = CLS[ty].deserialize(s)
                rec['rem'] = {'bits': s.remaining_bits, 'refs': s.remaining_refs}
                if ty == 'Message' and any(l['k'] == 'Cell' and l['path'] == ['body'] for l in case['flat']):
                    # body:(Either X ^X) with X = Any inline: "the rest of the cell" is the body; the library returns it with
                    # to_cell() and leaves the slice positioned at it (named deviation: the rest counts as consumed)
                    body = obj.body
                    if s.remaining_bits == len(body.bits) and s.remaining_refs == len(body.refs):
                        rec['rem'] = {'bits': 0, 'refs': 0}
                tlbkit.drain(s)
                rec['obs'] = tlbkit.observe(obj, case['flat'], case.get('base', ty))
            except RecursionError:
                raise
            except Exception as e:
                rec['err'] = type(e).__name__
            out.append(rec)
    out += bundled_block(ctx)
    return out


def bundled_block(ctx):
    """decode direction: the bundled main-net block (and its parts on their own) read by the specification's decoder from the
    cell tree; the library's parser must report every leaf the decoder lists"""
    src = open(os.environ.get('VERIF_REPO', '/repo') + '/tests/test_cell.py').read()
    root = Cell.one_from_boc(base64.b64decode(re.search(r"block_boc = '([^']+)'", src).group(1)))
    parts = [('Block', root), ('BlockInfo', root.refs[0]), ('ValueFlow', root.refs[1]), ('BlockExtra', root.refs[3]),
             ('McBlockExtra', root.refs[3].refs[3])]
    jobs = [{'id': k + 1, 'type': 'DecodeL', 'nm': nm, 'tree': tlbkit.cell_tree_t(c)} for k, (nm, c) in enumerate(parts)]
    res = vlib.tlc_map('TlbEncode.tla', jobs, os.path.join(ctx['work'], 'dec'), shards=4)
    out = []
    for k, (nm, c) in enumerate(parts):
        d = res[k + 1]['encs'][0]
        if not d['ok']:
            raise vlib.MachineryError('the specification cannot decode the bundled block as ' + nm)
        rec = {'op': 'tlb', 'type': nm, 'flat': d['flat'], 'tags': ['bundled_block']}
        try:
            s = c.begin_parse()
            obj = CLS[nm].deserialize(s)
            rec['obs'] = tlbkit.observe(obj, d['flat'], nm)
            rec['rem'] = {'bits': s.remaining_bits, 'refs': s.remaining_refs}
        except RecursionError:
            raise
        except Exception as e:
            rec['err'] = type(e).__name__
        out.append(rec)
    return out


def canary(r, rng):
    if 'err' in r:
        return None
    idx = [i for i, o in enumerate(r['obs']) if 'int' in o]
    if not idx:
        return None
    i = rng.choice(idx)
    m = r['obs'][i]['int']
    r['obs'][i] = {'int': {'neg': 1 - m['neg'], 'mag': m['mag'] or [1]}}
    r['canary'] = 'sign of leaf %d' % i
    return r


def nontrivial_key(r):
    return (r['type'], repr(r['flat']))


def extra_coverage(flat, ctx):
    by = {}
    for r in flat:
        by[r['type']] = by.get(r['type'], 0) + 1
    def n_obs(r, pred):
        return sum(1 for o in r.get('obs', []) if pred(o))
    bb = [r for r in flat if 'bundled_block' in r.get('tags', [])]
    return {'values_by_type': by, 'types_covered': len(by), 'parse_errors': sum(1 for r in flat if 'err' in r),
            'leaves_compared': sum(n_obs(r, lambda o: 'skip' not in o) for r in flat),
            'leaves_not_comparable': sum(n_obs(r, lambda o: 'skip' in o) for r in flat),
            'bundled_block': {r['type']: {'leaves': len(r['flat']), 'compared': n_obs(r, lambda o: 'skip' not in o)} for r in bb}}
