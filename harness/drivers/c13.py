"""C13 driver: Address.to_str in every variant, parsed back; single-character substitutions."""
import random

from pytoniq_core.boc.address import Address

PROP = 'C13'
TRACE_MODULE = 'C13Trace.tla'
RULE = ('all 256 workchains x (raw + 8 friendly variants) x hash patterns {00.., ff.., single bit, random}; the same from objects that were parsed from each text form first (second generation); for a sample of friendly '
        'addresses ALL 48 x 63 single-symbol substitutions (a different 6-bit symbol in the variant\'s own alphabet); distinct = distinct '
        'rendered / substituted texts')
ASSUMPTIONS = ['TonAddr: tag 0x11/0x51 (+0x80), int8 workchain, CRC-16/XMODEM big-endian, base64 std / URL-safe',
               'a "replaced character" is a character denoting a different 6-bit symbol (the same symbol spelled in the other alphabet is the same address)',
               'SubstitutionLemma (TLC, all 3024 single-symbol error patterns have a non-zero CRC-16 syndrome) extends the sampled check to all addresses']
STD = 'ABCDEFGHIJKLMNOPQRSTUVWXYZabcdefghijklmnopqrstuvwxyz0123456789+/'
URL = STD[:62] + '-_'


def model_checks(tier):
    pats = '{0, 1, 2, 3}' if tier == 'quick' else '{0, 1, 2, 3, 5, 7, 11, 13}'
    return [dict(name='addr_m', module='MC_Addr.tla', workers=8,
                 cfg='INIT Init\nNEXT Next\nCONSTANTS HashPatterns = %s\nINVARIANT ParseRender\nCHECK_DEADLOCK FALSE\n' % pats)]


def addr_rec(wc, h, form, bounce=1, test=0, url=1, src=None):
    """src: where the rendered object comes from - None: built from (wc, hash); 'raw' / 'copy' / (bounce, test, url): parsed from that
    text form of the same address first (a second generation: what is rendered depends on the address and the requested flags only)"""
    rec = {'op': 'addr', 'wc': wc, 'hash': list(h), 'form': form, 'bounce': bounce, 'test': test, 'url': url}
    if src is not None:
        rec['src'] = list(src) if isinstance(src, tuple) else src
    try:
        a = Address((wc, h))
        if src == 'mutated':
            # an object that stood for ANOTHER account, was rendered in every form, and was then given this account's fields
            # (directly, or by being refilled through the public is_hex / is_b64)
            a = Address((-wc - 1, bytes(b ^ 0x5a for b in h)))
            a.to_str(is_user_friendly=False)
            for bb in (0, 1):
                for tt in (0, 1):
                    for uu in (0, 1):
                        a.to_str(is_user_friendly=True, is_bounceable=bool(bb), is_test_only=bool(tt), is_url_safe=bool(uu))
            if h[0] % 2:
                a.wc, a.hash_part = wc, h
            else:
                a.is_hex('%d:%s' % (wc, h.hex()))
        elif src == 'raw':
            a = Address(a.to_str(is_user_friendly=False))
        elif src == 'copy':
            a = Address(Address(a.to_str(is_bounceable=False, is_test_only=True)))
        elif src is not None:
            a = Address(a.to_str(is_user_friendly=True, is_bounceable=bool(src[0]), is_test_only=bool(src[1]), is_url_safe=bool(src[2])))
        if form == 'raw':
            s = a.to_str(is_user_friendly=False)
        else:
            s = a.to_str(is_user_friendly=True, is_url_safe=bool(url), is_bounceable=bool(bounce), is_test_only=bool(test))
        rec['text'] = list(s.encode())
    except Exception as e:
        rec['err'] = type(e).__name__
        return rec, None
    try:
        b = Address(s)
        rec['back'] = {'wc': b.wc, 'hash': list(b.hash_part), 'bounce': int(b.is_bounceable), 'test': int(b.is_test_only),
                       'eq': int(b == a and a == b), 'hasheq': int(hash(a) == hash(b) and len({a: 1, b: 2}) == 1)}
    except Exception as e:
        rec['back'] = {'err': type(e).__name__}
    return rec, s


def subst_rec(s):
    rec = {'op': 'subst', 'text': list(s.encode())}
    try:
        Address(s)
        rec['out'] = {'ok': 1}
    except Exception as e:
        rec['out'] = {'err': type(e).__name__}
    return rec


def generate(tier, seed, ctx):
    rng = random.Random(seed)
    q = tier == 'quick'
    out, friendly = [], []
    pats = [bytes(32), b'\xff' * 32, b'\x80' + bytes(31), bytes(31) + b'\x01']
    for wc in range(-128, 128):
        hs = pats[:2] + [bytes(rng.getrandbits(8) for _ in range(32))] if q else pats + [bytes(rng.getrandbits(8) for _ in range(32)) for _ in range(6)]
        if wc in (-128, -1, 0, 127):
            hs = pats + [bytes(rng.getrandbits(8) for _ in range(32))]
        for h in hs:
            r, s = addr_rec(wc, h, 'raw')
            out.append(r)
            for bounce in (0, 1):
                for test in (0, 1):
                    for url in (0, 1):
                        if q and wc not in (-128, -1, 0, 127) and rng.random() < 0.5:
                            continue
                        r, s = addr_rec(wc, h, 'friendly', bounce, test, url)
                        out.append(r)
                        if s:
                            friendly.append((s, url))
    # second generation: objects that were themselves parsed from a text form, rendered in every variant
    srcs = ['raw', 'copy', 'mutated'] + [(b, t, u) for b in (0, 1) for t in (0, 1) for u in (0, 1)]
    for wc in ((-128, -1, 0, 127) if q else (-128, -1, 0, 1, 127, rng.randint(-128, 127))):
        h = bytes(rng.getrandbits(8) for _ in range(32))
        for src in srcs:
            out.append(addr_rec(wc, h, 'raw', src=src)[0])
            for bounce in (0, 1):
                for test in (0, 1):
                    for url in (0, 1):
                        out.append(addr_rec(wc, h, 'friendly', bounce, test, url, src=src)[0])
    for s, url in rng.sample(friendly, 3 if q else 120):
        al = URL if url else STD
        for p in range(48):
            for ch in al:
                if ch != s[p]:
                    out.append(subst_rec(s[:p] + ch + s[p + 1:]))
    # a few valid texts through the subst path (must be accepted), incl. mixed alphabets denoting the same symbols
    for s, url in rng.sample(friendly, 20):
        out.append(subst_rec(s))
        out.append(subst_rec(s.replace('-', '+').replace('_', '/') if url else s.replace('+', '-').replace('/', '_')))
    return out


def canary(r, rng):
    if r['op'] == 'addr' and 'text' in r:
        r['text'][rng.randrange(len(r['text']))] ^= 1
        r['canary'] = 'text'
        return r
    if r['op'] == 'subst' and 'err' in r['out']:
        r['out'] = {'ok': 1}
        r['canary'] = 'accepted'
        return r
    return None


def nontrivial_key(r):
    return bytes(r['text']) if 'text' in r else None


def extra_coverage(flat, ctx):
    return {'workchains': len({r['wc'] for r in flat if r['op'] == 'addr'}), 'substitutions': sum(1 for r in flat if r['op'] == 'subst'),
            'substitutions_rejected': sum(1 for r in flat if r['op'] == 'subst' and 'err' in r['out'])}
