"""C04 driver: bytes emitted by Cell.to_boc for every option set, checked by the strict TLA+ decoder."""
import random

import bockit as bk
import cellkit as ck
from drivers.c01 import dag_cfg
from drivers.c02 import dagx_cfg

PROP = 'C04'
TRACE_MODULE = 'C04Trace.tla'
RULE = ('sources: TLC-enumerated heaps of the DAG machine (ordinary and exotic), random shared DAGs, width-boundary DAGs '
        '(255/256/257 cells; 255/256/257-byte payloads; thorough: 65535/65536/65537), each serialised with all 6 valid option '
        'sets; pools of live Cell objects emitted under several roots one after another (inner cells first); distinct = distinct emitted byte strings')
ASSUMPTIONS = ['TonBoc.Decode is the strict reading of crypto/tl/boc.tlb + vm/boc.cpp (model-checked against its own encoder in MC_Boc)',
               'the src->bag cell map is an untrusted hint verified by IsoVia', 'TonCrc anchored on catalogue vectors']


def boc_cfg(maxcells, bitlens, exotics, sizes, offbs, wh, emit, corrupt, invs=True, maxrefs=2):
    s = ('SPECIFICATION Spec\nCONSTANTS MaxCells = %d\n BitLens = {%s}\n MaxRefsGen = %d\n Exotics = %s\n Sizes = {%s}\n Offbs = {%s}\n'
         ' WithHashes = {%s}\n Emit = %s\n Corrupt = %s\n' % (maxcells, ', '.join(map(str, bitlens)), maxrefs, exotics,
                                                           ', '.join(map(str, sizes)), ', '.join(map(str, offbs)), wh, emit, corrupt))
    if invs:
        s += 'INVARIANT DecodeEncode\n'
        if corrupt == 'TRUE':
            s += 'INVARIANT FlipDetected\nINVARIANT TruncExtendErr\nINVARIANT BadRefErr\n'
    if emit == 'TRUE':
        s += 'INVARIANT Export\n'
    return s + 'CHECK_DEADLOCK FALSE\n'


def model_checks(tier):
    q = tier == 'quick'
    return [dict(name='dag_g', module='MC_CellDag.tla', gen=True, workers=1, cfg=dag_cfg(3 if not q else 2, [0, 7, 8, 1023], 3, invs=False)),
            dict(name='dagx_g', module='MC_CellDag.tla', gen=True, workers=1, cfg=dagx_cfg(3, [1] if q else [1, 9], 2, 3, 'FALSE', 'TRUE', False)),
            dict(name='boc_m', module='MC_Boc.tla', workers=16, timeout=1500,
                 cfg=boc_cfg(2, [1, 8] if q else [0, 1, 8, 9], '{"pruned", "mproof", "library"}', [1, 2] if q else [1, 2, 4],
                             [2] if q else [2, 3, 8], 'FALSE, TRUE', 'FALSE', 'FALSE'))]


def sources(tier, seed, ctx):
    """-> list of (note, heap) with heap children-first; root = last cell"""
    rng = random.Random(seed + 4)
    src = []
    for name in ('dag_g', 'dagx_g'):
        hs = ctx['mc'].get(name, [])
        if tier == 'quick' and len(hs) > 120:
            hs = rng.sample(hs, 120)
        src += [(name, h) for h in hs]
    for _ in range(15 if tier == 'quick' else 300):
        src.append(('random', ck.rand_heap(rng, rng.randint(2, 60), [0, 1, 7, 8, 9, 33, 255, 256, 1023])))
    for n in (255, 256, 257):
        src.append(('cells_%d' % n, bk.tree_heap(n)))
    # payload-size boundaries around 256 bytes (off_bytes 1 -> 2): root + 4 leaves of 50 bytes
    for x in (40, 41, 42, 43, 44):
        leaves = [ck.acell(ck.rand_bits(rng, 400), []) for _ in range(4)]
        src.append(('payload_%d' % (214 + x), leaves + [ck.acell(ck.rand_bits(rng, 8 * x), [1, 2, 3, 4])]))
    # level masks that are not nested: an ordinary cell over pruned branches of masks 1, 2 and 4 has the UNION of them in d1
    def prb(mask):
        n = bin(mask).count('1')
        y = bytes([1, mask]) + bytes(rng.getrandbits(8) for _ in range(32 * n)) + b''.join(rng.randint(0, 5).to_bytes(2, 'big') for _ in range(n))
        return dict(ck.acell([], [], t=1), n=8 * len(y), y=list(y))
    for masks in ((1, 2), (2, 1), (1, 4), (2, 4), (1, 2, 4), (3, 4), (5, 2), (6, 1)):
        kids = [prb(m) for m in masks]
        top = ck.acell(ck.rand_bits(rng, 5), list(range(1, len(kids) + 1)))
        src.append(('masks_%s' % '_'.join(map(str, masks)), kids + [top]))
        # ... and one level further up, next to a plain leaf
        src.append(('masks_up_%s' % '_'.join(map(str, masks)), kids + [top, ck.acell([1, 0, 1], []), ck.acell([0, 1], [len(kids) + 1, len(kids) + 2])]))
    # an exotic cell next to an ORDINARY cell with the very same data bits and children: two different cells
    hsh = bytes(rng.getrandbits(8) for _ in range(32))
    lib = dict(ck.acell([], [], t=2), n=264, y=[2] + list(hsh))
    src.append(('twins_library', [lib, dict(lib, t=0), ck.acell([1], [2, 1])]))
    src.append(('twins_library_exotic_first', [lib, dict(lib, t=0), ck.acell([1], [1, 2])]))
    p1 = prb(1)
    src.append(('twins_pruned', [p1, dict(p1, t=0), ck.acell([1, 1], [2, 1, 2])]))
    # cells without any data: the payload is descriptors and references only (86..255 such cells make the offsets wider than the indices)
    for n in (60, 86, 120, 255):
        src.append(('empty_chain_%d' % n, [ck.acell([], [])] + [ck.acell([], [k]) for k in range(1, n)]))
    src.append(('empty_tree_85', [dict(c, n=0, y=[]) for c in bk.tree_heap(85)]))
    # a Merkle proof above a pruned branch that records a depth far beyond what is left of the tree (depth order is not reference order)
    try:
        from pytoniq_core.boc import Builder as _B
        for stored in (40, 900):
            yb = bytes([1, 1]) + bytes(rng.getrandbits(8) for _ in range(32)) + stored.to_bytes(2, 'big')
            pb = _B(type_=1)
            pb.store_bytes(yb)
            pr = pb.end_cell()
            inner = _B().store_uint(5, 3).store_ref(pr).store_ref(_B().store_uint(1, 1).end_cell()).end_cell()
            proof = _B(type_=3).store_uint(3, 8).store_bytes(inner.get_hash(0)).store_uint(inner.get_depth(0), 16).store_ref(inner).end_cell()
            top = _B().store_uint(9, 4).store_ref(_B().store_uint(2, 2).end_cell()).store_ref(proof).end_cell()
            for root, nm in ((proof, 'proof'), (top, 'over_proof')):
                heap, _, _ = ck.project([root])
                src.append(('deep_pruned_%s_%d' % (nm, stored), heap))
    except Exception:
        pass
    # chains at the depth limit (and just below the depth at which a per-level recursion exhausts a default interpreter stack)
    for depth in ((1023, 990) if tier == 'quick' else (1023, 1022, 1000, 990, 960)):
        chain = [ck.acell([1], [])]
        for k in range(1, depth + 1):
            chain.append(ck.acell(ck.rand_bits(rng, rng.choice([0, 3, 8])), [k] if k % 7 else [k, k]))
        src.append(('chain_%d' % depth, chain))
    if tier == 'thorough':
        for n in (65535, 65536, 65537):
            src.append(('cells_%d' % n, bk.tree_heap(n)))
        # payload boundaries around 65536 bytes: 500 cells of 127 bytes, then tune the root
        for target in (65535, 65536, 65537):
            n = 500
            heap = bk.tree_heap(n, databits=127 * 8)
            tot = sum(2 + len(c['y']) + 2 * len(c['r']) for c in heap)
            rootlen = len(heap[-1]['y']) + (target - tot)
            heap[-1] = ck.acell(ck.rand_bits(rng, 8 * rootlen), heap[-1]['r'])
            src.append(('payload_%d' % target, heap))
    return src


def emit_record(root, sheap, rootidx, note, o):
    rec = {'op': 'emit', 'note': note, 'opts': o, 'src': sheap, 'root': rootidx}
    try:
        data = bk.emit(root, o)
    except Exception as e:
        rec.update(boc=[], map=[], err=type(e).__name__)
        return rec
    rec['boc'] = list(data)
    if len(sheap) <= 8 and not o['idx'] and not o['crc']:
        rec['rhash'] = list(root.hash)
    try:
        bag, _, starts = bk.scan(data)
        rec['map'] = bk.map_heap_to(sheap, bk.positions_by_content(bag))
        if len(bag) > 300:
            rec['offs'] = [s + 1 for s in starts]
    except Exception:
        rec['map'] = [0] * len(sheap)
    return rec


def generate(tier, seed, ctx):
    rng = random.Random(seed)
    out = []
    for k, (note, heap) in enumerate(sources(tier, seed, ctx)):
        try:
            # (every third source: each builder is used again after its cell was taken - more data, another reference, a second cell)
            # (another third: cells made with the Cell constructor directly from a plain bit array)
            objs = ck.build_heap(heap, 'reuse' if k % 3 == 1 and len(heap) < 300 else 'ctor_plain' if k % 3 == 2 and len(heap) < 300 else 'builder')
        except Exception as e:
            continue      # construction problems are C01/C02's subject
        root = objs[-1]
        sheap, roots, _ = ck.project([root])
        big = len(sheap) > 2000
        for o in bk.OPTION_SETS:
            if big and not (o['idx'] and o['crc']) and rng.random() < 0.6:
                continue
            out.append(emit_record(root, sheap, roots[0], note, o))
    # the same live Cell objects emitted under several roots, inner cells first: every emission must conform on its own
    # (what a cell looked like inside an earlier bag must not leak into a later one)
    from pytoniq_core.boc import Builder, Cell

    def mk(bits, refs):
        b = Builder().store_uint(bits, 9)
        for r in refs:
            b.store_ref(r)
        return b.end_cell()
    k = 0
    for pool in range(6 if tier == 'quick' else 100):
        y, z, q = mk(rng.getrandbits(9), []), mk(rng.getrandbits(9), []), mk(rng.getrandbits(9), [])
        x = mk(rng.getrandbits(9), [y, z])
        p = mk(rng.getrandbits(9), [y])
        cells = [y, z, q, x, p]
        for _ in range(rng.randint(0, 3)):
            cells.append(mk(rng.getrandbits(9), rng.sample(cells, rng.randint(1, 3))))
        # equal cells of different Python classes (the parser builds instances of the class it was called on) are one cell in a bag;
        # and a caller that used the dictionary returned by order() to collect another root has not changed what x serialises to
        class SubCell(Cell):
            pass
        try:
            y2 = SubCell.one_from_boc(y.to_boc())
            x2 = SubCell.one_from_boc(x.to_boc())
        except Exception:
            y2, x2 = y, x
        acc = x.order()
        p.order(acc)
        roots_ = [x, p, mk(1, [p, x]), mk(2, [q, x]), mk(3, [x, p]), mk(5, [q, p, x]), mk(4, [y, y2]), mk(8, [x2, x, y2])]
        roots_ += [mk(6 + j, rng.sample(cells, rng.randint(2, 4))) for j in range(3)]
        for root in roots_:
            sheap, rts, _ = ck.project([root])
            sheap, rts = ck.dedup(sheap, rts)
            k += 1
            out.append(emit_record(root, sheap, rts[0], 'sharedlive', bk.OPTION_SETS[k % 6]))
    return out


def canary(r, rng):
    if not r['boc'] or len(r['boc']) > 3000:
        return None
    k = rng.randrange(6, len(r['boc']))
    r['boc'][k] ^= 1 << rng.randrange(8)
    r['canary'] = 'byte %d' % k
    return r


def nontrivial_key(r):
    return bytes(r['boc']) if len(r['src']) > 1 else None


def extra_coverage(flat, ctx):
    return {'max_cells': max(len(r['src']) for r in flat), 'max_bytes': max(len(r['boc']) for r in flat),
            'notes': sorted({r['note'].split('_')[0] for r in flat})}
