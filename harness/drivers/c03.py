"""C03 driver: to_boc -> parse round trips for every option set, input form and entry point."""
import random

import bockit as bk
import cellkit as ck
from drivers import c04

PROP = 'C03'
TRACE_MODULE = 'C03Trace.tla'
RULE = ('sources as in C04 (TLC-enumerated ordinary+exotic heaps, random shared DAGs, 255/256/257-cell and payload boundaries, '
        'thorough: 65535..65537 cells); each x 6 option sets through Cell.one_from_boc(bytes), and rotating (option set, form in '
        'bytes/hex (lower, upper and mixed case)/base64, entry in Cell.from_boc / Slice.one_from_boc / Builder.one_from_boc); distinct = distinct '
        '(source root hash, options, form, entry)')
ASSUMPTIONS = ['the parsed->source cell map is an untrusted hint verified by TonBoc!IsoVia (content, type and reference lists, recursively)',
               'Builder entry point only for ordinary roots (exotic roots cannot be builders: named deviation)',
               'root_hash_equal is the library\'s own comparison; hash correctness itself is C01/C02']
model_checks = c04.model_checks


def one(root, sheap, sroot, skeys, o, form, entry, note):
    rec = {'op': 'roundtrip', 'note': note, 'opts': o, 'form': form, 'entry': entry, 'src': sheap, 'root': sroot}
    try:
        data = bk.emit(root, o)
        objs = bk.parse_entry(entry, bk.encode_forms(data, form))
        rec['nroots'] = len(objs)
        pheap, proots = bk.project_any(objs[:1])
        rec['parsed'], rec['proot'] = pheap, proots[0]
        rec['map'] = bk.map_heap_to(pheap, skeys)
        p = objs[0]
        if entry in ('cell', 'cells'):
            rec['rhash_eq'] = int(p.hash == root.hash and p == root)
        elif entry == 'slice':
            rec['rhash_eq'] = int(p.to_cell().hash == root.hash)
        else:
            rec['rhash_eq'] = int(p.end_cell().hash == root.hash)
    except Exception as e:
        rec['err'] = type(e).__name__
    return rec


def generate(tier, seed, ctx):
    rng = random.Random(seed)
    out = []
    combos = [(f, e) for f in ('bytes', 'hex', 'b64', 'HEX', 'b64', 'hEx', 'bytes') for e in ('cell', 'cells', 'slice', 'builder')]
    k = 0
    for note, heap in c04.sources(tier, seed, ctx):
        try:
            objs = ck.build_heap(heap, 'builder')
        except Exception:
            continue
        root = objs[-1]
        sheap, roots, _ = ck.project([root])
        sheap, roots = ck.dedup(sheap, roots)     # a DAG is a value: equal cells are one cell
        skeys, _ = bk.keys_of_heap(sheap)
        big = len(sheap) > 2000
        for o in bk.OPTION_SETS:
            if big and rng.random() < 0.66:
                continue
            out.append(one(root, sheap, roots[0], skeys, o, 'bytes', 'cell', note))
        for _ in range(1 if big else 3):
            form, entry = combos[k % len(combos)]
            k += 1
            r = one(root, sheap, roots[0], skeys, bk.OPTION_SETS[k % 6], form, entry, note)
            if entry == 'builder' and root.type_ != -1 and 'err' in r:
                # a special root through the builder entry point: the library refuses (a builder cannot hold one) - unspecified, the
                # slice entry point is used instead; but if it DOES hand a builder back, that builder is the root (recorded above)
                r = one(root, sheap, roots[0], skeys, bk.OPTION_SETS[k % 6], form, 'slice', note)
            out.append(r)
    # the same LIVE cell objects serialised under several roots one after another (a cell's bytes in a bag hold the
    # indexes of its children IN THAT BAG: nothing about an earlier bag may be reused)
    from pytoniq_core.boc import Builder

    def mk(bits, refs):
        b = Builder().store_uint(bits, 9)
        for r in refs:
            b.store_ref(r)
        return b.end_cell()
    for pool in range(6 if tier == 'quick' else 120):
        y, z, q = mk(rng.getrandbits(9), []), mk(rng.getrandbits(9), []), mk(rng.getrandbits(9), [])
        x = mk(rng.getrandbits(9), [y, z])
        p = mk(rng.getrandbits(9), [y])
        cells = [y, z, q, x, p]
        for _ in range(rng.randint(0, 3)):
            cells.append(mk(rng.getrandbits(9), rng.sample(cells, rng.randint(1, 3))))
        roots_ = [mk(1, [p, x]), mk(2, [q, x]), mk(3, [x, p]), mk(4, [x]), mk(5, [q, p, x])]
        roots_ += [mk(6 + j, rng.sample(cells, rng.randint(2, 4))) for j in range(4)]
        rng.shuffle(roots_)
        for root in roots_:
            sheap, rts, _ = ck.project([root])
            sheap, rts = ck.dedup(sheap, rts)
            skeys, _ = bk.keys_of_heap(sheap)
            k += 1
            out.append(one(root, sheap, rts[0], skeys, bk.OPTION_SETS[k % 6], 'bytes', 'cell', 'shared_live_objects'))
    return out


def canary(r, rng):
    if 'err' in r or len(r['parsed']) > 300:
        return None
    c = r['parsed'][rng.randrange(len(r['parsed']))]
    if c['n'] == 0:
        c['n'], c['y'] = 1, [128]
    else:
        c['y'][rng.randrange(len(c['y']))] ^= 0x80
    r['canary'] = 'content'
    return r


def nontrivial_key(r):
    if 'err' in r or len(r['src']) < 2:
        return None
    return (bytes(r['src'][-1]['y']), len(r['src']), tuple(sorted(r['opts'].items())), r['form'], r['entry'])


def extra_coverage(flat, ctx):
    combos = sorted({(r['form'], r['entry']) for r in flat})
    return {'max_cells': max(len(r['src']) for r in flat), 'form_entry_combinations': [list(c) for c in combos],
            'exotic_sources': sum(1 for r in flat if any(c['t'] for c in r['src']))}
