"""C12 driver: real Ed25519 validator sets and signature lists (labels known by construction) through
check_block_signatures."""
import hashlib
import itertools
import random

from nacl.signing import SigningKey

from pytoniq_core.proof.check_proof import check_block_signatures
from pytoniq_core.tl.block import BlockIdExt
from pytoniq_core.tlb.config import SigPubKey, ValidatorDescr

PROP = 'C12'
TRACE_MODULE = 'C12Trace.tla'
RULE = ('every validator set of <= 3 members with weights in 1..3 (quick: a seeded half) x every signature sequence of length <= 3 '
        '(thorough 4, sampled) over {valid_i, invalid_i, other-block_i, foreign, foreign-invalid}; plus weight patterns hitting exactly 2/3 '
        'and random larger sets (up to 12 validators); distinct = distinct (weights, item sequence)')
ASSUMPTIONS = ['signature items are labelled by construction with PyNaCl (valid = signed by that validator over this block id; invalid = one '
               'flipped bit; other = signed over a different block id; approve = signed by the member over another message about this block (other constructor prefix); long = a signature over a longer message ending in this block\'s payload, followed by the extra bytes; short / padded = 63 / 65 bytes; foreign = key outside the set; alias = a valid signature of a member listed under the ADNL address of that member instead of its node id: an unknown signer); the signature list and the validator set are passed as list / tuple / one-shot iterator / generator / dict view', 'validator descriptors are built directly or taken from ValidatorDescr.deserialize (weights up to 2^64 - 1)',
               'a set in which a signer repeats but whose distinct signers already exceed 2/3 may be accepted or rejected (the property allows '
               'either reading of "counted more than once")', 'weights below 2^20 use TLC integers; 64-bit weights are limb vectors compared by TonNat (lemmas in MC_Nat)']
MAGIC_ID = b'\xc6\xb4\x13\x48'
MAGIC_SIGN = b'\x70\x6e\x0b\xc5'


def model_checks(tier):
    q = tier == 'quick'
    base = 'SPECIFICATION Spec\nCONSTANTS MaxV = %d\n MaxW = 3\n MaxLen = %d\n Dedupe = %s\n Strict = %s\n%sCHECK_DEADLOCK FALSE\n'
    inv = 'INVARIANT Refines\nINVARIANT Partition\n'
    return [dict(name='sig_m', module='MC_Sig.tla', workers=16, timeout=1500, heap='12g', cfg=base % (3, 3 if q else 4, 'TRUE', 'TRUE', inv)),
            dict(name='nat_lemmas', module='MC_Nat.tla', workers=4, cfg='INIT Init\nNEXT Next\nCHECK_DEADLOCK FALSE\n'),
            dict(name='sig_neg_nodedupe', module='MC_Sig.tla', workers=4, cfg=base % (2, 3, 'FALSE', 'TRUE', inv), expect_violation='Refines'),
            dict(name='sig_neg_nonstrict', module='MC_Sig.tla', workers=4, cfg=base % (3, 3, 'TRUE', 'FALSE', inv), expect_violation='Refines')]


class World:
    def __init__(self, rng):
        self.rng = rng
        self.keys = [SigningKey(bytes(rng.getrandbits(8) for _ in range(32))) for _ in range(14)]
        self.foreign = SigningKey(bytes(rng.getrandbits(8) for _ in range(32)))
        self.blk = BlockIdExt(-1, None, rng.randint(1, 10 ** 7), bytes(rng.getrandbits(8) for _ in range(32)),
                              bytes(rng.getrandbits(8) for _ in range(32)))
        self.other = BlockIdExt(-1, None, self.blk.seqno, self.blk.root_hash, bytes(rng.getrandbits(8) for _ in range(32)))
        self.tosign = MAGIC_SIGN + self.blk.root_hash + self.blk.file_hash
        self.tosign_other = MAGIC_SIGN + self.other.root_hash + self.other.file_hash

    def node_id(self, key):
        return hashlib.sha256(MAGIC_ID + key.verify_key.encode()).digest()

    def adnl(self, key):
        return hashlib.sha256(b'adnl' + key.verify_key.encode()).digest()

    def item(self, s, k):
        key = self.keys[s - 1] if s else self.foreign
        msg = self.tosign if k != 'other' else self.tosign_other
        if k == 'approve':
            # a genuine member's signature over ANOTHER message about the same block (the ton.blockIdApprove constructor, or any
            # other prefix): not a signature over this block's identifier
            msg = b'IJ\xd4-' + self.blk.root_hash + self.blk.file_hash
        if k == 'prefix':
            msg = self.rng.choice([b'\x2d\xd4\x4a\x49', b'', b'pn\x0b\xc4', b'\xc5\x0b\x6e\x70']) + self.blk.root_hash + self.blk.file_hash
        sig = key.sign(msg).signature
        if k == 'invalid':
            b = bytearray(sig)
            b[self.rng.randrange(64)] ^= 1 << self.rng.randrange(8)
            sig = bytes(b)
        if k == 'long':
            # the validator signed a LONGER message that ends in this block's payload; the signature field carries that signature
            # followed by the extra prefix (more than 64 bytes): not a signature over this block's identifier
            pre = b'I do NOT endorse the following block: '[:self.rng.randint(1, 38)]
            sig = key.sign(pre + self.tosign).signature + pre
        elif k == 'short':
            sig = sig[:63]
        elif k == 'padded':
            sig = sig + bytes([self.rng.getrandbits(8)])
        hx = self.node_id(key).hex()
        if k == 'alias':
            # a genuine signature of a set member, listed under the member's ADNL address instead of its node id
            # (sha256(magic + pubkey) is the only id a validator has): an unknown signer
            hx = self.adnl(key).hex()
        # hex spelling is free: the same node id may arrive in any letter case
        hx = self.rng.choice([hx, hx.upper(), ''.join(c.upper() if self.rng.random() < 0.5 else c for c in hx)])
        return {'node_id_short': hx, 'signature': sig}

    def run(self, weights, items, layout=False, parsed=False, history=False):
        if parsed:
            # the validator descriptors as the library's own parser hands them over (validator#53 / validator_addr#73 cells)
            from pytoniq_core.boc import Builder
            nodes = []
            for j, w in enumerate(weights):
                b = Builder().store_uint(0x73 if j % 2 else 0x53, 8).store_uint(0x8e81278a, 32).store_bytes(self.keys[j].verify_key.encode()).store_uint(w, 64)
                if j % 2:
                    b.store_bytes(self.adnl(self.keys[j]))
                nodes.append(ValidatorDescr.deserialize(b.end_cell().begin_parse()))
        else:
            nodes = [ValidatorDescr('validator', SigPubKey(self.keys[j].verify_key.encode()), w) for j, w in enumerate(weights)]
        rec = {'op': 'sigs', 'weights': list(weights), 'items': [{'s': s, 'k': k} for s, k in items]}
        if any(x >= 1 << 20 for x in weights):
            # 64-bit weights: 4 limbs of 20 bits each, most significant first (TLC integers are 32-bit)
            rec['bigw'] = [[(x >> (20 * (3 - j))) & 0xFFFFF for j in range(4)] for x in weights]
            rec['weights'] = [0] * len(weights)
        try:
            its = [self.item(s, k) for s, k in items]
            if history:
                # earlier calls in the same process: the very same signature items presented for the block they DO sign (the
                # 'other' block), and the valid ones for this block; what was verified before must not matter now
                rec['tags'] = ['after_other_block_checked']
                for blk2, want in ((self.other, 'other'), (self.blk, 'valid')):
                    prior = [it for it, (s, k) in zip(its, items) if k == want and s]
                    try:
                        check_block_signatures(nodes, prior, blk2)
                    except Exception:
                        pass
            # the signature list in any iterable form (list, tuple, one-shot iterator, generator)
            form = self.rng.choice(['list', 'list', 'tuple', 'iter', 'gen'])
            arg = its if form == 'list' else tuple(its) if form == 'tuple' else iter(its) if form == 'iter' else (x for x in its)
            nform = self.rng.choice(['list', 'list', 'tuple', 'iter', 'gen', 'values'])
            narg = nodes if nform == 'list' else tuple(nodes) if nform == 'tuple' else iter(nodes) if nform == 'iter' else \
                (x for x in nodes) if nform == 'gen' else dict(enumerate(nodes)).values()
            check_block_signatures(narg, arg, self.blk)
            rec['out'] = {'ok': 1}
        except Exception as e:
            rec['out'] = {'err': type(e).__name__}
        if layout:
            rec['pubs'] = [list(self.keys[j].verify_key.encode()) for j in range(len(weights))]
            rec['ids'] = [list(self.node_id(self.keys[j])) for j in range(len(weights))]
            rec['tosign'] = list(self.tosign)
            rec['root'] = list(self.blk.root_hash)
            rec['file'] = list(self.blk.file_hash)
        return rec


def generate(tier, seed, ctx):
    rng = random.Random(seed)
    q = tier == 'quick'
    w = World(rng)
    out = []
    maxlen = 3 if q else 4
    for n in range(0, 4):
        for weights in itertools.product((1, 2, 3), repeat=n):
            if q and n == 3 and rng.random() < 0.5:
                continue
            kinds = [(s, k) for s in range(0, n + 1) for k in ('valid', 'invalid', 'other')]
            for L in range(0, maxlen + 1):
                seqs = itertools.product(kinds, repeat=L)
                for items in seqs:
                    p = 1.0 if L <= 2 else (0.12 if q else (0.5 if L == 3 else 0.02))
                    if rng.random() > p:
                        continue
                    out.append(w.run(weights, items, layout=rng.random() < 0.01, history=rng.random() < 0.25))
    # exactly two thirds, just above, just below, with larger sets
    for _ in range(60 if q else 1500):
        n = rng.randint(1, 12)
        weights = [rng.choice([1, 2, 3, 10, 100, 1000, 99999]) for _ in range(n)]
        total = sum(weights)
        signers = [j + 1 for j in range(n) if rng.random() < 0.7]
        rng.shuffle(signers)
        items = [(s, 'valid') for s in signers]
        mode = rng.random()
        if mode < 0.2 and items:
            items.insert(rng.randrange(len(items) + 1), (rng.choice(signers), 'valid'))      # duplicate
        elif mode < 0.3:
            items.insert(rng.randrange(len(items) + 1), (0, 'valid'))                          # foreign
        elif mode < 0.5 and items:
            j = rng.randrange(len(items))
            items[j] = (items[j][0], rng.choice(['invalid', 'other', 'long', 'short', 'padded', 'long', 'approve', 'prefix']))
        out.append(w.run(weights, items, layout=rng.random() < 0.05))
    # main-net scale weights (total around 2^60) within a few units of exactly two thirds: 3 * signed - 2 * total = target
    for _ in range(40 if q else 800):
        n = rng.randint(2, 8)
        weights = [rng.randint(1 << 55, 1 << 58) for _ in range(n)]
        signers = [j + 1 for j in range(n) if rng.random() < 0.7] or [1]
        target = rng.choice([-200, -129, -3, -2, -1, 0, 1, 2, 3, 127, 129, 200, rng.randint(-5000, 5000)])
        for _try in range(4):
            t, sg = sum(weights), sum(weights[j - 1] for j in signers)
            d = target - (3 * sg - 2 * t)
            weights[signers[0] - 1] += d                         # a signer's weight moves the balance one for one
            if weights[signers[0] - 1] > 0:
                break
            weights[signers[0] - 1] = rng.randint(1 << 59, 1 << 60)
        if min(weights) <= 0 or 3 * sum(weights[j - 1] for j in signers) - 2 * sum(weights) != target:
            continue
        rng.shuffle(signers)
        out.append(w.run(weights, [(s, 'valid') for s in signers], layout=False, parsed=rng.random() < 0.5))
    # weights in the upper half of uint64 (sign bit of a 64-bit word set), descriptors taken from the parser
    for _ in range(30 if q else 400):
        n = rng.randint(1, 6)
        weights = [rng.choice([1 << 63, (1 << 64) - 1, rng.randint(1 << 63, (1 << 64) - 1), rng.randint(1, 1 << 62), 1 << 59]) for _ in range(n)]
        signers = [j + 1 for j in range(n) if rng.random() < 0.6]
        rng.shuffle(signers)
        out.append(w.run(weights, [(s, 'valid') for s in signers], parsed=True))
    # a bare two-thirds minority completed by a signature over a longer message (every small shape)
    for weights, good, bad in (([1, 1, 1], [1, 2], 3), ([2, 1], [1], 2), ([5, 5, 5, 1], [1, 2], 3), ([1], [], 1)):
        for k in ('long', 'short', 'padded'):
            out.append(w.run(weights, [(s, 'valid') for s in good] + [(bad, k)]))
            out.append(w.run(weights, [(bad, k)] + [(s, 'valid') for s in good], parsed=True))
    # sets made only of approve-style signatures, and a minority topped up by one
    for weights, good, bad in (([1, 1, 1], [], [1, 2, 3]), ([1, 1, 1], [1, 2], [3]), ([2, 1], [], [1, 2]), ([5], [], [1]), ([3, 3, 3, 1], [1, 2], [3])):
        out.append(w.run(weights, [(s_, 'valid') for s_ in good] + [(s_, 'approve') for s_ in bad]))
        out.append(w.run(weights, [(s_, 'approve') for s_ in bad] + [(s_, 'valid') for s_ in good], parsed=True))
        out.append(w.run(weights, [(s_, 'valid') for s_ in good] + [(s_, 'prefix') for s_ in bad]))
    # total weights beyond 2^64 (each weight a legal uint64): unanimous and near-unanimous sets
    for weights in ([1 << 63] * 3, [(1 << 64) - 1, (1 << 64) - 1, 1], [(1 << 64) - 1] * 6, [1 << 63, 1 << 63]):
        n = len(weights)
        out.append(w.run(weights, [(j + 1, 'valid') for j in range(n)], parsed=True))
        out.append(w.run(weights, [(j + 1, 'valid') for j in range(n)][::-1]))
        out.append(w.run(weights, [(j + 1, 'valid') for j in range(n - 1)], parsed=True))
    # a member's signature listed under its ADNL address (descriptors of the validator_addr#73 form carry one): every small shape,
    # alone and next to the same member's properly listed signature
    for weights in ([2, 1, 1], [1, 2], [1, 3, 1], [5, 5]):
        for j in range(1, len(weights) + 1):
            out.append(w.run(weights, [(j, 'alias')], parsed=True))
            out.append(w.run(weights, [(j, 'valid'), (j, 'alias')], parsed=True))
            out.append(w.run(weights, [(j, 'alias'), (j, 'valid')] + [(x, 'valid') for x in range(1, len(weights) + 1) if x != j], parsed=True))
    for weights, signers in (([1, 1, 1], [1, 2]), ([2, 1], [1]), ([3, 3, 3], [1, 2]), ([1, 1, 1], [1, 2, 3]), ([2, 2, 2], [1, 2, 2]),
                             ([1, 2], [2, 2]), ([4, 1, 1], [1]), ([4, 1, 1], [1, 1]), ([], []), ([5], []), ([5], [1]), ([1, 1, 1], [1, 1, 1])):
        out.append(w.run(weights, [(s, 'valid') for s in signers], layout=True))
    return out


def canary(r, rng):
    r['out'] = {'ok': 1} if 'err' in r['out'] else {'err': 'Canary'}
    # only a canary if the spec has an opinion on this record
    if 'bigw' in r:
        r['canary'] = 'flipped outcome'
        return r
    ws, it = r['weights'], r['items']
    good = all(i['s'] and i['k'] == 'valid' for i in it)
    distinct = len({i['s'] for i in it}) == len(it)
    sw = sum(ws[s - 1] for s in {i['s'] for i in it if i['s']})
    if good and not distinct and 3 * sw > 2 * sum(ws):
        return None
    r['canary'] = 'flipped outcome'
    return r


def nontrivial_key(r):
    return (tuple(r['weights']), tuple((i['s'], i['k']) for i in r['items'])) if r['items'] else None


def extra_coverage(flat, ctx):
    return {'accepted': sum(1 for r in flat if 'ok' in r['out']), 'rejected': sum(1 for r in flat if 'err' in r['out']),
            'with_duplicates': sum(1 for r in flat if len({i['s'] for i in r['items']}) < len(r['items'])),
            'layout_checked': sum(1 for r in flat if 'pubs' in r)}
