"""C10 driver: label-kind table through the public serialiser, canonical tree structure, and the plain/augmented
parsers on every valid tree TLC enumerates (all label policies, prunings)."""
import random

from bitarray import bitarray

import cellkit as ck
import hmkit as hk
import hmobjkit
from drivers import c09
from pytoniq_core.boc import Builder, Cell, Slice
from pytoniq_core.boc.hashmap.hashmap import HashMap
from pytoniq_core.boc.hashmap.parse import parse_hashmap, parse_hashmap_aug
from vlib import big, bitstr, bitstr_of_list

PROP = 'C10'
TRACE_MODULE = 'C10Trace.tla'
RULE = ('(1) label kinds: the root label of HashMap.serialize() for (label length n, key width m, same-bit or not): every pair n <= m '
        'for m <= 40 (quick) / 200 (thorough) and the decision boundaries for m up to 1023; (2) canonical structure of the cells for '
        'every key set of width 3 (4 thorough) and random wide sets, root hash recomputed by TLC on a sample; (3) parse_hashmap / '
        'parse_hashmap_aug on every tree TLC builds for every key set x 7 label policies x {plain, augmented}, and on random prunings '
        'of them; distinct = distinct (kind triple) + distinct trees')
ASSUMPTIONS = ['RefKind is a transcription of crypto/vm/dict.cpp append_dict_label(_same); model-checked equal to "shortest, ties short<long<same" for all triples',
               'label kind is read from the first bits of the emitted root cell (public API only)',
               'pruned branches replacing subtrees carry the library\'s hash of the subtree (input construction)',
               'triples whose label cannot fit a 1023-bit cell are not storable and are skipped']


def _model_checks(tier):
    q = tier == 'quick'
    return [dict(name='hm3_g', module='MC_Hashmap.tla', gen=True, workers=4, cfg=hk.hm_cfg(3, range(8), 8, 'TRUE', invs=False)),
            dict(name='hm16_g', module='MC_Hashmap.tla', gen=True, workers=4,
                 cfg=hk.hm_cfg(16, [0, 1, 255, 256, 32768, 65535] if q else [0, 1, 2, 255, 256, 4660, 32768, 65535], 8, 'TRUE', invs=False)),
            dict(name='hm_m', module='MC_Hashmap.tla', workers=8, timeout=1500, cfg=hk.hm_cfg(3, range(8), 128 if q else 1023, 'FALSE')),
            dict(name='hm16_m', module='MC_Hashmap.tla', workers=8, timeout=1500, cfg=hk.hm_cfg(16, [0, 1, 255, 256, 32768, 65535], 8, 'FALSE'))] + \
        ([] if q else [dict(name='hm4_m', module='MC_Hashmap.tla', workers=16, timeout=2400, cfg=hk.hm_cfg(4, range(16), 8, 'FALSE'))])


def model_checks(tier):
    import os
    return _model_checks(tier) + hmobjkit.model_checks(tier, int(os.environ.get('VERIF_SEED', '0') or 0))


def extra_generate(tier, seed, ctx, first_id):
    # HashMap OBJECT histories (TLC-simulated behaviours of MC_HmObj + seeded random walks), validated against TonHmObj
    return [('HmObjTrace.tla', hmobjkit.generate(tier, seed, ctx, first_id), hmobjkit.make_canaries)]


def root_kind(n, m, same):
    """label kind the serialiser picks for a root label of length n at key width m, or None if not constructible"""
    if same:
        p = [1] * n if (n + m) % 2 else [0] * n
    else:
        if n < 2:
            return None
        p = [(i % 2) for i in range(n)]
        if (n + m) % 3 == 0:
            p = [1 - b for b in p]
    if n == m:
        keys = [p]
    else:
        rest = m - n - 1
        keys = [p + [0] + [0] * rest, p + [1] + [1] * rest]
    hm = HashMap(m).with_uint_values(1)
    for k in keys:
        hm.set_int_key(hk.bits_to_int(k), 1)
    try:
        c = hm.serialize()
    except Exception:
        return None
    b = c.bits
    if b[0] == 0:
        return 'short'
    return 'long' if b[1] == 0 else 'same'


def kind_rows(m, full):
    k = m.bit_length()
    if full:
        ns = range(0, m + 1)
    else:
        cand = {0, 1, 2, 3, k - 1, k, k + 1, k + 2, (k + 1) // 2 - 1, (k + 1) // 2, (k + 1) // 2 + 1, (k + 1) // 2 + 2, m - 1, m, m // 2}
        ns = sorted(x for x in cand if 0 <= x <= m)
    rows = []
    for n in ns:
        for same in (0, 1):
            if same and n == 0:
                continue
            kd = root_kind(n, m, bool(same))
            if kd is not None:
                rows.append([n, same, kd])
    return rows


def with_extra_refs(cell, tag=[0]):
    """the same augmented tree whose extras each own a reference (Y = bits + ^Cell, like a CurrencyCollection with other currencies):
    every node gets one more reference after its children"""
    tag[0] += 1
    b = Builder().store_bits(cell.bits)
    for r in cell.refs:
        b.store_ref(with_extra_refs(r) if r.type_ == -1 else r)
    b.store_ref(Builder().store_uint(tag[0] % 251, 8).end_cell())
    return b.end_cell()


def parse_tree_record(rng, case, cell, note, prune=False, extra_refs=False):
    w, aug, xw = case['w'], case['aug'], case['xw'] if case['aug'] else 0
    if extra_refs:
        cell = with_extra_refs(cell)
    if prune:
        cell = prune_random(rng, cell)
        if cell is None:
            return None
    heap, roots, _ = ck.project([cell])
    rec = {'op': 'parse_tree', 'w': w, 'xw': xw, 'pol': case['pol'] + ('_pruned' if prune else ''), 'note': note, 'cell': heap, 'root': roots[0]}
    # an inline Hashmap field: the root edge sits in a cell after other fields, some of them references that have been read already
    # (foo$_ meta:^Cell tag:uint8 items:(Hashmap n X)): the parser is handed the partly consumed slice
    embed = None
    if cell.type_ == -1 and rng.random() < 0.5:
        nb, nr = rng.choice([0, 1, 8]), rng.randint(0 if rng.random() < 0.2 else 1, 2)
        if len(cell.bits) + nb <= 1023 and len(cell.refs) + nr <= 4:
            b = Builder().store_bits(bitarray([1, 0, 1, 1, 0, 0, 1, 0][:nb]))
            for j in range(nr):
                b.store_ref(Builder().store_uint(0xA0 + j, 8).end_cell())
            b.store_bits(cell.bits)
            for r in cell.refs:
                b.store_ref(r)
            outer = b.end_cell()

            def embed():
                sl = outer.begin_parse()
                sl.load_bits(nb)
                for _ in range(nr):
                    sl.load_ref()
                return sl
            rec['embedded'] = [nb, nr]
    start = embed if embed is not None else cell.begin_parse
    try:
        if aug:
            f = rng.choice(['parse_hashmap_aug', 'load_hashmap_aug'])
            xd = lambda s: s.load_bits(len(s.bits))
            yd = (lambda s: (s.load_bits(xw), s.load_ref())[0]) if extra_refs else (lambda s: s.load_bits(xw))
            if f == 'parse_hashmap_aug':
                d, extras = parse_hashmap_aug(start(), w, xd, yd)
            else:
                d, extras = start().load_hashmap_aug(w, xd, yd)
            rec['out'] = {'pairs': [[big(k), bitstr(v)] for k, v in d.items()], 'extras': [bitstr(e) for e in extras]}
        else:
            f = rng.choice(['parse_hashmap', 'HashMap.parse', 'from_cell', 'load_hashmap'])
            if f == 'from_cell' and embed is not None:
                f = 'load_hashmap'
            if f == 'parse_hashmap':
                d = {int(k, 2): v for k, v in parse_hashmap(start(), w).items()}
            elif f == 'HashMap.parse':
                d = HashMap.parse(start(), w)
            elif f == 'load_hashmap':
                d = start().load_hashmap(w)
            else:
                d = HashMap.from_cell(cell, w).map
            rec['out'] = {'pairs': [[big(k), bitstr(v.bits)] for k, v in d.items()], 'extras': []}
        rec['via'] = f
    except Exception as e:
        rec['out'] = {'err': type(e).__name__}
    return rec


def prune_random(rng, cell):
    """replace one or more non-root edges by pruned branches"""
    edges = []

    def walk(c):
        for r in c.refs:
            edges.append(r)
            walk(r)
    walk(cell)
    if not edges:
        return None
    victims = set(id(e) for e in rng.sample(edges, rng.randint(1, min(2, len(edges)))))

    def rebuild(c):
        if id(c) in victims:
            y = bytes([1, 1]) + c.hash + c.get_depth(0).to_bytes(2, 'big')
            b = Builder(type_=1)
            b.store_bytes(y)
            return b.end_cell()
        b = Builder().store_bits(c.bits)
        for r in c.refs:
            b.store_ref(rebuild(r))
        return b.end_cell()
    return rebuild(cell)


def generate(tier, seed, ctx):
    rng = random.Random(seed)
    q = tier == 'quick'
    out = []
    # (1) label kinds
    full_to = 40 if q else 200
    for m in range(1, 1024):
        full = m <= full_to
        if not full and q and m not in (41, 63, 64, 65, 100, 127, 128, 129, 255, 256, 257, 511, 512, 513, 1000, 1022, 1023) and rng.random() > 0.06:
            continue
        rows = kind_rows(m, full)
        if rows:
            out.append({'op': 'kinds', 'm': m, 'rows': rows})
    # (2)+(3) from TLC-enumerated trees
    cases = [(name, c) for name in ('hm3_g', 'hm16_g') for c in ctx['mc'].get(name, [])]
    for name, case in cases:
        w = case['w']
        if case['pol'] == 'canon' and not case['aug']:
            items = [(hk.bits_to_int(e['k']), big(hk.bits_to_int(e['k'])), hk.bits_to_int(e['v'])) for e in case['vals']]
            out.append(c09.dict_record(rng, w, 'int', items, 8, norders=2, with_hash=rng.random() < (0.15 if q else 0.5)))
        cell = hk.tree_to_cell(case['tree'])
        out.append(parse_tree_record(rng, case, cell, name))
        if rng.random() < (0.25 if q else 0.8):
            r = parse_tree_record(rng, case, cell, name, prune=True)
            if r:
                out.append(r)
        if case['aug'] and rng.random() < (0.3 if q else 0.8):
            for pr in (False, True):
                r = parse_tree_record(rng, case, cell, name + '_extras_with_refs', prune=pr, extra_refs=True)
                if r:
                    out.append(r)
    # HashmapAugE: the dictionary root hangs off a HOLDER cell (ahme_root$1 root:^... extra:Y).  When a proof prunes the holder itself
    # nothing at all is known about the dictionary: whatever the entry point hands back, it is not "a dictionary" (let alone an empty one)
    augs = [c for _, c in cases if c['aug']]
    for case in rng.sample(augs, min(len(augs), 12 if q else 200)):
        w, xw = case['w'], case['xw']
        root = hk.tree_to_cell(case['tree'])
        holder = Builder().store_bit(1).store_ref(root).store_bits(bitarray([1, 0, 1, 1, 0, 1, 0, 0, 1][:xw])).end_cell()
        y = bytes([1, 1]) + holder.hash + holder.get_depth(0).to_bytes(2, 'big')
        pb = Builder(type_=1)
        pb.store_bytes(y)
        rec = {'op': 'aug_e_holder_pruned', 'w': w, 'xw': xw}
        try:
            res = pb.end_cell().begin_parse().load_hashmap_aug_e(w, lambda sl: sl.load_bits(len(sl.bits)), lambda sl: sl.load_bits(xw))
            rec['out'] = {'kind': 'dictionary' if isinstance(res, (tuple, dict)) else type(res).__name__}
        except Exception as e:
            rec['out'] = {'kind': 'error'}
        out.append(rec)
    # random wide canonical maps
    for rep in range(2 if q else 30):
        for w in (8, 32, 64, 256, 267, 600):
            for ks in c09.key_sets(rng, w, tier):
                items = [(k, big(k), rng.getrandbits(16)) for k in ks]
                out.append(c09.dict_record(rng, w, 'int', items, 16, norders=1, with_hash=rng.random() < 0.2))
    return [r for r in out if r]


def canary(r, rng):
    if r['op'] == 'kinds' and r['rows']:
        row = rng.choice(r['rows'])
        row[2] = {'short': 'long', 'long': 'same', 'same': 'short'}[row[2]]
        r['canary'] = 'kind'
        return r
    if r['op'] == 'parse_tree' and 'pairs' in r['out'] and r['out']['pairs'] and len(r['cell']) < 60:
        pr = r['out']['pairs'][rng.randrange(len(r['out']['pairs']))]
        if pr[1]['y']:
            pr[1]['y'][0] ^= 0x80
            r['canary'] = 'leaf value'
            return r
    return None


def nontrivial_key(r):
    if r['op'] in ('hmcall', 'reset'):
        c = r.get('call')
        return None if c is None or c['op'] not in ('ser', 'parse') else ('hm', repr(r['post']), c['op'], c.get('via'))
    if r['op'] == 'aug_e_holder_pruned':
        return None
    if r['op'] == 'kinds':
        return ('kinds', r['m'])
    if r['op'] == 'parse_tree':
        return ('tree', r['w'], r['pol'], r['xw'], repr(r['cell']))
    if r['op'] == 'dict' and len(r['items']) > 1:
        return ('dict', r['w'], repr(sorted(repr(i['key']) for i in r['items'])))
    return None


def extra_coverage(flat, ctx):
    triples = sum(len(r['rows']) for r in flat if r['op'] == 'kinds')
    kinds = {}
    for r in flat:
        if r['op'] == 'kinds':
            for row in r['rows']:
                kinds[row[2]] = kinds.get(row[2], 0) + 1
    return {'kind_triples_checked': triples, 'kinds_seen': kinds,
            'trees_parsed': sum(1 for r in flat if r['op'] == 'parse_tree'),
            'pruned_trees_parsed': sum(1 for r in flat if r['op'] == 'parse_tree' and r['pol'].endswith('_pruned')),
            'parser_errors': sum(1 for r in flat if r['op'] == 'parse_tree' and 'err' in r['out']),
            'object_history_calls': sum(1 for r in flat if r['op'] == 'hmcall')}
