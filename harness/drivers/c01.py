"""C01 driver: ordinary cells built through every route; hashes/depths recorded for TLC."""
import random

import cellkit as ck
from pytoniq_core.boc import Cell
from vlib import user_stack

PROP = 'C01'
TRACE_MODULE = 'C01Trace.tla'
RULE = ('G: every heap of the CellDag machine within the cfg constants (TLC-enumerated, each replayed through the routes '
        'builder/ctor/boc/copy/slice/tobuilder/reuse = builder used again after end_cell/slice_part = partly read slice converted back to a cell/slice_from_cell); random: every data length 0..1023 at least once, random shared DAGs, a '
        'depth-1023 chain; distinct = distinct (route, cell content, child hashes) observations counted by reported hash+route')
ASSUMPTIONS = ['TonSha.Sha256 anchored on FIPS vectors (ShaVectorsOk)', 'TonCell transcription of TVM 3.1.4-3.1.5',
               'record content (bits/refs/type) is read from the live objects through the public attributes']
ROUTES = ['builder', 'ctor', 'boc', 'copy', 'slice', 'tobuilder', 'reuse', 'slice_part', 'slice_from_cell', 'ctor_plain', 'ctor_plain_le']


def dag_cfg(maxcells, bitlens, maxrefs, exotics='{}', maxlvl=1, symbolic='FALSE', emit='TRUE', invs=True):
    s = ('SPECIFICATION Spec\nCONSTANTS MaxCells = %d\n BitLens = {%s}\n MaxRefsGen = %d\n Exotics = %s\n MaxLvl = %d\n'
         ' Symbolic = %s\n Emit = %s\n' % (maxcells, ', '.join(map(str, bitlens)), maxrefs, exotics, maxlvl, symbolic, emit))
    if invs:
        s += ''.join('INVARIANT %s\n' % x for x in ['AllValid', 'HashEqIffUnfoldEq', 'DepthDef', 'LevelsFlat', 'MaskLaws'])
    if emit == 'TRUE':
        s += 'INVARIANT Export\n'
    return s + 'CHECK_DEADLOCK FALSE\n'


def model_checks(tier):
    # G runs only export heaps (no hashing); the invariants run with the symbolic hash on larger bounds and with
    # real SHA-256 on a small alphabet
    if tier == 'quick':
        return [dict(name='dag_g', module='MC_CellDag.tla', gen=True, workers=1,
                     cfg=dag_cfg(2, [0, 1, 7, 8, 9, 1023], 4, invs=False)),
                dict(name='dag_sha2', module='MC_CellDag.tla', workers=8,
                     cfg=dag_cfg(2, [0, 1, 9], 2, emit='FALSE')),
                dict(name='dag_sym3', module='MC_CellDag.tla', workers=8,
                     cfg=dag_cfg(3, [0, 1, 9], 3, symbolic='TRUE', emit='FALSE'))]
    return [dict(name='dag_g', module='MC_CellDag.tla', gen=True, workers=1,
                 cfg=dag_cfg(3, [0, 7, 8, 1023], 3, invs=False)),
            dict(name='dag_g2', module='MC_CellDag.tla', gen=True, workers=1,
                 cfg=dag_cfg(2, [0, 1, 7, 8, 9, 15, 16, 17, 1016, 1022, 1023], 4, invs=False)),
            dict(name='dag_sha3', module='MC_CellDag.tla', workers=16, timeout=1500,
                 cfg=dag_cfg(3, [0, 1, 9], 2, emit='FALSE')),
            dict(name='dag_sym4', module='MC_CellDag.tla', workers=16, timeout=1500,
                 cfg=dag_cfg(4, [0, 9], 2, symbolic='TRUE', emit='FALSE'))]


def via_route(heap, route, rng):
    """-> record dict (without i)"""
    rec = {'op': 'cells', 'route': route, 'pairs': [], 'twins': []}
    groups = []
    base = route if route in ('ctor', 'reuse', 'ctor_plain', 'ctor_plain_le') else 'builder'
    try:
        objs = ck.build_heap(heap, base)
        if route == 'boc':
            roots = [o for k, o in enumerate(objs) if not any((k + 1) in c['r'] for c in heap)]
            parsed = [Cell.one_from_boc(r.to_boc()) for r in roots]
            _, _, objs = ck.project(parsed)
        elif route in ('boc_wh', 'boc_wh_wrong'):
            # a foreign bag that stores hashes and depths next to the cells - the right ones, or (boc_wh_wrong) with one stored value
            # altered: the parser may refuse that bag, but a cell it returns must report the hash of its content
            import bockit as bk
            roots = [o for k, o in enumerate(objs) if not any((k + 1) in c['r'] for c in heap)]
            try:
                parsed = [Cell.one_from_boc(bk.emit_with_hashes(r, 'all', corrupt=rng if route == 'boc_wh_wrong' else None)) for r in roots]
            except Exception:
                if route == 'boc_wh_wrong':
                    return None
                raise
            _, _, objs = ck.project(parsed)
        elif route == 'copy':
            with user_stack():
                objs = [o.copy() for o in objs]
        elif route == 'slice':
            with user_stack():
                objs = [o.begin_parse().to_cell() for o in objs]
        elif route == 'tobuilder':
            with user_stack():
                objs = [o.to_builder().end_cell() for o in objs]
        elif route == 'slice_from_cell':
            from pytoniq_core.boc import Slice
            objs = [Slice.from_cell(o).to_cell() for o in objs] + [Slice.from_cell(o).copy().to_cell() for o in objs]
        elif route == 'slice_part':
            # a slice that has been read in part, converted back: the new cell holds the REMAINING bits and references and must
            # report the hash of exactly that content (references read without any bit, bits read without any reference, both)
            derived = []
            for o in objs:
                nb, nr = len(o.bits), len(o.refs)
                plans = {(0, j) for j in range(1, nr + 1)} | {(k, 0) for k in (1, nb // 2, nb) if 0 < k <= nb}
                if nb and nr:
                    plans.add((rng.randint(1, nb), rng.randint(1, nr)))
                for kb, kr in sorted(plans):
                    s = o.begin_parse()
                    # references first (nothing consumed from the data yet), then bits
                    for _ in range(kr):
                        s.load_ref()
                    if kb:
                        s.load_bits(kb)
                    derived.append(s.to_cell())
                    # ... and through a builder (Slice.to_builder / Builder.store_slice), also when every reference has been read:
                    # three conversions of ONE slice state are one cell
                    try:
                        from pytoniq_core.boc import Builder
                        g = [len(derived) - 1]
                        derived.append(s.to_builder().end_cell())
                        g.append(len(derived) - 1)
                        derived.append(Builder().store_slice(s).end_cell())
                        g.append(len(derived) - 1)
                        groups.append(g)
                    except Exception:
                        pass
                    if kr and kb:
                        s2 = o.begin_parse()
                        s2.skip_bits(kb)
                        for _ in range(kr):
                            s2.load_ref()
                        derived.append(s2.copy().to_cell())
            objs = derived or objs
    except Exception as e:
        rec['err'] = type(e).__name__
        rec['cells'] = heap
        return rec
    # content as reported by the live objects; identity of children by object
    if route in ('copy', 'slice', 'tobuilder', 'slice_part', 'slice_from_cell'):
        # children are the ORIGINAL objects: project each derived cell together with what it references
        ph, roots, pobjs = ck.project(objs)
        if groups and len(roots) == len(objs):
            rec['agree'] = [[roots[j] for j in g] for g in groups]
        objs = pobjs
        heap2 = ph
    else:
        heap2, _, objs = ck.project(objs)
    cells = []
    for a, o in zip(heap2, objs):
        a = dict(a)
        a.update(ck.observe(o))
        cells.append(a)
    rec['cells'] = cells
    rec['pairs'] = ck.pairs_of(objs, rng)
    return rec


def generate(tier, seed, ctx):
    rng = random.Random(seed)
    out = []
    gheaps = [h for name in sorted(ctx['mc']) for h in ctx['mc'][name]]
    for h in gheaps:
        for route in ROUTES:
            out.append(via_route(h, route, rng))
    # every data length 0..1023, grouped into DAGs of 8 with random sharing
    reps = 1 if tier == 'quick' else 6
    for rep in range(reps):
        lens = list(range(1024))
        rng.shuffle(lens)
        for g in range(0, 1024, 8):
            chunk = lens[g:g + 8]
            heap = ck.rand_heap(rng, 8, lambda k: chunk[k])
            out.append(via_route(heap, rng.choice(ROUTES), rng))
    # random shared DAGs of 5..40 cells
    for _ in range(12 if tier == 'quick' else 150):
        heap = ck.rand_heap(rng, rng.randint(5, 40), [0, 1, 2, 7, 8, 9, 31, 32, 33, 255, 256, 257, 511, 1016, 1022, 1023])
        out.append(via_route(heap, rng.choice(ROUTES), rng))
    # bags with stored hashes (right and wrong ones)
    for _ in range(30 if tier == 'quick' else 400):
        heap = ck.rand_heap(rng, rng.randint(1, 6), [0, 1, 8, 9, 256, 1023])
        out.append(via_route(heap, rng.choice(['boc_wh', 'boc_wh_wrong', 'boc_wh_wrong']), rng))
    # cells whose hashes agree on a 32-bit window (first / last / inner four bytes): equality and dictionary keys are decided by
    # the WHOLE hash.  Candidates are found by hashing 32-bit leaves with hashlib (input construction; TLC re-derives every hash)
    import hashlib
    seen = [dict() for _ in range(4)]
    wins = [(0, 4), (28, 32), (4, 8), (14, 18)]
    found = []
    base = rng.getrandbits(31)
    for v in range(base, base + (150000 if tier == 'quick' else 600000)):
        v &= 0xFFFFFFFF
        h = hashlib.sha256(b'\x00\x08' + v.to_bytes(4, 'big')).digest()
        for k, (a, b) in enumerate(wins):
            w = h[a:b]
            if w in seen[k]:
                found.append((seen[k][w], v))
            else:
                seen[k][w] = v
    for a, b in found[:(12 if tier == 'quick' else 60)]:
        bits = lambda x: [(x >> (31 - i)) & 1 for i in range(32)]
        heap = [ck.acell(bits(a), []), ck.acell(bits(b), []), ck.acell([1, 0, 1], [1, 2])]
        for route in ('builder', 'boc', 'copy'):
            out.append(via_route(heap, route, rng))
    # a chain of depth exactly 1023 (the deepest valid cell), two references to the same child on the way
    chain = [ck.acell([1], [])]
    for k in range(1, 1024):
        chain.append(ck.acell(ck.rand_bits(rng, rng.choice([0, 3, 8])), [k] if k % 5 else [k, k]))
    out.append(via_route(chain, 'builder', rng))
    # ... copied, converted from a slice and through a builder, under the interpreter's DEFAULT recursion limit (the last cells of
    # the chain are what the conversions touch; a conversion that walks the whole tree recursively cannot finish at this depth)
    for route in ('copy', 'slice', 'tobuilder'):
        out.append(via_route(chain[:], route, rng))
    if tier == 'thorough':
        out.append(via_route(chain, 'boc', rng))
    return [r for r in out if r is not None]


def canary(r, rng):
    if 'err' in r or not r['cells']:
        return None
    k = rng.randrange(len(r['cells']))
    c = r['cells'][k]
    f = rng.choice(['hash', 'ld', 'lh'])
    if f == 'hash':
        c['hash'][rng.randrange(32)] ^= 1 << rng.randrange(8)
    elif f == 'ld':
        c['ld'][0] += 1
    else:
        c['lh'][rng.randrange(1, 4)][rng.randrange(32)] ^= 4
    r['canary'] = f
    # keep canary traces small: only possible when the cell has no dependents we drop
    return r if len(r['cells']) <= 60 else None


def nontrivial_key(r):
    if 'err' in r:
        return None
    return (r['route'], bytes(r['cells'][-1]['hash']))


def extra_coverage(flat, ctx):
    lens = set()
    for r in flat:
        for c in r['cells']:
            lens.add(c['n'])
    return {'distinct_bit_lengths': len(lens), 'routes': ROUTES,
            'cells_observed': sum(len(r['cells']) for r in flat),
            'construction_errors': sum(1 for r in flat if 'err' in r)}
