"""C20 driver: two-peer ADNL channels, signing helper, mnemonics."""
import hashlib
import random

from Cryptodome.Cipher import AES
from nacl.bindings import crypto_scalarmult
from nacl.signing import SigningKey, VerifyKey

from pytoniq_core.crypto import keys as K
from pytoniq_core.crypto.ciphers import AdnlChannel, Client, Server
from pytoniq_core.crypto.signature import sign_message, verify_sign

PROP = 'C20'
TRACE_MODULE = 'C20Trace.tla'
RULE = ('channels: seeded key pairs, both orderings of the ids and equal ids (self-channel and forced equal ids), plaintext lengths '
        '{0, 1, 15, 16, 17, 64, 1000, 65537}; sequences of 2-6 packets on one channel pair, every packet held until the end; signatures: genuine + altered message / key / signature; mnemonics from mnemonic_new (defaults, explicit count, with a password); distinct = '
        'distinct (key pair, plaintext) channels + signature cases')
ASSUMPTIONS = ['X25519, Ed25519, AES-CTR, PBKDF2 are not specified in TLA+: the shared secret is recomputed with nacl.bindings.crypto_scalarmult, '
               'the reference ciphertext with Cryptodome AES-CTR under the key/iv that TLC checks against the spec layout',
               'SHA-256 (key ids, checksums) is computed by TLC', 'symmetry for every id ordering is model-checked in MC_Adnl with symbolic DH/AES']


def model_checks(tier):
    cfg = ('SPECIFICATION Spec\nCONSTANTS Ids = {1, 2, 3}\n Secrets = {11, 12%s}\n Plains = {100, 101}\nINVARIANT Symmetric\nINVARIANT Delivered\n'
           'CHECK_DEADLOCK FALSE\n' % ('' if tier == 'quick' else ', 13'))
    return [dict(name='adnl_m', module='MC_Adnl.tla', workers=8, cfg=cfg)]


def chan_record(rng, sa, sb, plain, ids=None):
    ca, cb = Client(sa), Client(sb)
    pa, pb = ca.ed25519_public.encode(), cb.ed25519_public.encode()
    ida = hashlib.sha256(b'\xc6\xb4\x13\x48' + pa).digest() if ids is None else ids[0]
    idb = hashlib.sha256(b'\xc6\xb4\x13\x48' + pb).digest() if ids is None else ids[1]
    A = AdnlChannel(ca, Server('h', 1, pb), ida, idb)
    B = AdnlChannel(cb, Server('h', 1, pa), idb, ida)
    shared = crypto_scalarmult(SigningKey(sa).to_curve25519_private_key().encode(), VerifyKey(pb).to_curve25519_public_key().encode())
    rec = {'op': 'chan', 'ida': list(ida), 'idb': list(idb), 'shared': list(shared), 'plain': list(plain)}
    for nm, ch in (('A', A), ('B', B)):
        rec[nm] = {'enc': list(ch.enc_key), 'dec': list(ch.dec_key), 'ckid': list(ch.client_aes_key_id), 'skid': list(ch.server_aes_key_id)}
    pab, pba = A.encrypt(plain), B.encrypt(plain)
    rec['pab'], rec['pba'] = list(pab), list(pba)
    rec['decb'] = list(B.decrypt(pab[64:], pab[32:64]))
    rec['deca'] = list(A.decrypt(pba[64:], pba[32:64]))
    # reference ciphertext under the key/iv layout (TLC checks key/iv against the spec)
    sm = hashlib.sha256(plain).digest()
    enc = shared if ida > idb else (shared[::-1] if ida < idb else shared)
    key, iv = enc[:16] + sm[16:32], sm[:4] + enc[20:32]
    rec['key_ab'], rec['iv_ab'] = list(key), list(iv)
    rec['ref_ab'] = list(AES.new(key, AES.MODE_CTR, initial_value=iv, nonce=b'').encrypt(plain))
    return rec


def chan_seq_record(rng, sa, sb, plains):
    """ONE pair of channels used for a sequence of packets in both directions; every packet is kept by its receiver-to-be
    (in flight, queued) while later ones are produced and is delivered only at the end"""
    ca, cb = Client(sa), Client(sb)
    pa, pb = ca.ed25519_public.encode(), cb.ed25519_public.encode()
    ida = hashlib.sha256(b'\xc6\xb4\x13\x48' + pa).digest()
    idb = hashlib.sha256(b'\xc6\xb4\x13\x48' + pb).digest()
    A = AdnlChannel(ca, Server('h', 1, pb), ida, idb)
    B = AdnlChannel(cb, Server('h', 1, pa), idb, ida)
    shared = crypto_scalarmult(SigningKey(sa).to_curve25519_private_key().encode(), VerifyKey(pb).to_curve25519_public_key().encode())
    held, ev = [], []
    for k, plain in enumerate(plains):
        frm = 'A' if (k % 3) != 2 else 'B'
        pkt = (A if frm == 'A' else B).encrypt(plain)
        held.append(pkt)
        ev.append({'frm': frm, 'plain': list(plain), 'now': list(bytes(pkt))})
    for k, (e, pkt) in enumerate(zip(ev, held)):
        e['later'] = list(bytes(pkt))
        rcv = B if e['frm'] == 'A' else A
        # the datagram sits in the receiver's buffer (bytes, a bytearray, a view into one) and may be delivered twice
        # (duplicates, retransmissions): decrypting reads the buffer, it does not consume or alter it
        buf = bytes(pkt) if k % 3 == 0 else bytearray(bytes(pkt))
        payload = buf[64:] if k % 3 != 2 else memoryview(buf)[64:]
        try:
            e['dec'] = list(bytes(rcv.decrypt(payload, bytes(buf[32:64]))))
            e['buf_after'] = list(bytes(buf))
            e['dec2'] = list(bytes(rcv.decrypt(payload, bytes(buf[32:64]))))
        except Exception as ex:
            e['dec'] = [-1]
            e.setdefault('buf_after', [])
            e.setdefault('dec2', [-2])
    return {'op': 'chan_seq', 'ida': list(ida), 'idb': list(idb), 'shared': list(shared), 'events': ev}


def generate(tier, seed, ctx):
    rng = random.Random(seed)
    q = tier == 'quick'
    out = []
    rb = lambda n: bytes(rng.getrandbits(8) for _ in range(n))
    # plaintexts beyond 64 KiB (a slice-wise fast path would start here)
    for n in ((65537,) if q else (65536, 65537, 131073)):
        out.append(chan_record(rng, rb(32), rb(32), rb(n)))
    for k in range(8 if q else 300):
        out.append(chan_seq_record(rng, rb(32), rb(32), [rb(rng.choice([0, 1, 16, 17, 200])) for _ in range(rng.choice([2, 3, 6]))]))
    for k in range(40 if q else 1500):
        sa, sb = rb(32), rb(32)
        n = rng.choice([0, 1, 15, 16, 17, 64, 1000])
        out.append(chan_record(rng, sa, sb, rb(n)))
        if k % 10 == 0:
            out.append(chan_record(rng, sa, sa, rb(n)))                       # self channel: equal ids
            same = rb(32)
            out.append(chan_record(rng, sa, sb, rb(n), ids=(same, same)))     # distinct keys, equal ids
            lo, hi = b'\x00' * 32, b'\xff' * 32
            out.append(chan_record(rng, sa, sb, rb(n), ids=(lo, hi)))
            out.append(chan_record(rng, sa, sb, rb(n), ids=(hi[:31] + b'\xfe', hi)))
    for k in range(60 if q else 2000):
        sk = SigningKey(rb(32))
        msg = rb(rng.choice([0, 1, 32, 100]))
        sig = sign_message(msg, sk.encode() + sk.verify_key.encode()) if True else b''
        cases = [('genuine', sk.verify_key.encode(), msg, sig, 1)]
        m2 = bytearray(msg or b'\x00')
        m2[rng.randrange(len(m2))] ^= 1 << rng.randrange(8)
        cases.append(('altered_message', sk.verify_key.encode(), bytes(m2), sig, 0))
        cases.append(('other_key', SigningKey(rb(32)).verify_key.encode(), msg, sig, 0))
        s2 = bytearray(sig)
        if s2:          # (a wrong-length signature is itself reported through siglen)
            s2[rng.randrange(len(s2))] ^= 1 << rng.randrange(8)
            cases.append(('altered_signature', sk.verify_key.encode(), msg, bytes(s2), 0))
        # an altered signature of a different length, with bytes moved across the signature | message boundary
        pk = sk.verify_key.encode()
        if msg:
            cases.append(('boundary_shift_right', pk, msg[1:], sig + msg[:1], 0))
        cases.append(('boundary_shift_left', pk, sig[60:] + msg, sig[:60], 0))
        cases.append(('empty_signature', pk, sig + msg, b'', 0))
        cases.append(('signature_extended', pk, msg, sig + b'\x00', 0))
        cases.append(('signature_truncated', pk, msg, sig[:63], 0))
        for label, pub, m, s, genuine in cases:
            rec = {'op': 'sig', 'label': label, 'genuine': genuine, 'siglen': len(sig)}
            try:
                rec['verified'] = int(bool(verify_sign(pub, m, s)))
            except Exception as e:
                rec['verified'] = 0
                rec['err'] = type(e).__name__
            out.append(rec)
        # Client.sign agrees with the helper
        c = Client(sk.encode())
        rec = {'op': 'sig', 'label': 'client_sign', 'genuine': 1, 'siglen': len(c.sign(msg)), 'verified': int(bool(verify_sign(sk.verify_key.encode(), msg, c.sign(msg))))}
        out.append(rec)
    mn = []
    for k in range(4 if q else 40):
        # every way the generator can be asked: defaults, explicit word count, with a password (positional and by keyword)
        how = k % 4
        w = K.mnemonic_new() if how == 0 else K.mnemonic_new(24) if how == 1 else K.mnemonic_new(24, 'correct horse %d' % k) if how == 2 \
            else K.mnemonic_new(password='p%d' % k)
        mn.append(w)
        first = K.mnemonic_to_wallet_key(w)
        rec = {'op': 'mnemonic', 'n': len(w), 'inlist': int(all(x in K.words for x in w)), 'valid': int(K.mnemonic_is_valid(w))}
        K.mnemonic_new()                                       # unrelated work in between
        again = K.mnemonic_to_wallet_key(list(w))
        rec['det'] = int(first == again and K.mnemonic_to_private_key(w) == K.mnemonic_to_private_key(w))
        pub, priv = first
        rec['pubok'] = int(K.private_key_to_public_key(priv) == pub and SigningKey(priv[:32]).verify_key.encode() == pub)
        out.append(rec)
    # "generated mnemonics are always valid" also when the entropy source is unlucky for a long while: a source that keeps returning
    # the same bytes (a candidate that fails the seed test) for thousands of draws and then recovers
    import os as _os
    real = _os.urandom
    for stuck_draws in ((3000 * 24,) if q else (3000 * 24, 10000 * 24)):
        state = {'n': 0}
        const = None
        for cand in range(256):
            ws = [K.words[cand]] * 24
            ent = __import__('hmac').new(' '.join(ws).encode(), b'', __import__('hashlib').sha512).digest()
            if __import__('hashlib').pbkdf2_hmac('sha512', ent, b'TON seed version', 390)[0] != 0:
                const = cand
                break

        def stuck(n, _state=state, _c=const):
            _state['n'] += 1
            if _state['n'] <= stuck_draws:
                # get_secure_random_number reads big-endian bytes and masks to 11 bits: spell the word index in the first two bytes
                return bytes([(_c >> 8) & 0xff, _c & 0xff]) + b'\x00' * max(0, n - 2)
            return real(n)
        K.os.urandom = stuck
        try:
            w = K.mnemonic_new()
            out.append({'op': 'mnemonic', 'n': len(w), 'inlist': int(all(x in K.words for x in w)), 'valid': int(K.mnemonic_is_valid(w)),
                        'det': 1, 'pubok': 1, 'tags': ['after_%d_unlucky_draws' % min(state['n'], stuck_draws)]})
        finally:
            K.os.urandom = real
    # derivation is a function of (mnemonic, salt) whatever was derived before: histories that interleave the public
    # mnemonic_to_seed with other salts and the key helpers; ground truth from hashlib / libsodium directly
    import hashlib as _hl, hmac as _hm
    from nacl.bindings import crypto_sign_seed_keypair as _kp

    def true_seed(ws, salt):
        return _hl.pbkdf2_hmac('sha512', _hm.new(' '.join(ws).encode(), b'', _hl.sha512).digest(), salt, 100000)

    def true_priv(ws):
        return _kp(true_seed(ws, b'TON default seed')[:32])

    salts = [b'TON HD Keys seed', b'TON default seed', b'TON fast seed version', b'']
    for k, w in enumerate(mn[:2 if q else 10]):
        order = salts[:] if k % 2 == 0 else salts[::-1]
        ev = []
        def add(fn, salt, got, want):
            ev.append({'fn': fn, 'salt': list(salt), 'out': list(got if isinstance(got, bytes) else got[0] + got[1]),
                       'truth': list(want if isinstance(want, bytes) else want[0] + want[1])})
        add('seed', order[0], K.mnemonic_to_seed(list(w), order[0]), true_seed(w, order[0]))
        add('wallet_key', b'', K.mnemonic_to_wallet_key(list(w)), _kp(true_priv(w)[1][:32]))
        add('seed', order[1], K.mnemonic_to_seed(list(w), order[1]), true_seed(w, order[1]))
        add('private_key', b'', K.mnemonic_to_private_key(list(w)), true_priv(w))
        for sa in order[2:] + order[:1]:
            add('seed', sa, K.mnemonic_to_seed(list(w), sa), true_seed(w, sa))
        other = mn[(k + 1) % len(mn)]
        add('seed_other_mnemonic', order[0], K.mnemonic_to_seed(list(other), order[0]), true_seed(other, order[0]))
        out.append({'op': 'derive', 'events': ev})
    # the validity rule itself, on mnemonics that contain the first / second / last word of the list (generated ones rarely do):
    # ground truth from hashlib directly - entropy = HMAC-SHA512(key = words joined by spaces, msg = empty),
    # valid iff PBKDF2-HMAC-SHA512(entropy, "TON seed version", 390 iterations)[0] = 0
    import hashlib, hmac

    def rule(ws):
        ent = hmac.new(' '.join(ws).encode(), b'', hashlib.sha512).digest()
        return int(hashlib.pbkdf2_hmac('sha512', ent, b'TON seed version', 390)[0] == 0)
    for widx in ((0, 1, len(K.words) - 1) if q else (0, 1, 2, 1023, 1024, len(K.words) - 2, len(K.words) - 1)):
        found = {0: None, 1: None}
        for _try in range(20000):
            ws = [K.words[rng.randrange(len(K.words))] for _ in range(24)]
            ws[rng.randrange(24)] = K.words[widx]
            v = rule(ws)
            if found[v] is None:
                found[v] = ws
            if found[0] is not None and found[1] is not None:
                break
        for v, ws in found.items():
            if ws is not None:
                out.append({'op': 'mnemonic_rule', 'word_index': widx, 'rule': v, 'libvalid': int(bool(K.mnemonic_is_valid(list(ws))))})
    return out


def canary(r, rng):
    if r['op'] == 'derive':
        e = rng.choice(r['events'])
        e['out'][rng.randrange(len(e['out']))] ^= 1
        r['canary'] = 'derived byte'
        return r
    if r['op'] == 'chan':
        f = rng.choice(['pab', 'decb', 'A'])
        if f == 'A':
            r['A']['ckid'][0] ^= 1
        elif r[f]:
            r[f][rng.randrange(len(r[f]))] ^= 1
        else:
            return None
        r['canary'] = f
        return r
    if r['op'] == 'sig':
        r['verified'] = 1 - r['verified']
        r['canary'] = 'verified'
        return r
    return None


def nontrivial_key(r):
    if r['op'] == 'chan_seq':
        return ('chan_seq', bytes(r['shared']))
    if r['op'] == 'chan':
        return ('chan', bytes(r['shared']), bytes(r['plain']), bytes(r['ida']) > bytes(r['idb']))
    if r['op'] == 'sig':
        return ('sig', r['label'], r['verified'], id(r))
    return ('mnemonic', id(r))


def extra_coverage(flat, ctx):
    ch = [r for r in flat if r['op'] == 'chan']
    return {'channels': len(ch), 'local_id_greater': sum(1 for r in ch if bytes(r['ida']) > bytes(r['idb'])),
            'local_id_smaller': sum(1 for r in ch if bytes(r['ida']) < bytes(r['idb'])),
            'equal_ids': sum(1 for r in ch if r['ida'] == r['idb']), 'signature_cases': sum(1 for r in flat if r['op'] == 'sig'),
            'mnemonics': sum(1 for r in flat if r['op'] == 'mnemonic')}
