"""C15 driver: logical messages (header x state-init x body) serialised by the library and parsed back from every valid
encoding the specification produces; stand-alone wrappers (StateInit, CurrencyCollection, wallet data, NFT data)."""
import os
import random

import tlbkit
import vlib
from drivers.c16 import tlb_cfg
from pytoniq_core.boc import Address, Cell
from pytoniq_core.boc.address import ExternalAddress
from pytoniq_core.tlb import account as A, block as B, transaction as T, utils as Ut
from pytoniq_core.tlb.custom import nft as N, wallet as W

PROP = 'C15'
TRACE_MODULE = 'C15Trace.tla'
RULE = ('logical messages = header values TLC generates for CommonMsgInfo (3 kinds, boundary addresses/amounts, extra-currency '
        'dictionaries) x state-init shapes (none, 0-3 references, split_depth, special) x bodies (0, 1, boundary-1, boundary, boundary+1, '
        '1023 bits; 0..4 references) - the boundary computed from the header size; each serialised by the library, and parsed from EVERY '
        'fitting placement (init inline/ref x body inline/ref) encoded by the specification; wrappers from TLC-generated values; '
        'distinct = distinct (operation, value)')
ASSUMPTIONS = ['TlbSchema transcription of message$_, CommonMsgInfo, StateInit, CurrencyCollection (tags prefix-free checked by TLC)',
               'serialisation direction uses canonical values (minimal variable-length integers); parsing direction also non-minimal ones',
               'a message whose parts do not fit any placement (header + 3 control bits > 1023 ...) is not representable and not demanded',
               'highload wallet data: the nested messages of old_queries may be placed by the serialiser as it likes (every placement variant is a valid encoding)']
WRAP = {'StateInit': A.StateInit, 'CurrencyCollection': B.CurrencyCollection, 'WalletV3Data': W.WalletV3Data, 'WalletV4Data': W.WalletV4Data,
        'NftItemData': N.NftItemData, 'NftItemSaleFees': N.NftItemSaleFees, 'NftItemSaleData': N.NftItemSaleData, 'HashUpdate': Ut.HashUpdate, 'TickTock': A.TickTock,
        'HighloadWalletData': W.HighloadWalletData}


def model_checks(tier):
    return [dict(name='tlb_msg_g', module='MC_Tlb.tla', gen=True, workers=2, timeout=1500, heap='4g', cfg=tlb_cfg(['CommonMsgInfo', 'StateInit'])),
            dict(name='tlb_wrap_g', module='MC_Tlb.tla', gen=True, workers=2, timeout=1500, heap='4g', cfg=tlb_cfg(sorted(set(WRAP) - {'StateInit'})))]


def bi(bits, signed=False):
    v = int(''.join(map(str, bits)) or '0', 2)
    if signed and bits and bits[0] == 1:
        v -= 1 << len(bits)
    return v


def by(bs):
    return int.from_bytes(bytes(bs), 'big')


def minimal(bs):
    return not bs or bs[0] != 0


ADDR_FORM = ['object']      # how address arguments are handed to the wrappers: the object, or its raw / friendly text


def lib_addr(v):
    a = Address((bi(v['wc'], True), bi(v['hash']).to_bytes(32, 'big')))
    if v.get('any'):
        a.set_anycast(len(v['any'][0]), bi(v['any'][0]))
        return a
    if ADDR_FORM[0] == 'raw':
        return a.to_str(is_user_friendly=False)
    if ADDR_FORM[0] == 'friendly':
        return a.to_str(is_user_friendly=True, is_bounceable=bool(v['hash'][0]), is_url_safe=bool(v['hash'][1]))
    return a


def lib_ext(v):
    return None if v == [] else ExternalAddress(bi(v[0]) if v[0] else 0, len(v[0]))


def lib_cc(v):
    other = {bi(e['k']): by(e['v']) for e in v['other']}
    return B.CurrencyCollection(by(v['grams']), B.ExtraCurrencyCollection(other or None))


def cc_canonical(v):
    return minimal(v['grams']) and all(minimal(e['v']) and e['v'] for e in v['other'])


def lib_info(v):
    c = v['c']
    if c == 'int_msg_info':
        return T.InternalMsgInfo(bool(v['ihr_disabled'][0]), bool(v['bounce'][0]), bool(v['bounced'][0]), lib_addr(v['src']), lib_addr(v['dest']),
                                 lib_cc(v['value']), by(v['ihr_fee']), by(v['fwd_fee']), bi(v['created_lt']), bi(v['created_at']))
    if c == 'ext_in_msg_info':
        return T.ExternalMsgInfo(lib_ext(v['src']), lib_addr(v['dest']), by(v['import_fee']))
    return T.ExternalOutMsgInfo(lib_addr(v['src']), lib_ext(v['dest']), bi(v['created_lt']), bi(v['created_at']))


def info_canonical(v):
    if v['c'] == 'int_msg_info':
        return cc_canonical(v['value']) and minimal(v['ihr_fee']) and minimal(v['fwd_fee'])
    if v['c'] == 'ext_in_msg_info':
        return minimal(v['import_fee'])
    return True


def lib_init(v):
    return A.StateInit(split_depth=bi(v['split_depth'][0]) if v['split_depth'] else None,
                       special=A.TickTock(bool(v['special'][0]['tick'][0]), bool(v['special'][0]['tock'][0])) if v['special'] else None,
                       code=tlbkit.tree_to_cell(v['code'][0]) if v['code'] else None,
                       data=tlbkit.tree_to_cell(v['data'][0]) if v['data'] else None,
                       library=tlbkit.tree_to_cell(v['library'][0]) if v['library'] else None)


def lib_wrap(ty, v):
    if ty == 'StateInit':
        return lib_init(v)
    if ty == 'CurrencyCollection':
        return lib_cc(v['cc'])
    if ty == 'WalletV3Data':
        return W.WalletV3Data(bi(v['seqno']), bi(v['wallet_id']), bi(v['public_key']).to_bytes(32, 'big'))
    if ty == 'WalletV4Data':
        return W.WalletV4Data(bi(v['seqno']), bi(v['wallet_id']), bi(v['public_key']).to_bytes(32, 'big'),
                              tlbkit.tree_to_cell(v['plugins'][0]) if v['plugins'] else None)
    if ty == 'NftItemData':
        return N.NftItemData(bi(v['index']), lib_addr(v['collection_address']), lib_addr(v['owner_address']), tlbkit.tree_to_cell(v['content']))
    if ty == 'NftItemSaleFees':
        return N.NftItemSaleFees(lib_addr(v['marketplace_fee_address']), by(v['marketplace_fee']), lib_addr(v['royalty_address']), by(v['royalty_amount']))
    if ty == 'NftItemSaleData':
        f = v['fees_cell']
        return N.NftItemSaleData(bool(v['is_complete'][0]), bi(v['created_at']), lib_addr(v['marketplace_address']), lib_addr(v['nft_address']),
                                 lib_addr(v['nft_owner_address']), by(v['full_price']),
                                 N.NftItemSaleFees(lib_addr(f['marketplace_fee_address']), by(f['marketplace_fee']), lib_addr(f['royalty_address']), by(f['royalty_amount'])),
                                 bool(v['can_deploy_by_external'][0]))
    if ty == 'HashUpdate':
        return Ut.HashUpdate(bi(v['old_hash']).to_bytes(32, 'big'), bi(v['new_hash']).to_bytes(32, 'big'))
    if ty == 'TickTock':
        return A.TickTock(bool(v['tick'][0]), bool(v['tock'][0]))
    if ty == 'HighloadWalletData':
        return W.HighloadWalletData(bi(v['wallet_id']), bi(v['last_cleaned']), bi(v['public_key']).to_bytes(32, 'big'),
                                    {bi(e['k']): W.WalletMessage(bi(e['v']['send_mode']), lib_message(e['v']['message'])) for e in v['old_queries']} or None)
    raise ValueError(ty)


def lib_message(mv):
    """a Message value of the schema (with its placement choices, which the library's serialiser makes on its own) -> MessageAny"""
    return T.MessageAny(lib_info(mv['info']), lib_init(mv['init'][0]['v']) if mv['init'] else None, tlbkit.tree_to_cell(mv['body']['v']))


def hw_canonical(v):
    return all(info_canonical(e['v']['message']['info']) for e in v['old_queries'])


def leaf_tree(rng, nbits, nrefs):
    return {'b': [rng.getrandbits(1) for _ in range(nbits)], 'r': [{'b': [1] * (j + 1), 'r': []} for j in range(nrefs)]}


def generate(tier, seed, ctx):
    rng = random.Random(seed)
    q = tier == 'quick'
    out = []
    infos = [c for c in ctx['mc']['tlb_msg_g'] if c['type'] == 'CommonMsgInfo']
    inits = [c['val'] for c in ctx['mc']['tlb_msg_g'] if c['type'] == 'StateInit']
    cell = {'b': [1, 0, 1], 'r': []}
    # state-inits with 3 references and with everything
    full = {'c': 'state_init', 'split_depth': [[1, 0, 1, 0, 1]], 'special': [{'c': 'tick_tock', 'tick': [1], 'tock': [0]}],
            'code': [cell], 'data': [{'b': [0] * 9, 'r': [cell]}], 'library': [{'b': [], 'r': []}]}
    inits = inits + [full, dict(full, split_depth=[], special=[])]
    msgs = []
    k = 0
    def init_inline(init):
        """bits / references a state-init takes when placed inline (input shaping only; the verdict is TLC's)"""
        if init is None:
            return 0, 0
        return (5 + (5 if init['split_depth'] else 0) + (2 if init['special'] else 0),
                sum(1 for f in ('code', 'data', 'library') if init[f]))

    for ic in infos:
        info = ic['val']
        hdr_bits = len(ic['enc']['b'])
        hdr_refs = len(ic['enc']['r'])
        init_choices = [None] + (rng.sample(inits, 2 if q else 8)) + [full]
        for init in init_choices:
            ib, ir = init_inline(init)
            # body sizes at which a placement stops fitting: init inline / init by reference (or no init)
            frees = sorted({1023 - hdr_bits - 2 - (0 if init is None else 1) - ib, 1023 - hdr_bits - 2 - (0 if init is None else 1)})
            edge = sorted({max(0, min(1023, f + d)) for f in frees for d in (0, 1)})
            other = sorted({0, 1, 1023, rng.randint(0, 1023)} | {max(0, f - 1) for f in frees})
            sizes = edge + (rng.sample(other, 2) if q else other)
            # reference budgets: header refs (+ inline init refs) + body refs against 4
            rbs = sorted({max(0, min(4, 4 - hdr_refs - ir + d)) for d in (0, 1)} | {max(0, min(4, 4 - hdr_refs - (1 if init else 0) + d)) for d in (0, 1)})
            for nb in sizes:
                nrs = sorted(set(rng.sample(rbs, 1) + [rng.choice([0, 4])])) if q else range(5)
                for nr in nrs:
                    k += 1
                    msgs.append({'id': k, 'type': 'MessageL', 'val': {'info': info, 'init': [] if init is None else [init], 'body': leaf_tree(rng, nb, nr)},
                                 'canon': info_canonical(info)})
    if q and len(msgs) > 2400:
        msgs = rng.sample(msgs, 2400)
    # one account named in several forms within one message and across consecutive messages (plain, anycast prefixes of
    # different depths): each field is the form it was written in, whatever form the account had elsewhere
    ints = [ic['val'] for ic in infos if ic['val']['c'] == 'int_msg_info']
    if ints:
        acct = {'wc': [0] * 8, 'hash': [(i * 7 + 3) % 2 for i in range(256)]}
        forms = [dict(acct, any=[]), dict(acct, any=[[1, 0, 1]]), dict(acct, any=[[0] * 30]), dict(acct, any=[[1]])]
        for a in range(len(forms)):
            for b in range(len(forms)):
                if a == b:
                    continue
                k += 1
                info = dict(ints[(a * 5 + b) % len(ints)], src=forms[a], dest=forms[b])
                msgs.append({'id': k, 'type': 'MessageL', 'val': {'info': info, 'init': [], 'body': leaf_tree(rng, 8, 0)}, 'canon': info_canonical(info)})
    encs = vlib.tlc_map('TlbEncode.tla', [{'id': m['id'], 'type': m['type'], 'val': m['val']} for m in msgs], os.path.join(ctx['work'], 'enc'))
    for m in msgs:
        v = m['val']
        if m['canon']:
            rec = {'op': 'msg_ser', 'val': v}
            try:
                msg = T.MessageAny(lib_info(v['info']), lib_init(v['init'][0]) if v['init'] else None, tlbkit.tree_to_cell(v['body']))
                rec['out'] = {'tree': tlbkit.cell_tree(msg.serialize())}
            except Exception as e:
                rec['out'] = {'err': type(e).__name__}
            out.append(rec)
        for e in encs[m['id']]['encs']:
            rec = {'op': 'parse', 'type': 'Message', 'sides': e['sides'], 'flat': e['flat']}
            try:
                s = tlbkit.tree_to_cell(e['tree']).begin_parse()
                if len(out) % 5 == 0:
                    tlbkit.scramble_object(T.MessageAny.deserialize(tlbkit.tree_to_cell(e['tree']).begin_parse()))
                obj = T.MessageAny.deserialize(s)
                reparsed = obj
                rec['rem'] = {'bits': s.remaining_bits, 'refs': s.remaining_refs}
                if e['sides'][1] == 0 and s.remaining_bits == len(obj.body.bits) and s.remaining_refs == len(obj.body.refs):
                    rec['rem'] = {'bits': 0, 'refs': 0}          # inline body = the rest of the cell (see C16)
                tlbkit.drain(s)
                rec['obs'] = tlbkit.observe(obj, e['flat'], 'Message')
            except Exception as ex:
                rec['err'] = type(ex).__name__
                reparsed = None
            out.append(rec)
            # second generation: the object the parser returned, serialised again, is an encoding of the same message
            if reparsed is not None and m['canon'] and (m['id'] + len(out)) % 3 == 0:
                rec = {'op': 'msg_ser', 'val': v, 'tags': ['reserialised_from_parsed']}
                try:
                    rec['out'] = {'tree': tlbkit.cell_tree(reparsed.serialize())}
                except Exception as ex:
                    rec['out'] = {'err': type(ex).__name__}
                out.append(rec)
    # isolation of values (repeated use): a default-constructed value edited in place must not leak into values built later
    def nbits(v, w):
        return [(v >> (w - 1 - i)) & 1 for i in range(w)]

    def cc_val(grams, other):
        mb = lambda v: list(v.to_bytes((v.bit_length() + 7) // 8, 'big'))
        return {'c': 'currencies', 'cc': {'grams': mb(grams), 'other': [{'k': nbits(kk, 32), 'v': mb(vv)} for kk, vv in sorted(other.items())]}}

    def hist(obj, ty, val, tag):
        rec = {'op': 'wrap_ser', 'type': ty, 'val': val, 'tags': ['history', tag]}
        try:
            rec['out'] = {'tree': tlbkit.cell_tree(obj.serialize())}
        except Exception as e:
            rec['out'] = {'err': type(e).__name__}
        out.append(rec)

    for rnd in range(2):
        a = B.CurrencyCollection(5 + rnd)
        hist(a, 'CurrencyCollection', cc_val(5 + rnd, {}), 'default_extras')
        if isinstance(getattr(a.other, 'dict', None), dict):
            a.other.dict[7 + rnd] = 1000
            hist(a, 'CurrencyCollection', cc_val(5 + rnd, {7 + rnd: 1000}), 'edited_in_place')
        b = B.CurrencyCollection(9)
        hist(b, 'CurrencyCollection', cc_val(9, {}), 'fresh_after_edit_of_another')
        pz = B.CurrencyCollection.deserialize(B.CurrencyCollection(1).serialize().begin_parse())
        if isinstance(getattr(pz.other, 'dict', None), dict):
            pz.other.dict[3] = 4
        pq = B.CurrencyCollection.deserialize(B.CurrencyCollection(2).serialize().begin_parse())
        hist(pq, 'CurrencyCollection', cc_val(2, {}), 'parsed_after_edit_of_another_parsed')
        st = A.StateInit()
        hist(st, 'StateInit', {'c': 'state_init', 'split_depth': [], 'special': [], 'code': [], 'data': [], 'library': []}, 'default_state_init')
        st.code = tlbkit.tree_to_cell(cell)
        hist(A.StateInit(), 'StateInit', {'c': 'state_init', 'split_depth': [], 'special': [], 'code': [], 'data': [], 'library': []}, 'fresh_state_init')
        for w, ty in ((W.WalletV3Data(public_key=bytes(32)), 'WalletV3Data'), (W.WalletV4Data(public_key=bytes(32)), 'WalletV4Data')):
            val = {'c': 'wallet_v3_data' if ty == 'WalletV3Data' else 'wallet_v4_data', 'seqno': nbits(0, 32), 'wallet_id': nbits(698983191, 32), 'public_key': [0] * 256}
            if ty == 'WalletV4Data':
                val['plugins'] = []
            hist(w, ty, val, 'default_wallet_data')
        # an internal message whose value is a default-constructed collection, after the edits above
        mi = T.InternalMsgInfo(True, False, False, lib_addr({'wc': [0] * 8, 'hash': [0] * 256}), lib_addr({'wc': [1] * 8, 'hash': [1] * 256}),
                               B.CurrencyCollection(3), 0, 0, 0, 0)
        mv = {'info': {'c': 'int_msg_info', 'ihr_disabled': [1], 'bounce': [0], 'bounced': [0], 'src': {'wc': [0] * 8, 'hash': [0] * 256, 'any': []},
                       'dest': {'wc': [1] * 8, 'hash': [1] * 256, 'any': []}, 'value': {'grams': [3], 'other': []}, 'ihr_fee': [], 'fwd_fee': [],
                       'created_lt': [0] * 64, 'created_at': [0] * 32}, 'init': [], 'body': {'b': [1, 1], 'r': []}}
        rec = {'op': 'msg_ser', 'val': mv, 'tags': ['history', 'message_with_default_collection']}
        try:
            rec['out'] = {'tree': tlbkit.cell_tree(T.MessageAny(mi, None, tlbkit.tree_to_cell(mv['body'])).serialize())}
        except Exception as e:
            rec['out'] = {'err': type(e).__name__}
        out.append(rec)
    # stand-alone wrappers
    for case in ctx['mc']['tlb_wrap_g'] + [c for c in ctx['mc']['tlb_msg_g'] if c['type'] == 'StateInit']:
        ty, v = case['type'], case['val']
        canon = not (ty == 'CurrencyCollection' and not cc_canonical(v['cc'])) and \
            not (ty == 'NftItemSaleFees' and not (minimal(v['marketplace_fee']) and minimal(v['royalty_amount']))) and \
            not (ty == 'HighloadWalletData' and not hw_canonical(v)) and \
            not (ty == 'NftItemSaleData' and not (minimal(v['full_price']) and minimal(v['fees_cell']['marketplace_fee']) and minimal(v['fees_cell']['royalty_amount'])))
        if canon:
            rec = {'op': 'wrap_ser', 'type': ty, 'val': v}
            try:
                rec['out'] = {'tree': tlbkit.cell_tree(lib_wrap(ty, v).serialize())}
            except Exception as e:
                rec['out'] = {'err': type(e).__name__}
            out.append(rec)
            if ty in ('NftItemData', 'NftItemSaleData', 'NftItemSaleFees'):
                # the same data with the addresses given as text (raw and friendly), which these wrappers accept: the same cell
                for form in ('raw', 'friendly'):
                    rec = {'op': 'wrap_ser', 'type': ty, 'val': v, 'tags': ['addresses_as_' + form + '_text']}
                    ADDR_FORM[0] = form
                    try:
                        rec['out'] = {'tree': tlbkit.cell_tree(lib_wrap(ty, v).serialize())}
                    except Exception as e:
                        rec['out'] = {'err': type(e).__name__}
                    finally:
                        ADDR_FORM[0] = 'object'
                    out.append(rec)
        rec = {'op': 'parse', 'type': ty, 'flat': case['flat']}
        try:
            s = tlbkit.tree_to_cell(case['enc']).begin_parse()
            obj = WRAP[ty].deserialize(s)
            rec['rem'] = {'bits': s.remaining_bits, 'refs': s.remaining_refs}
            tlbkit.drain(s)
            rec['obs'] = tlbkit.observe(obj, case['flat'], ty)
        except Exception as e:
            rec['err'] = type(e).__name__
            obj = None
        out.append(rec)
        if obj is not None and canon and ty != 'StateInit' or (obj is not None and ty == 'StateInit'):
            # second generation: what the parser returned, serialised again, is an encoding of the same value
            rec = {'op': 'wrap_ser', 'type': ty, 'val': v, 'tags': ['reserialised_from_parsed']}
            try:
                rec['out'] = {'tree': tlbkit.cell_tree(obj.serialize())}
            except Exception as e:
                rec['out'] = {'err': type(e).__name__}
            out.append(rec)
    return out


def canary(r, rng):
    if r['op'] == 'msg_ser' and 'tree' in r['out'] and r['out']['tree']['b']:
        r['out']['tree']['b'][-1] ^= 1
        r['canary'] = 'last bit'
        return r
    if r['op'] == 'parse' and 'obs' in r:
        idx = [i for i, o in enumerate(r['obs']) if 'int' in o]
        if idx:
            i = rng.choice(idx)
            m = r['obs'][i]['int']
            r['obs'][i] = {'int': {'neg': 1 - m['neg'], 'mag': m['mag'] or [1]}}
            r['canary'] = 'leaf %d' % i
            return r
    return None


def nontrivial_key(r):
    if r['op'] == 'msg_ser':
        return ('ser', repr(r['val']))
    if r['op'] == 'wrap_ser':
        return ('wrap', r['type'], repr(r['val']))
    return ('parse', r['type'], repr(r['flat']))


def extra_coverage(flat, ctx):
    ser = [r for r in flat if r['op'] == 'msg_ser']
    return {'messages_serialised': len(ser), 'serialise_errors': sum(1 for r in ser if 'err' in r['out']),
            'encodings_parsed': sum(1 for r in flat if r['op'] == 'parse' and r['type'] == 'Message'),
            'wrapper_records': sum(1 for r in flat if r['op'] in ('wrap_ser',) or (r['op'] == 'parse' and r['type'] != 'Message'))}
