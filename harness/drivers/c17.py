"""C17 driver: TVM stacks serialised by the library (twice, with a snapshot of the caller's values) and parsed from the
specification's encoding."""
import os
import random

import tlbkit
import vlib
from pytoniq_core.boc import Builder, Cell, Slice
from pytoniq_core.tlb.vm_stack import VmCont, VmControlData, VmStack, VmTuple
from vlib import big

PROP = 'C17'
TRACE_MODULE = 'C17Trace.tla'
RULE = ('stacks of depth 0..6 (one of depth 100) over {null, integers at 0, +-1, +-2^63 and neighbours, +-2^255, 2^256-1, -2^256, cells, '
        'slices (fresh and partly consumed), builders, tuples of length 0, 1, 2, 3, 5 nested up to 3 deep, continuations quit / quit_exc / '
        'pushint / again / until / repeat / while_cond / while_body / std / envelope}; each serialised twice by the library and parsed '
        'from the specification\'s encoding; edit histories: serialise, change a value nested in a tuple in place, serialise the same objects again; distinct = distinct stacks')
ASSUMPTIONS = ['TonVm is a transcription of vm_stack / VmStackValue / VmTuple / VmTupleRef / VmCont (control data only in its empty form)',
               'a slice is written as the canonical VmCellSlice (its remaining data as the cell, window = everything)',
               'library objects are normalised to abstract values by kind (glue); equality is decided by TLC']


def model_checks(tier):
    return [dict(name='tlb_tags', module='MC_Tlb.tla', workers=2, cfg='INIT Init\nNEXT Next\nCONSTANTS Types = {"TickTock"}\n Emit = FALSE\n Pairs = FALSE\n'
                 'INVARIANT Count\nCHECK_DEADLOCK FALSE\n')]


INTS = [0, 1, -1, 2 ** 63 - 1, 2 ** 63, -2 ** 63, -2 ** 63 - 1, 2 ** 64, 2 ** 255, -2 ** 255, 2 ** 256 - 1, -2 ** 256, 12345678901234567890]


def rand_tree(rng, refs=True):
    return {'b': [rng.getrandbits(1) for _ in range(rng.choice([0, 1, 8, 33, 200]))],
            'r': [{'b': [1, 0], 'r': []} for _ in range(rng.randint(0, 2) if refs else 0)]}


def rand_cont(rng, depth=0):
    kinds = ['vmc_quit', 'vmc_quit_exc'] if depth >= 2 else ['vmc_quit', 'vmc_quit_exc', 'vmc_pushint', 'vmc_again', 'vmc_until', 'vmc_repeat',
                                                              'vmc_while_cond', 'vmc_while_body', 'vmc_std', 'vmc_envelope']
    c = rng.choice(kinds)
    v = {'k': 'cont', 'c': c}
    sub = lambda: rand_cont(rng, depth + 1)
    if c == 'vmc_quit':
        v['exit_code'] = big(rng.choice([0, 1, -1, 2 ** 31 - 1, -2 ** 31]))
    elif c == 'vmc_pushint':
        v['value'] = big(rng.choice([0, -1, 2 ** 31 - 1, -2 ** 31, 77]))
        v['next'] = sub()
    elif c == 'vmc_again':
        v['body'] = sub()
    elif c == 'vmc_until':
        v['body'], v['after'] = sub(), sub()
    elif c == 'vmc_repeat':
        v['count'] = big(rng.choice([0, 1, 2 ** 63 - 1, 2 ** 62]))
        v['body'], v['after'] = sub(), sub()
    elif c in ('vmc_while_cond', 'vmc_while_body'):
        v['cond'], v['body'], v['after'] = sub(), sub(), sub()
    elif c == 'vmc_std':
        v['code'] = rand_tree(rng)
        v['cdata'] = rand_ctl(rng, depth)
    elif c == 'vmc_envelope':
        v['next'] = sub()
        v['cdata'] = rand_ctl(rng, depth)
    return v


NO_CTL = {'nargs': [], 'stack': [], 'save': [], 'cp': []}


def rand_ctl(rng, depth):
    """vm_ctl_data: each Maybe absent / present with boundary values (0 is a value, not absence); saved stack and c-registers"""
    if rng.random() < 0.3:
        return dict(NO_CTL)
    d = {'nargs': [], 'stack': [], 'save': [], 'cp': []}
    if rng.random() < 0.6:
        d['nargs'] = [big(rng.choice([0, 1, 2, 8191, rng.randint(0, 8191)]))]
    if rng.random() < 0.6:
        d['stack'] = [[rand_value(rng, 3) if depth < 2 else {'k': 'int', 'v': big(rng.choice(INTS))} for _ in range(rng.choice([0, 0, 1, 2, 3]))]]
    if rng.random() < 0.5:
        ks = sorted(rng.sample(range(16), rng.choice([1, 1, 2, 3, 16])))
        d['save'] = [{'k': k, 'v': (rand_value(rng, 3) if depth < 2 and rng.random() < 0.5 else {'k': 'int', 'v': big(rng.choice(INTS))})} for k in ks]
    if rng.random() < 0.6:
        d['cp'] = [big(rng.choice([0, -1, 1, 32767, -32768]))]
    return d


def rand_value(rng, depth=0):
    kinds = ['null', 'int', 'int', 'cell', 'slice', 'builder', 'cont'] + (['tuple', 'tuple'] if depth < 3 else [])
    k = rng.choice(kinds)
    if k == 'null':
        return {'k': 'null'}
    if k == 'int':
        return {'k': 'int', 'v': big(rng.choice(INTS + [rng.randint(-2 ** 256, 2 ** 256 - 1), rng.randint(-2 ** 63, 2 ** 63 - 1)]))}
    if k in ('cell', 'slice', 'builder'):
        return {'k': k, 't': rand_tree(rng, refs=True)}
    if k == 'cont':
        return rand_cont(rng)
    n = rng.choice([0, 1, 2, 3, 5])
    return {'k': 'tuple', 'v': [rand_value(rng, depth + 1) for _ in range(n)]}


def lib_ctl(d):
    return VmControlData('vm_ctl_data', nargs=vlib.unbig(d['nargs'][0]) if d['nargs'] else None,
                         stack=[to_lib(x) for x in d['stack'][0]] if d['stack'] else None,
                         save={e['k']: to_lib(e['v']) for e in d['save']} if d['save'] else None,
                         cp=vlib.unbig(d['cp'][0]) if d['cp'] else None)


def of_ctl(cd, seen):
    if cd is None:
        return {'missing': 1}
    out = {}
    for f in ('nargs', 'cp'):
        x = getattr(cd, f, None)
        out[f] = [] if x is None else ([big(x)] if isinstance(x, int) and not isinstance(x, bool) else [{'unexpected': type(x).__name__}])
    st = getattr(cd, 'stack', None)
    out['stack'] = [] if st is None else ([[of_lib(y, seen) for y in st]] if isinstance(st, list) else [{'unexpected': type(st).__name__}])
    sv = getattr(cd, 'save', None)
    sv = getattr(sv, 'map', sv) if not isinstance(sv, dict) else sv
    if not sv:
        out['save'] = []
    elif isinstance(sv, dict):
        out['save'] = [{'k': int(k) if not isinstance(k, str) else int(k, 2), 'v': of_lib(sv[k], seen)} for k in sorted(sv, key=lambda z: int(z) if not isinstance(z, str) else int(z, 2))]
    else:
        out['save'] = [{'unexpected': type(sv).__name__}]
    return out


def to_lib(v):
    k = v['k']
    if k == 'null':
        return None
    if k == 'int':
        return vlib.unbig(v['v'])
    if k == 'cell':
        return tlbkit.tree_to_cell(v['t'])
    if k == 'slice':
        # a partly consumed slice whose REMAINING data is t: prepend bits and references and consume them
        nb = 3 if len(v['t']['b']) <= 1020 else 0
        nr = min(len(v['t']['b']) % 3, 4 - len(v['t']['r']))
        c = tlbkit.tree_to_cell({'b': [1, 1, 0][:nb] + v['t']['b'], 'r': [{'b': [0, 1, 1, 1], 'r': []}] * nr + v['t']['r']})
        s = c.begin_parse()
        s.load_bits(nb)
        for _ in range(nr):
            s.load_ref()
        return s
    if k == 'builder':
        b = Builder().store_bits(tlbkit.bitarray(v['t']['b']))
        for r in v['t']['r']:
            b.store_ref(tlbkit.tree_to_cell(r))
        return b
    if k == 'tuple':
        if 'share' in v:
            if v['share'] not in SHARED:
                SHARED[v['share']] = VmTuple([to_lib(x) for x in v['v']])
            return SHARED[v['share']]
        return VmTuple([to_lib(x) for x in v['v']])
    c = v['c']
    kw = {}
    for f, x in v.items():
        if f in ('k', 'c', 'cdata'):
            continue
        if f in ('exit_code', 'value', 'count'):
            kw[f] = vlib.unbig(x)
        elif f == 'code':
            kw[f] = tlbkit.tree_to_cell(x).begin_parse()
        else:
            kw[f] = to_lib(x)
    if c in ('vmc_std', 'vmc_envelope'):
        kw['cdata'] = lib_ctl(v.get('cdata', NO_CTL))
    # keyword arguments in any order (a continuation's fields are named, not positional)
    ks = list(kw)
    ORDER[0] = (ORDER[0] * 7 + 3) % 11
    if ORDER[0] % 3 == 1:
        ks.reverse()
    elif ORDER[0] % 3 == 2:
        ks = ks[1:] + ks[:1]
    return VmCont(c, **{k_: kw[k_] for k_ in ks})


BUDGET = [0]
ORDER = [0]
SHARED = {}          # 'share' label -> the one library object standing for it (per stack)


def of_lib(x, seen=()):
    BUDGET[0] -= 1
    if id(x) in seen or len(seen) > 300 or BUDGET[0] < 0:
        return {'k': 'unexpected_cycle_or_blowup'}          # an object that contains itself (or unfolds without end) is not a value
    if isinstance(x, (VmTuple, VmCont)):
        seen = seen + (id(x),)
    if x is None:
        return {'k': 'null'}
    if isinstance(x, bool):
        return {'k': 'unexpected_bool'}
    if isinstance(x, int):
        return {'k': 'int', 'v': big(x)}
    if isinstance(x, Cell):
        return {'k': 'cell', 't': tlbkit.cell_tree(x)}
    if isinstance(x, Slice):
        return {'k': 'slice', 't': tlbkit.cell_tree(x)}
    if isinstance(x, Builder):
        return {'k': 'builder', 't': tlbkit.cell_tree(x)}
    if isinstance(x, VmTuple):
        return {'k': 'tuple', 'v': [of_lib(y, seen) for y in x.list]}
    if isinstance(x, VmCont):
        v = {'k': 'cont', 'c': x.type_}
        for f in ('exit_code', 'value', 'count'):
            if hasattr(x, f):
                v[f] = big(getattr(x, f))
        if hasattr(x, 'code'):
            v['code'] = tlbkit.cell_tree(x.code)
        for f in ('next', 'body', 'after', 'cond'):
            if hasattr(x, f):
                v[f] = of_lib(getattr(x, f), seen)
        if x.type_ in ('vmc_std', 'vmc_envelope'):
            v['cdata'] = of_ctl(getattr(x, 'cdata', None), seen)
        return v
    return {'k': 'unexpected_' + type(x).__name__}


def use_builders(values, depth=0):
    n = 0
    for x in values:
        if isinstance(x, Builder):
            try:
                if x.available_bits:
                    x.store_bit(1)
                if x.available_refs:
                    x.store_ref(Builder().store_uint(0x5a, 8).end_cell())
                n += 1
            except Exception:
                pass
        elif isinstance(x, VmTuple) and depth < 6:
            n += use_builders(x.list, depth + 1)
    return n


def generate(tier, seed, ctx):
    rng = random.Random(seed)
    q = tier == 'quick'
    stacks = [[]]
    for v in INTS:
        stacks.append([{'k': 'int', 'v': big(v)}])
    for n in (0, 1, 2, 3, 5):
        stacks.append([{'k': 'tuple', 'v': [{'k': 'int', 'v': big(j)} for j in range(n)]}])
    for _ in range(250 if q else 6000):
        stacks.append([rand_value(rng) for _ in range(rng.randint(0, 6))])
    stacks.append([{'k': 'int', 'v': big(j)} for j in range(100)])     # JSON nesting limit of the TLC reader: 255 levels
    # values that share sub-objects (one tuple object reachable twice: acyclic, and a perfectly good value): marked 'share' so that
    # to_lib hands the library the SAME object at every occurrence (Lisp-style lists over one nil, pairs of one tuple)
    nil = {'k': 'tuple', 'v': [], 'share': 'nil'}
    pair = {'k': 'tuple', 'v': [{'k': 'int', 'v': big(7)}, {'k': 'null'}], 'share': 'p'}
    stacks.append([{'k': 'tuple', 'v': [pair, pair]}])
    stacks.append([{'k': 'tuple', 'v': [{'k': 'tuple', 'v': [{'k': 'int', 'v': big(1)}, nil]}, {'k': 'tuple', 'v': [{'k': 'int', 'v': big(2)}, nil]}, nil]}])
    stacks.append([{'k': 'tuple', 'v': [pair, {'k': 'tuple', 'v': [{'k': 'tuple', 'v': [pair]}]}]}, pair])
    # every present/absent combination of the four optional parts of vm_ctl_data, zero values included
    code = {'b': [1, 0, 1, 1, 0, 0, 0, 1], 'r': [{'b': [1], 'r': []}]}
    quit0 = {'k': 'cont', 'c': 'vmc_quit', 'exit_code': big(0)}
    for m in range(16):
        cd = {'nargs': [big(0 if m & 16 else (m * 37) % 8192)] if m & 1 else [], 'cp': [big(0 if m % 3 == 0 else -1)] if m & 2 else [],
              'stack': [[{'k': 'int', 'v': big(7)}, {'k': 'null'}][:m % 3]] if m & 4 else [],
              'save': [{'k': k, 'v': {'k': 'int', 'v': big(k)}} for k in ((0,), (15,), (0, 1), (3, 7, 12))[m % 4]] if m & 8 else []}
        stacks.append([{'k': 'cont', 'c': 'vmc_std', 'code': code, 'cdata': cd}])
        stacks.append([{'k': 'int', 'v': big(1)}, {'k': 'cont', 'c': 'vmc_envelope', 'next': quit0, 'cdata': cd}, {'k': 'null'}])
    stacks.append([{'k': 'cont', 'c': 'vmc_std', 'code': code, 'cdata': {'nargs': [big(0)], 'stack': [[]], 'save': [], 'cp': [big(0)]}}])
    # the same one-element tuple, and the same empty tuple, several times in one process (results must not accumulate)
    for j in range(3):
        stacks.append([{'k': 'tuple', 'v': [{'k': 'int', 'v': big(41 + j)}]}, {'k': 'tuple', 'v': []}])
    # non-canonical VmCellSlice windows (parse direction): the slice is the window [st_bits, end_bits) x [st_ref, end_ref)
    wins = []
    for _ in range(20 if q else 300):
        t = {'b': [rng.getrandbits(1) for _ in range(rng.choice([0, 1, 9, 64, 1023]))], 'r': [{'b': [1] * (j + 1), 'r': []} for j in range(rng.randint(0, 4))]}
        eb = rng.randint(0, len(t['b']))
        er = rng.randint(0, len(t['r']))
        wins.append([{'k': 'slicewin', 't': t, 'sb': rng.randint(0, eb), 'eb': eb, 'sr': rng.randint(0, er), 'er': er}] + ([rand_value(rng)] if rng.random() < 0.3 else []))
    stacks += wins
    def clean(v):
        if isinstance(v, dict):
            return {k: clean(x) for k, x in v.items() if k != 'share'}
        if isinstance(v, list):
            return [clean(x) for x in v]
        return v
    originals = {i + 1: s for i, s in enumerate(stacks)}
    jobs = [{'id': i + 1, 'type': 'VmStackL', 'val': clean(s)} for i, s in enumerate(stacks)]
    encs = vlib.tlc_map('TlbEncode.tla', jobs, os.path.join(ctx['work'], 'enc'))
    out = []
    for j in jobs:
        val = j['val']
        BUDGET[0] = 200000                            # nodes the observer may visit per stack (values here have < 2000)
        rec = {'op': 'vm_ser', 'val': val}
        if any(v['k'] == 'slicewin' for v in val):
            rec = None
        try:
            if rec is None:
                raise StopIteration
            SHARED.clear()
            data = [to_lib(v) for v in originals[j['id']]]
            c1 = VmStack.serialize(data)
            after = [of_lib(x) for x in data]
            c2 = VmStack.serialize(data)
            rec['out'] = {'tree': tlbkit.cell_tree(c1), 'tree2': tlbkit.cell_tree(c2), 'after': after}
        except RecursionError:
            raise
        except StopIteration:
            pass
        except Exception as e:
            rec['out'] = {'err': type(e).__name__}
        if rec is not None:
            out.append(rec)
        rec = {'op': 'vm_parse', 'val': val}
        try:
            enc_cell = tlbkit.tree_to_cell(encs[j['id']]['encs'][0]['tree'])
            src_before = tlbkit.cell_tree(enc_cell)
            back = VmStack.deserialize(enc_cell.begin_parse())
            rec['back'] = [of_lib(x) for x in back]
            # the caller goes on to USE what it got: every builder among the parsed values (also inside tuples) takes another bit and
            # another reference.  That is the caller's business: the cell it parsed from, and a second parse of it, are unaffected
            used = use_builders(back)
            rec['back2'] = [of_lib(x) for x in VmStack.deserialize(enc_cell.begin_parse())]      # parsing again gives the same values
            rec['back_again'] = bool(used) or [of_lib(x) for x in back] == rec['back']                  # and does not disturb the first result
            rec['src_same'] = bool(tlbkit.cell_tree(enc_cell) == src_before and tlbkit.cell_tree(Cell.one_from_boc(enc_cell.to_boc())) == src_before)
        except RecursionError:
            raise
        except Exception as e:
            rec['err'] = type(e).__name__
        out.append(rec)
    # a serialisation that FAILS (an entry no cell can hold somewhere in the stack) leaves the caller's list as it was: the caller
    # takes the offending entry out and sends the rest
    nfail = 0
    for val in [clean(x) for x in stacks]:
        if nfail >= (25 if q else 300) or not (2 <= len(val) <= 6) or any(v['k'] == 'slicewin' for v in val):
            continue
        nfail += 1
        BUDGET[0] = 200000
        rec = {'op': 'vm_ser', 'val': val, 'tags': ['after_a_failed_serialisation_of_the_same_list']}
        try:
            SHARED.clear()
            data = [to_lib(v) for v in val]
            bad = [2 ** 256 + nfail, VmTuple(list(range(700)))][nfail % 2]
            k = rng.randrange(len(data))
            data.insert(k, bad)
            try:
                VmStack.serialize(data)
                failed = False
            except RecursionError:
                failed = True
            except Exception:
                failed = True
            if not failed:
                continue
            n_after = len(data)
            data[:] = [x for x in data if x is not bad]
            rec['after_failed_len_ok'] = bool(n_after == len(val) + 1)
            c1 = VmStack.serialize(data)
            after = [of_lib(x) for x in data]
            c2 = VmStack.serialize(data)
            rec['out'] = {'tree': tlbkit.cell_tree(c1), 'tree2': tlbkit.cell_tree(c2), 'after': after}
        except RecursionError:
            raise
        except Exception as e:
            rec['out'] = {'err': type(e).__name__}
        out.append(rec)
    # edit histories: serialise, change a value NESTED inside a tuple in place (append to an inner tuple, store into an inner
    # builder), serialise the same caller objects again: the second cell must be the encoding of the values as they are now
    import copy, json

    def targets(v, path, depth):
        if v['k'] == 'tuple':
            for i, x in enumerate(v['v']):
                if depth >= 0 and x['k'] == 'tuple':
                    yield path + [i], 'tuple'
                if x['k'] == 'builder' and len(x['t']['b']) < 1000:
                    yield path + [i], 'builder'
                yield from targets(x, path + [i], depth + 1)

    fixed = [[{'k': 'tuple', 'v': [{'k': 'int', 'v': big(1)}, {'k': 'tuple', 'v': [{'k': 'int', 'v': big(2)}, {'k': 'int', 'v': big(3)}]}]}],
             [{'k': 'null'}, {'k': 'tuple', 'v': [{'k': 'builder', 't': {'b': [1, 0, 1], 'r': []}}, {'k': 'int', 'v': big(5)}]}],
             [{'k': 'tuple', 'v': [{'k': 'tuple', 'v': [{'k': 'tuple', 'v': []}]}]}]]
    done = 0
    for val in fixed + [clean(x) for x in stacks]:
        if done >= (40 if q else 600) or any(v['k'] == 'slicewin' for v in val):
            continue
        cand = [(i, p, kind) for i, v in enumerate(val) for p, kind in targets(v, [], 0)]
        if not cand:
            continue
        i, path, kind = rng.choice(cand)
        val2 = copy.deepcopy(val)
        BUDGET[0] = 200000
        rec = {'op': 'vm_ser', 'val': val2, 'tags': ['edited_in_place_between_serialisations']}
        try:
            data = [to_lib(v) for v in val]
            VmStack.serialize(data)
            node, obj = val2[i], data[i]
            for j in path:
                node, obj = node['v'][j], obj.list[j]
            if kind == 'tuple':
                node['v'].append({'k': 'int', 'v': big(4)})
                obj.list.append(4)
            else:
                node['t']['b'].append(1)
                obj.store_bit(1)
            c1 = VmStack.serialize(data)
            after = [of_lib(x) for x in data]
            c2 = VmStack.serialize(data)
            rec['out'] = {'tree': tlbkit.cell_tree(c1), 'tree2': tlbkit.cell_tree(c2), 'after': after}
        except RecursionError:
            raise
        except Exception as e:
            rec['out'] = {'err': type(e).__name__}
        out.append(rec)
        done += 1
    return out


def canary(r, rng):
    if r['op'] == 'vm_ser' and 'tree' in r['out'] and r['out']['tree']['b']:
        r['out']['tree']['b'][-1] ^= 1
        r['canary'] = 'depth bit'
        return r
    return None


def nontrivial_key(r):
    return (r['op'], repr(r['val'])) if r['val'] else None


def extra_coverage(flat, ctx):
    kinds = {}

    def walk(v):
        kinds[v['k'] if v['k'] != 'cont' else v['c']] = kinds.get(v['k'] if v['k'] != 'cont' else v['c'], 0) + 1
        for x in v.get('v', []) if v['k'] == 'tuple' else []:
            walk(x)
        for f in ('next', 'body', 'after', 'cond'):
            if f in v:
                walk(v[f])
    for r in flat:
        if r['op'] == 'vm_ser':
            for v in r['val']:
                walk(v)
    return {'value_kinds': kinds, 'max_depth': max(len(r['val']) for r in flat)}
