"""C05 driver: Cell.from_boc on foreign encodings (every encoder freedom, TLC-generated) and on corrupted input."""
import random

import bockit as bk
import cellkit as ck
from drivers.c04 import boc_cfg
from pytoniq_core.boc import Cell
from pytoniq_core.crypto.crc import crc32c

PROP = 'C05'
TRACE_MODULE = 'C05Trace.tla'
RULE = ('valid inputs: every encoding TLC enumerates from MC_Boc (all heaps <= MaxCells incl. pruned/Merkle/library cells, every '
        'forward cell order, root lists incl. repeated and non-first roots, sizes, offset widths, index, cache bits, CRC, stored '
        'hashes, three magics); corrupted inputs derived from them: truncation at every byte, 1-4 byte extensions, single-bit '
        'flips of CRC-protected encodings, references rewired to self/backward/dangling; expected outcome is always TonBoc!Decode '
        'of the very bytes; distinct = distinct input byte strings')
ASSUMPTIONS = ['TonBoc.Decode (strict) is model-checked against TonBoc.Encode for every freedom in MC_Boc (DecodeEncode, FlipDetected, '
               'TruncExtendErr, BadRefErr)', 'parsed->decoded cell maps are untrusted hints verified by IsoVia',
               'CRCs of re-sealed corrupted inputs are computed with the library crc32c (input construction; C18 validates it)']
X3 = '{"pruned", "mproof", "library"}'


def model_checks(tier):
    q = tier == 'quick'
    return [dict(name='enc_g', module='MC_Boc.tla', gen=True, workers=8, timeout=1500,
                 cfg=boc_cfg(2, [0, 1, 8] if q else [0, 1, 7, 8, 9], X3, [1, 2] if q else [1, 2, 4], [2, 3] if q else [2, 3, 8],
                             'FALSE, TRUE', 'TRUE', 'FALSE', invs=False)),
            # the smallest bags under every count width and offset width (header length checks are tightest here)
            dict(name='enc1_g', module='MC_Boc.tla', gen=True, workers=4, timeout=1500,
                 cfg=boc_cfg(1, [0, 9, 1016, 1017, 1023], '{}', [1, 2, 3, 4], [1, 2, 8], 'FALSE, TRUE', 'TRUE', 'FALSE', invs=False)),
            dict(name='enc3_g', module='MC_Boc.tla', gen=True, workers=8, timeout=1500,
                 cfg=boc_cfg(3, [1] if q else [1, 8], '{"pruned"}' if q else X3, [1], [2], 'FALSE, TRUE', 'TRUE', 'FALSE', invs=False, maxrefs=2)),
            dict(name='boc_m', module='MC_Boc.tla', workers=16, timeout=1500,
                 cfg=boc_cfg(2, [0, 1, 8] if not q else [1, 8], X3, [1, 2] if not q else [1], [2, 3] if not q else [2], 'FALSE, TRUE', 'FALSE', 'TRUE')),
            dict(name='boc_m3', module='MC_Boc.tla', workers=16, timeout=1500,
                 cfg=boc_cfg(3, [1], '{"pruned", "mproof"}', [1], [2], 'FALSE, TRUE', 'FALSE', 'FALSE' if q else 'TRUE'))]


def parse(data, cls, note=None, again=False):
    rec = {'op': 'parse', 'cls': cls, 'bytes': list(data)}
    if note:
        rec['note'] = note
    try:
        roots = Cell.from_boc(bytes(data))
        heap, ridx, _ = ck.project(roots)
        try:
            bag, _, _ = bk.scan(data)
            m = bk.map_heap_to(heap, bk.positions_by_content(bag))
        except Exception:
            m = [0] * len(heap)
        rec['out'] = {'roots': ridx, 'cells': heap, 'map': m}
        if again:
            # the caller owns the list it was given: whatever it does with it, parsing the same bytes once more (through both entry
            # points) returns the roots the encoding denotes
            roots.reverse()
            roots.clear()
            try:
                roots2 = Cell.from_boc(bytes(data))
                one = Cell.one_from_boc(bytes(data)) if len(roots2) == 1 else roots2[0]   # (the single-root entry point)
                heap2, ridx2, _ = ck.project(list(roots2) + [one])
                try:
                    m2 = bk.map_heap_to(heap2, bk.positions_by_content(bag))
                except Exception:
                    m2 = [0] * len(heap2)
                rec['again'] = {'roots': ridx2[:-1], 'one': ridx2[-1], 'cells': heap2, 'map': m2}
            except RecursionError:
                raise
            except Exception as e:
                rec['again'] = {'err': type(e).__name__}
    except RecursionError:
        raise
    except Exception as e:
        rec['out'] = {'err': type(e).__name__}
    return rec


def ref_positions(data):
    """byte positions (start, size) of every reference field and the bag index of its owner"""
    bag, _, starts = bk.scan(data)
    size = data[4] & 7 if bytes(data[:4]) == b'\xb5\xee\x9c\x72' else data[4]
    out = []
    for k, c in enumerate(bag):
        end = starts[k + 1]
        for j in range(len(c['refs'])):
            out.append((end - (len(c['refs']) - j) * size, size, k, len(bag)))
    return out


def reseal(data, hascrc):
    if hascrc:
        body = bytes(data[:-4])
        return body + crc32c(body)
    return bytes(data)


def _T(*a, **k):
    return (a, k)


def generate(tier, seed, ctx):
    rng = random.Random(seed)
    q = tier == 'quick'
    valid = []
    for name in ('enc_g', 'enc1_g', 'enc3_g'):
        valid += [(name, e) for e in ctx['mc'].get(name, [])]
    rng.shuffle(valid)
    keep = valid[:2500] if q else valid[:30000]
    tasks = []
    for name, e in keep:
        f = e['f']
        tasks.append(_T(bytes(e['bytes']), 'valid', '%s %s s%d o%d%s%s%s%s roots=%s' % (
            name, f['magic'], f['size'], f['offb'], ' idx' if f['idx'] else '', ' crc' if f['crc'] else '',
            ' cache' if f['cache'] else '', ' wh' if f['wh'] else '', e['roots']), again=(len(tasks) % 3 == 0 or len(e['roots']) > 1)))
    # corruptions
    base = [e for _, e in keep if not e['f']['wh']]
    crcs = [e for e in base if (e['f']['magic'] == 'generic' and e['f']['crc']) or e['f']['magic'] == 'idxcrc']
    full_n = 6 if q else 60
    for k, e in enumerate(rng.sample(base, min(len(base), 150 if q else 2500))):
        data = bytes(e['bytes'])
        pts = range(len(data)) if k < full_n else rng.sample(range(len(data)), 3)
        for n in pts:
            tasks.append(_T(data[:n], 'truncated'))
        for tail in ([b'\x00', b'\xff\xff', b'\x00\x00\x00', b'\xb5\xee\x9c\x72'] if k < full_n * 3 else [bytes([rng.getrandbits(8)])]):
            tasks.append(_T(data + tail, 'extended'))
    for k, e in enumerate(rng.sample(crcs, min(len(crcs), 120 if q else 2500))):
        data = bytearray(e['bytes'])
        bits = range(8 * len(data)) if k < (3 if q else 40) else rng.sample(range(8 * len(data)), 6)
        for b in bits:
            d = bytearray(data)
            d[b // 8] ^= 0x80 >> (b % 8)
            tasks.append(_T(bytes(d), 'bitflip_crc'))
    for e in rng.sample(base, min(len(base), 250 if q else 5000)):
        data = bytearray(e['bytes'])
        hascrc = (e['f']['magic'] == 'generic' and e['f']['crc']) or e['f']['magic'] == 'idxcrc'
        for (pos, size, owner, n) in ref_positions(data):
            for target, cls in ((owner, 'self_ref'), (max(owner - 1, 0), 'backward_ref'), (n, 'dangling_ref'), (n + 3, 'dangling_ref')):
                if cls == 'backward_ref' and owner == 0:
                    continue
                d = bytearray(data)
                d[pos:pos + size] = target.to_bytes(size, 'big')
                tasks.append(_T(reseal(d, hascrc), cls))
    # valid and corrupted inputs in one shuffled stream: a refused input leaves nothing behind that the next parse could see
    rng.shuffle(tasks)
    return [parse(*a, **k) for a, k in tasks]


def canary(r, rng):
    if 'err' in r['out']:
        if r['cls'] == 'valid':
            return None
        # a rejected corrupted input: pretend the parser returned a cell
        r['out'] = {'roots': [1], 'cells': [{'t': 0, 'n': 0, 'y': [], 'r': []}], 'map': [1]}
        r['canary'] = 'accepted_corrupt'
        return r
    c = r['out']['cells'][rng.randrange(len(r['out']['cells']))]
    if c['n'] == 0:
        c['n'], c['y'] = 1, [128]
    else:
        c['y'][0] ^= 0x80
    r['canary'] = 'content'
    return r


def nontrivial_key(r):
    return bytes(r['bytes'])


def extra_coverage(flat, ctx):
    cls = {}
    for r in flat:
        cls[r['cls']] = cls.get(r['cls'], 0) + 1
    acc = sum(1 for r in flat if r['cls'] != 'valid' and 'err' not in r['out'])
    return {'inputs_by_class': cls, 'corrupted_inputs_the_parser_accepted': acc,
            'valid_encodings_available_from_tlc': sum(len(v) for v in ctx['mc'].values())}
