"""M configurations of the TonBag machine shared by C06, C07, C08."""


def bag_cfg(maxbits, maxrefs, maxdepth, maxobjs, maxsteps):
    return ('SPECIFICATION Spec\nCONSTANTS MaxBits = %d\n MaxRefs = %d\n MaxDepth = %d\n MaxObjs = %d\n MaxSteps = %d\n Record = FALSE\n'
            'INVARIANT Capacity\nINVARIANT RoundTrip\nPROPERTY CellsImmutable\nPROPERTY FrameOne\nCHECK_DEADLOCK FALSE\n'
            % (maxbits, maxrefs, maxdepth, maxobjs, maxsteps))


def bag_checks(tier):
    if tier == 'quick':
        return [dict(name='bag_m', module='MC_Bag.tla', workers=8, timeout=900, heap='8g', cfg=bag_cfg(12, 2, 2, 4, 4))]
    return [dict(name='bag_m', module='MC_Bag.tla', workers=16, timeout=2400, heap='24g', cfg=bag_cfg(12, 2, 2, 4, 5)),
            dict(name='bag_m_tight', module='MC_Bag.tla', workers=8, timeout=2400, heap='8g', cfg=bag_cfg(5, 1, 1, 5, 6))]


def bag_sim(tier, seed):
    """G: random behaviours of the FULL-SIZE machine (the library's limits) exported by TLC's simulation mode for replay"""
    n, steps = (40, 24) if tier == 'quick' else (400, 40)
    cfg = ('SPECIFICATION Spec\nCONSTANTS MaxBits = 1023\n MaxRefs = 4\n MaxDepth = 1023\n MaxObjs = 9\n MaxSteps = %d\n Record = TRUE\n'
           'INVARIANT ExportBehaviour\nINVARIANT Capacity\nCHECK_DEADLOCK FALSE\n' % steps)
    return dict(name='bag_sim', module='MC_Bag.tla', gen=True, workers=1, timeout=1500, heap='4g', cfg=cfg,
                simulate='num=%d' % n, extra=['-depth', str(steps + 2), '-seed', str(seed + 1)])
