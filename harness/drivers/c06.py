"""C06 driver: typed store sequences, read back in order with a peek before every load; recorded for TonBag."""
import random

import bagkit as bk
from vlib import big, bitstr_of_list

PROP = 'C06'
TRACE_MODULE = 'C06Trace.tla'
RULE = ('behaviours: new builder, 1..12 typed stores that fit (uint/int widths 1..257 with boundary values per width, '
        'VarUInteger/VarInteger with 2..5-bit length fields at every byte-length class incl. top-bit-set values, coins, bit/bool, '
        'bits, bytes, strings, refs, maybe-refs, dicts, all address forms incl. anycast depth 1..30 and zero-length extern, snake '
        'byte strings 0..5000), end_cell, begin_parse, then preload+load of each item in order; distinct = distinct (store op, '
        'arguments) pairs')
ASSUMPTIONS = ['TonBag.Do is the TL-B meaning of each call (big-endian two\'s complement, minimal VarInteger, addr_none/extern/std)',
               'strings are UTF-8 text (1- to 4-byte characters) read back with their stored byte length; a snake string is the last item of its cell',
               'a builder that raised is dropped (no atomicity is promised)']
CANARIES = 6
V_TIMEOUT = 1500


def model_checks(tier):
    from drivers.bagmc import bag_checks
    return bag_checks(tier)


class Script:
    """one round-trip behaviour on a fresh pool segment"""

    def __init__(self, pool, rng):
        self.p, self.rng = pool, rng

    def leaf(self, nbits=None):
        rng, p = self.rng, self.p
        b = p.next
        p.call({'op': 'new_builder', 'new': b})
        n = rng.choice([0, 1, 8, 100]) if nbits is None else nbits
        p.call({'op': 'store_bits', 'obj': b, 'bits': bitstr_of_list([rng.getrandbits(1) for _ in range(n)])})
        c = p.next
        p.call({'op': 'end_cell', 'obj': b, 'new': c})
        return c

    def item(self, free_bits, free_refs, cells):
        """-> (store call fields, read spec, bits, refs) or None"""
        rng = self.rng
        kinds = ['uint', 'int', 'var_uint', 'var_int', 'coins', 'bit', 'bool', 'bits', 'bytes', 'string', 'address', 'uint', 'int']
        if free_refs:
            kinds += ['ref', 'maybe_ref', 'dict']
        kinds += ['maybe_none']
        k = rng.choice(kinds)
        if k in ('uint', 'int'):
            w = rng.choice([1, 2, 3, 7, 8, 9, 15, 16, 31, 32, 33, 63, 64, 65, 127, 128, 255, 256, 257, rng.randint(1, 257)])
            if k == 'uint' and w == 257 and rng.random() < 0.5:
                w = 256
            w = min(w, free_bits)
            if w < 1:
                return None
            inr, _ = bk.int_menu(w, k == 'int', rng)
            v = rng.choice(inr)
            return ({'op': 'store_' + k, 'v': big(v), 'w': w}, {'what': k, 'w': w}, w, 0)
        if k in ('var_uint', 'var_int', 'coins'):
            L = 4 if k == 'coins' else rng.choice([2, 3, 4, 5])
            inr, _ = bk.var_menu(L, k == 'var_int', rng)
            v = rng.choice(inr)
            nb = (v.bit_length() + 7) // 8 if k != 'var_int' else (0 if v == 0 else ((v.bit_length() if v > 0 else (-v - 1).bit_length()) + 8) // 8)
            if L + 8 * nb > free_bits:
                return None
            if k == 'coins':
                return ({'op': 'store_coins', 'v': big(v)}, {'what': 'var_uint', 'L': 4, 'via': 'coins'}, L + 8 * nb, 0)
            return ({'op': 'store_' + k, 'v': big(v), 'L': L}, {'what': k, 'L': L}, L + 8 * nb, 0)
        if k in ('bit', 'bool'):
            if free_bits < 1:
                return None
            b = rng.getrandbits(1)
            return ({'op': 'store_bit', 'bit': b, 'via': 'store_bool' if k == 'bool' else rng.choice(['store_bit', 'store_bit_int'])},
                    {'what': k}, 1, 0)
        if k == 'bits':
            n = min(rng.choice([0, 1, 5, 8, 13, 64, 300, 1023]), free_bits)
            return ({'op': 'store_bits', 'bits': bitstr_of_list([rng.getrandbits(1) for _ in range(n)])}, {'what': 'bits', 'n': n}, n, 0)
        if k in ('bytes', 'string'):
            n = min(rng.choice([1, 2, 3, 16, 32, 100, 127, 0, 0]), free_bits // 8)
            if n < 1 and k == 'string':
                return None          # (load_string(0) is documented as "everything that remains": an empty text field has no reader)
            if k == 'string':
                # text with 1-, 2-, 3- and 4-byte UTF-8 characters (character count != byte count); the stored length is in bytes
                txt = ''
                while True:
                    ch = rng.choice('abcXYZ 019_-' if rng.random() < 0.4 else '\u00e9\u0416\u20ac\u4e2d\U0001F600z')
                    if len((txt + ch).encode()) > n:
                        break
                    txt += ch
                data = list(txt.encode())
                n = len(data)
                if n < 1:
                    return None
                return ({'op': 'store_string', 'bytes': data}, {'what': 'bytes', 'n': n, 'via': 'string'}, 8 * n, 0)
            return ({'op': 'store_bytes', 'bytes': [rng.getrandbits(8) for _ in range(n)]}, {'what': 'bytes', 'n': n}, 8 * n, 0)
        if k == 'address':
            a = bk.rand_addr(rng)
            if bk.addr_bits(a) > free_bits:
                a = {'kind': 'none'}
                if free_bits < 2:
                    return None
            c = {'op': 'store_address', 'addr': a}
            if a['kind'] == 'std' and not a['any'] and rng.random() < 0.3:
                c['via'] = 'str'
                c['i'] = rng.getrandbits(1)
            return (c, {'what': 'address'}, bk.addr_bits(a), 0)
        if k == 'ref':
            return ({'op': 'store_ref', 'ref': rng.choice(cells)}, {'what': 'ref'}, 0, 1)
        if k in ('maybe_ref', 'dict'):
            if free_bits < 1:
                return None
            return ({'op': 'store_' + k, 'ref': rng.choice(cells)}, {'what': 'maybe_ref'}, 1, 1)
        if k == 'maybe_none':
            if free_bits < 1:
                return None
            return ({'op': rng.choice(['store_maybe_ref', 'store_dict']), 'ref': 0}, {'what': 'maybe_ref'}, 1, 0)

    def run(self, nitems, snake=None, prefill=0):
        p, rng = self.p, self.rng
        cells = [self.leaf(), self.leaf()]
        b = p.next
        p.call({'op': 'new_builder', 'new': b})
        free_bits, free_refs = 1023, 4
        schema = []
        if prefill:
            p.call({'op': 'store_bits', 'obj': b, 'bits': bitstr_of_list([1] * prefill)})
            schema.append({'what': 'bits', 'n': prefill})
            free_bits -= prefill
        for _ in range(nitems):
            it = self.item(free_bits, free_refs - (1 if snake is not None else 0), cells)
            if it is None:
                continue
            call, rd, nb, nr = it
            call['obj'] = b
            r = p.call(call)
            if 'err' in r['out']:
                return            # the builder is now unspecified: drop the behaviour here
            schema.append(rd)
            free_bits -= nb
            free_refs -= nr
        if snake is not None:
            pad = free_bits % 8
            if pad:
                p.call({'op': 'store_bits', 'obj': b, 'bits': bitstr_of_list([0] * pad)})
                schema.append({'what': 'bits', 'n': pad})
            # snake data that is valid UTF-8 goes through the string entry points half of the time (multi-byte characters then
            # straddle cell boundaries: the text must be decoded after the chain has been joined)
            as_text = True
            try:
                bytes(snake).decode()
            except UnicodeDecodeError:
                as_text = False
            as_text = as_text and rng.random() < 0.7
            r = p.call({'op': 'store_snake_bytes', 'obj': b, 'bytes': snake, 'via': 'store_snake_string' if as_text else 'store_snake_bytes'})
            if 'err' in r['out']:
                return
        c = p.next
        r = p.call({'op': 'end_cell', 'obj': b, 'new': c, 'via': rng.choice(['end_cell', 'to_cell'])})
        if 'err' in r['out']:
            return
        if snake is None and rng.random() < 0.3:
            # the builder goes on being used after a cell was taken from it: more items, a second cell (read back in full)
            for _ in range(rng.randint(1, 3)):
                it = self.item(free_bits, free_refs, cells)
                if it is None:
                    continue
                call, rd, nb, nr = it
                call['obj'] = b
                r2 = p.call(call)
                if 'err' in r2['out']:
                    return
                schema.append(rd)
                free_bits -= nb
                free_refs -= nr
            c = p.next
            r2 = p.call({'op': 'end_cell', 'obj': b, 'new': c, 'via': rng.choice(['end_cell', 'to_cell'])})
            if 'err' in r2['out']:
                return
        s = p.next
        p.call({'op': 'begin_parse', 'obj': c, 'new': s, 'via': rng.choice(['begin_parse', 'from_cell'])})
        for rd in schema:
            pr = dict(rd, op='preload', obj=s)
            if rd['what'] in ('ref',):
                pr = dict(rd, op='preload', obj=s)
            p.call(pr)
            r = p.call(dict(rd, op='load', obj=s))
            if 'err' in r['out']:
                return
        if snake is not None:
            p.call({'op': 'load_snake_bytes', 'obj': s, 'via': 'load_snake_string' if as_text and rng.random() < 0.7 else 'load_snake_bytes'})


def generate(tier, seed, ctx):
    rng = random.Random(seed)
    nbeh = 600 if tier == 'quick' else 6000
    shards = []
    per = 20
    pool = None
    for k in range(nbeh):
        if k % per == 0:
            pool = bk.Pool()
            shards.append(pool.records)
        else:
            pool.reset()
        s = Script(pool, rng)
        mode = rng.random()
        if mode < 0.12:
            n = rng.choice([0, 1, 2, 100, 126, 127, 128, 129, 1000, 5000])
            if rng.random() < 0.5:
                snake = [rng.getrandbits(8) for _ in range(n)]
            else:
                txt = ''
                while len(txt.encode()) < n:
                    txt += rng.choice('ab \u00e9\u0416\u20ac\u4e2d\U0001F600')
                snake = list(txt.encode())
            s.run(rng.randint(0, 3), snake=snake, prefill=rng.choice([0, 0, 7, 8, 500]))
        elif mode < 0.25:
            s.run(rng.randint(1, 4), prefill=rng.choice([700, 900, 1000, 1015, 1022]))
        else:
            s.run(rng.randint(1, 12))
    k = 0
    for sh in shards:
        for r in sh:
            k += 1
            r['i'] = k
    return shards


def make_canaries(shards, rng, want):
    return bk.make_bag_canaries(shards, rng, want, 'value')


def nontrivial_key(r):
    if r.get('op') != 'call':
        return None
    c = r['call']
    if not c['op'].startswith('store_'):
        return None
    return (c['op'], repr(sorted((k, repr(v)) for k, v in c.items() if k not in ('obj', 'new'))))
