"""C09 driver: dictionaries serialised and parsed back through every entry point, key form and insertion order."""
import random

import cellkit as ck
import hmkit as hk
import hmobjkit
from pytoniq_core.boc import Builder, Cell, Slice
from pytoniq_core.boc.address import Address
from pytoniq_core.boc.hashmap.hashmap import HashMap
from vlib import big, bitstr, bitstr_of_list

PROP = 'C09'
TRACE_MODULE = 'C09Trace.tla'
RULE = ('key sets: EVERY non-empty key set of width 3 (quick) / 4 (thorough) enumerated by TLC, plus wider sparse sets from TLC '
        '(W=16) and random single/dense/prefix-sharing/random sets at widths {1, 8, 32, 64, 256, 267, 1023}; each in up to 4 insertion '
        'orders, through HashMap.parse, HashMap.from_cell, load_dict, preload_dict, load_hashmap; key forms int, bytes, bit string, '
        'Address, hashed string; invalid keys {-1, -2^w, 2^w, 2^w+1, ...}; distinct = distinct (width, key set, form)')
ASSUMPTIONS = ['TonHashmap.ParseHeap is an independent reading of hm_edge/hml_*/hmn_* (model-checked against EdgeP for every key set and label policy)',
               'values are unsigned integers of 8..32 bits written by with_uint_values and read back as the leaf slice\'s remaining bits',
               'duplicate keys: the last value wins (dictionary semantics)']
EXHAUSTIVE = {'quick': False, 'thorough': False}


def _model_checks(tier):
    q = tier == 'quick'
    return [dict(name='hm3_g', module='MC_Hashmap.tla', gen=True, workers=4, cfg=hk.hm_cfg(3, range(8), 8, 'TRUE', '{"canon"}', invs=False)),
            dict(name='hm16_g', module='MC_Hashmap.tla', gen=True, workers=4,
                 cfg=hk.hm_cfg(16, [0, 1, 255, 256, 4660, 32768, 65535] if q else [0, 1, 2, 255, 256, 4660, 32767, 32768, 65535], 8, 'TRUE', '{"canon"}', invs=False)),
            dict(name='hm_m', module='MC_Hashmap.tla', workers=8, timeout=1500, cfg=hk.hm_cfg(3, range(8), 64 if q else 300, 'FALSE'))] + \
        ([] if q else [dict(name='hm4_g', module='MC_Hashmap.tla', gen=True, workers=8, timeout=1500,
                            cfg=hk.hm_cfg(4, range(16), 8, 'TRUE', '{"canon"}', invs=False)),
                       dict(name='hm4_m', module='MC_Hashmap.tla', workers=16, timeout=2400, cfg=hk.hm_cfg(4, range(16), 8, 'FALSE'))])


def model_checks(tier):
    import os
    return _model_checks(tier) + hmobjkit.model_checks(tier, int(os.environ.get('VERIF_SEED', '0') or 0))


def extra_generate(tier, seed, ctx, first_id):
    # HashMap OBJECT histories (TLC-simulated behaviours of MC_HmObj + seeded random walks), validated against TonHmObj
    return [('HmObjTrace.tla', hmobjkit.generate(tier, seed, ctx, first_id), hmobjkit.make_canaries)]


def parse_routes(cell, w, vw):
    out = []

    def norm(d):
        return [[big(k), bitstr(v.bits if isinstance(v, Slice) else v)] for k, v in d.items()]

    routes = {
        'parse': lambda: HashMap.parse(cell.begin_parse(), w),
        'from_cell': lambda: HashMap.from_cell(cell, w).map,
        'load_dict': lambda: Builder().store_dict(cell).end_cell().begin_parse().load_dict(w),
        'preload_dict': lambda: Builder().store_dict(cell).end_cell().begin_parse().preload_dict(w),
        'load_hashmap': lambda: cell.begin_parse().load_hashmap(w),
        # a caller-supplied key deserializer is handed the key as a bit string of the full key width
        'parse_key_deserializer': lambda: {(int(k, 2) if len(k) == w else (1 << w) + len(k)): v for k, v in
                                           HashMap.parse(cell.begin_parse(), w, key_deserializer=lambda b: b).items()},
        'load_dict_key_deserializer': lambda: {(int(k, 2) if len(k) == w else (1 << w) + len(k)): v for k, v in
                                               Builder().store_dict(cell).end_cell().begin_parse().load_dict(w, key_deserializer=lambda b: b).items()},
        'load_maybe_ref': lambda: HashMap.parse(Builder().store_maybe_ref(cell).end_cell().begin_parse().load_maybe_ref().begin_parse(), w),
    }
    # a peek does not consume: peek twice, then load, on a slice that holds another reference after the dictionary
    def peeks(which):
        other = Builder().store_uint(0xABCD, 16).end_cell()
        sl = Builder().store_uint(165, 8).store_dict(cell).store_ref(other).end_cell().begin_parse()
        sl.load_uint(8)
        first = sl.preload_dict(w)
        second = sl.preload_dict(w)
        loaded = sl.load_dict(w)
        return {'first': first, 'second': second, 'loaded': loaded}[which]
    routes['preload_first'] = lambda: peeks('first')
    routes['preload_second'] = lambda: peeks('second')
    routes['load_after_preloads'] = lambda: peeks('loaded')
    for via, f in routes.items():
        try:
            out.append({'via': via, 'pairs': norm(f())})
        except Exception as e:
            out.append({'via': via, 'err': type(e).__name__})
    return out


def dict_record(rng, w, form, items, vw, norders=3, with_hash=False, vform='uint'):
    """items: list of (raw key, spec key json, int key or None, value int); vform: which value helper of HashMap is used
    (uint / int: the same vw bits, written through with_uint_values / with_int_values; coins: with_coins_values)"""
    rec = {'op': 'dict', 'w': w, 'form': form, 'vw': vw, 'vform': vform,
           'items': [{'key': kj, 'v': bitstr_of_list([(v >> (vw - 1 - i)) & 1 for i in range(vw)])} for _, kj, v in items]}
    if vform == 'coins':
        for it, (_, _, v) in zip(rec['items'], items):
            it['coins'] = big(v)

    def new_map(**kw):
        hm = HashMap(w, **kw)
        return hm.with_uint_values(vw) if vform == 'uint' else hm.with_int_values(vw) if vform == 'int' else hm.with_coins_values()

    def val(v):
        return v - (1 << vw) if vform == 'int' and v >> (vw - 1) else v
    items = [(raw, kj, val(v)) for raw, kj, v in items]
    try:
        hashes = []
        cell = None
        for o in range(norders):
            order = list(items)
            if o:
                # shuffles must keep the relative order of equal keys (last wins): items have distinct keys in generated sets
                rng.shuffle(order)
            hm = new_map()
            for raw, _, v in order:
                if form == 'hashed':
                    hm.set(raw, v, hash_key=True)
                else:
                    hm.set(raw, v)
            c = hm.serialize()
            if c is None:
                cell = None
                break
            hashes.append(list(c.hash))
            cell = cell or c
        if form == 'int' and len(items) >= 2 and cell is not None and w <= 900:      # (wider: the intermediate maps need not fit a cell)
            # the same map grown in two steps on ONE object: serialise, add the last entry through the public set_int_key,
            # serialise again (also after overwriting an entry with a wrong value and putting the right one back)
            hm = new_map()
            for raw, _, v in items[:-1]:
                hm.set(raw, v)
            hm.serialize()
            hm.set_int_key(items[-1][0], items[-1][2])
            hashes.append(list(hm.serialize().hash))
            hm.set_int_key(items[0][0], items[0][2] ^ 1)
            hm.serialize()
            hm.set_int_key(items[0][0], items[0][2])
            hashes.append(list(hm.serialize().hash))
            # ... and changed through its public entry dictionary (the only way to delete a key), and through the dictionary it was
            # constructed over (map_=), between two serialisations
            spare = next((k for k in (0, 1, (1 << w) - 1, (1 << w) >> 1) if k not in hm.map), None)
            if spare is not None:
                hm.map[spare] = 1
                hm.serialize()
                del hm.map[spare]
                hashes.append(list(hm.serialize().hash))
            shared = {raw: v for raw, _, v in items[:-1]}
            hm2 = new_map(map_=shared)
            hm2.serialize()
            shared[items[-1][0]] = items[-1][2]
            hashes.append(list(hm2.serialize().hash))
        rec['hashes'] = hashes
        if cell is None:
            rec['out'] = {'none': 1}
            rec['parsed'] = []
        else:
            heap, roots, _ = ck.project([cell])
            rec['out'] = {'cell': heap, 'root': roots[0]}
            rec['parsed'] = parse_routes(cell, w, vw)
            if with_hash:
                rec['hash'] = list(cell.hash)
    except Exception as e:
        rec['out'] = {'err': type(e).__name__}
        rec['hashes'] = []
        rec['parsed'] = []
    return rec


def key_sets(rng, w, tier):
    top = (1 << w) - 1
    if w > 900:
        # a leaf must hold label + value in 1023 bits: at this width only keys whose labels compress (hml_same) are storable ...
        sets = [[0], [top], [0, top]]
        # ... or that share a long prefix: a fork holds no value, so its label may fill the cell to the last bit
        # (hml_long: 2 + 10 + n bits; n = 1011 is exactly 1023 bits; 1010 and the uniform prefixes next to it)
        for n in (1011, 1010, 1009):
            if w > n:
                pfx = rng.getrandbits(n) | (1 << (n - 1)) | 1
                pfx &= ~2                                 # not all-equal: the long form is the only one that fits
                rest = w - n - 1
                lo = (pfx << (rest + 1)) | (0 if rest == 0 else ((1 << rest) - 1))
                hi = (pfx << (rest + 1)) | (1 << rest)
                sets.append([lo, hi])
        return sets
    sets = [[0], [top], [rng.randint(0, top)]]
    if w >= 2:
        base = rng.randint(0, top >> 1)
        sets.append(sorted({min(top, base + i) for i in range(rng.choice([2, 5, 17]))}))
        sets.append(sorted({0, top}))
        sets.append(sorted({rng.getrandbits(w) for _ in range(rng.choice([2, 3, 8, 30]))}))
        # prefix sharing: keys that agree on a long prefix and differ late
        p = rng.getrandbits(w) & ~0xF
        sets.append(sorted({(p | i) & top for i in rng.sample(range(16), 5)}))
        sets.append(sorted({top, top - 1, top >> 1, 1, 0}))
    return sets


def generate(tier, seed, ctx):
    rng = random.Random(seed)
    q = tier == 'quick'
    out = []
    for name in sorted(n for n in ctx['mc'] if n.startswith('hm') and not n.startswith('hmobj')):
        for case in ctx['mc'][name]:
            if case['aug']:
                continue
            w = case['w']
            items = [(hk.bits_to_int(e['k']), big(hk.bits_to_int(e['k'])), hk.bits_to_int(e['v'])) for e in case['vals']]
            out.append(dict_record(rng, w, 'int', items, 8, norders=3 if len(items) > 1 else 1))
    # empty map
    for w in (1, 8, 267):
        out.append(dict_record(rng, w, 'int', [], 8))
    for rep in range(1 if q else 12):
        for w in (1, 2, 8, 32, 64, 256, 267, 900, 1012, 1023):
            for ks in key_sets(rng, w, tier):
                vw = rng.choice([8, 16, 32])
                items = [(k, big(k), rng.getrandbits(vw)) for k in ks]
                rng.shuffle(items)
                out.append(dict_record(rng, w, 'int', items, vw, with_hash=False, vform=rng.choice(['uint', 'int', 'coins'])))
        # key forms
        for w in (8, 16, 64, 256):
            ks = sorted({rng.getrandbits(w) for _ in range(6)} | {0, 1})
            nb = w // 8
            items = []
            for k in ks:
                raw = k.to_bytes(nb, 'big')
                if rng.random() < 0.3:
                    raw = raw.lstrip(b'\x00') or b'\x00'
                items.append((raw, list(raw), rng.getrandbits(8)))
            out.append(dict_record(rng, w, 'bytes', items, 8))
            items = []
            for k in ks:
                s = bin(k)[2:].rjust(rng.choice([1, w // 2, w]), '0')
                items.append((s, bitstr_of_list([int(c) for c in s]), rng.getrandbits(8)))
            out.append(dict_record(rng, w, 'bits', items, 8))
        items = []
        for _ in range(5):
            wc = rng.choice([-1, 0, 127, -128])
            h = bytes(rng.getrandbits(8) for _ in range(32))
            items.append((Address((wc, h)), {'kind': 'std', 'wc': wc, 'hash': list(h), 'any': []}, rng.getrandbits(16)))
        out.append(dict_record(rng, 267, 'addr', items, 16))
        items = [(s, list(s.encode()), rng.getrandbits(8)) for s in ['name', 'description', 'image', 'x' * rng.randint(1, 80), '']]
        out.append(dict_record(rng, 256, 'hashed', items, 8))
    # invalid and boundary keys
    for w in (1, 3, 8, 64, 256, 1023):
        for k in (-1, -(1 << w), 1 << w, (1 << w) + 1, (1 << w) - 1, 0, -(1 << (w - 1)) if w > 1 else -2, 1 << (w + 7)):
            # every public way an integer key enters the map: set(), set_int_key(), set() behind a key_serializer
            for via in ('set', 'set_int_key', 'key_serializer'):
                rec = {'op': 'badkey', 'w': w, 'form': 'int', 'key': big(k), 'via': via}
                try:
                    if via == 'set':
                        HashMap(w).with_uint_values(8).set(k, 5).serialize()
                    elif via == 'set_int_key':
                        HashMap(w).with_uint_values(8).set_int_key(k, 5).serialize()
                    else:
                        HashMap(w, key_serializer=lambda x: x).with_uint_values(8).set(k, 5).serialize()
                    rec['out'] = {'ok': 1}
                except Exception as e:
                    rec['out'] = {'err': type(e).__name__}
                out.append(rec)
        if w % 8 == 0:
            for raw in (b'\x01' + b'\x00' * (w // 8), b'\xff' * (w // 8), b'\x00' * (w // 8 + 3) + b'\x01'):
                rec = {'op': 'badkey', 'w': w, 'form': 'bytes', 'key': list(raw)}
                try:
                    HashMap(w).with_uint_values(8).set(raw, 5).serialize()
                    rec['out'] = {'ok': 1}
                except Exception as e:
                    rec['out'] = {'err': type(e).__name__}
                out.append(rec)
    return out


def canary(r, rng):
    if r['op'] != 'dict' or 'cell' not in r.get('out', {}) or not r['parsed'] or len(r['out']['cell']) > 80:
        return None
    p = [x for x in r['parsed'] if 'pairs' in x and x['pairs']]
    if not p:
        return None
    pr = rng.choice(p)['pairs']
    j = rng.randrange(len(pr))
    y = pr[j][1]['y']
    if not y:
        return None
    y[0] ^= 0x80
    r['canary'] = 'value bit'
    return r


def nontrivial_key(r):
    if r['op'] in ('hmcall', 'reset'):
        c = r.get('call')
        return None if c is None or c['op'] not in ('ser', 'parse') else ('hm', repr(r['post']), c['op'], c.get('via'))
    if r['op'] != 'dict' or len(r['items']) < 2:
        return None
    return (r['w'], r['form'], repr(sorted(repr(i['key']) for i in r['items'])))


def extra_coverage(flat, ctx):
    hm = [r for r in flat if r['op'] == 'hmcall']
    flat = [r for r in flat if r['op'] not in ('hmcall', 'reset')]
    ws = sorted({r['w'] for r in flat})
    return {'widths': ws, 'forms': sorted({r['form'] for r in flat}),
            'max_keys': max(len(r.get('items', [])) for r in flat), 'invalid_key_probes': sum(1 for r in flat if r['op'] == 'badkey'),
            'object_history_calls': len(hm), 'object_history_calls_from_tlc_behaviours': sum(1 for r in hm if 'tlc_behaviour' in r.get('tags', []))}
