"""Regenerate the seeded-change table of DESIGN.md (between the SEEDED-TABLE markers) from seeded/*/meta.json."""
import json, os, re
rows = []
for sid in sorted(os.listdir('/verif/seeded')):
    d = f'/verif/seeded/{sid}'
    if not os.path.isdir(d):
        continue
    m = json.load(open(f'{d}/meta.json'))
    needs = re.sub(r'\s+', ' ', m.get('needs', '')).strip()
    needs = re.sub(r'^Mutation \d+\s*[-:–—]*\s*', '', needs)
    det = ', '.join(k for k, v in (m.get('detected_by') or {}).items() if v) or '**not detected**'
    kinds = ''
    for c, r in (m.get('check_output') or {}).items():
        for l in r.get('lines', []):
            mm = re.search(r'failure kinds: (.*)', l)
            if mm:
                kinds = re.sub(r' x\d+', '', mm.group(1)).split(';')[0][:70]
                break
        if kinds:
            break
    rows.append(f"| {sid} | {needs[:150].replace('|', '/')} | {det} | {kinds.replace('|', '/')} | {'yes' if m.get('note') else ''} |")
table = ['| id | change (what it needs to manifest) | detected by (quick tier) | first failing clauses | check strengthened first |', '|---|---|---|---|---|'] + rows
p = '/verif/DESIGN.md'
s = open(p).read()
a, b = s.index('<!-- SEEDED-TABLE-BEGIN -->'), s.index('<!-- SEEDED-TABLE-END -->')
s = s[:a] + '<!-- SEEDED-TABLE-BEGIN -->\n' + '\n'.join(table) + '\n' + s[b:]
open(p, 'w').write(s)
print(len(rows), 'rows')
