"""Entry point: /verif/check <id> [--tier quick|thorough] [--replay <path>]

Flow per property (DESIGN.md section 3):
  M  model-check the property's specification modules (TLC, small constants, all cores)
  G  TLC-enumerated cases (printed by the same model-checking runs) handed to the driver
  drive the library on /repo's working tree along G-cases and seeded-random cases, record
  V  TLC validates every recorded step against the specification (sharded over JVMs)
  canary: corrupted copies of recorded steps must be rejected by the same validator
  report: KNOWN-FINDING / VIOLATION lines, replay file, evidence/<id>.json
Exit 0 = held on everything explored, 1 = violation, 2 = machinery failure.
"""
import argparse
import importlib
import json
import os
import random
import shutil
import sys
import time
import traceback
from concurrent.futures import ThreadPoolExecutor

sys.path.insert(0, os.path.dirname(os.path.abspath(__file__)))
REPO = os.environ.get('VERIF_REPO', '/repo')
sys.path.insert(0, REPO)
sys.setrecursionlimit(20000)

import vlib
from vlib import MachineryError, log


def run(prop_id, tier, seed, replay=None):
    t0 = time.time()
    mod = importlib.import_module('drivers.' + prop_id.lower())
    work = os.path.join(vlib.BUILD, prop_id)
    shutil.rmtree(work, ignore_errors=True)
    os.makedirs(work, exist_ok=True)
    only = None
    if replay:
        rp = json.load(open(replay))
        tier, seed, only = rp['tier'], rp['seed'], set(rp['ids'])
    mcs = mod.model_checks(tier)
    gen_mcs = [m for m in mcs if m.get('gen')]
    bg_mcs = [m for m in mcs if not m.get('gen')]
    pool = ThreadPoolExecutor(max_workers=max(1, len(mcs)))

    def do_mc(m):
        kw = {k: m[k] for k in ('workers', 'timeout', 'heap', 'expect_violation', 'simulate', 'extra') if k in m}
        return vlib.model_check(m['name'], m['module'], m['cfg'], work, **kw)

    bg = [] if replay else [pool.submit(do_mc, m) for m in bg_mcs]
    ctx = {'mc': {}, 'work': work, 'tier': tier, 'seed': seed}
    mc_results = []
    for m, f in [(m, pool.submit(do_mc, m)) for m in gen_mcs]:
        r = f.result()
        ctx['mc'][m['name']] = vlib.printed_json(r.pop('out', ''))
        r['generated_cases'] = len(ctx['mc'][m['name']])
        mc_results.append(r)
    log(f'[{prop_id}] G done {time.time() - t0:.1f}s: ' + ', '.join(f"{r['name']}={r['generated_cases']}" for r in mc_results))

    rng = random.Random(seed)
    try:
        records = mod.generate(tier, seed, ctx)
    except Exception as e:
        # the library blew up inside an observation the driver does not guard (e.g. hashing a live cell):
        # that is the library misbehaving, not the machinery -- but only if the innermost frames are library code
        tb = traceback.extract_tb(e.__traceback__)
        if any(REPO + '/pytoniq_core' in f.filename for f in tb[-4:]) and not isinstance(e, MachineryError):
            os.makedirs(vlib.REPLAYS, exist_ok=True)
            path = os.path.join(vlib.REPLAYS, f'{prop_id}-{tier}-{seed}.json')
            json.dump({'property': prop_id, 'tier': tier, 'seed': seed, 'ids': [],
                       'driver_crash_inside_library': traceback.format_exc()[-3000:]}, open(path, 'w'), indent=1)
            log(traceback.format_exc()[-1500:])
            print(f'VIOLATION property={prop_id} replay={path}')
            return 1
        raise
    shard_lists = records and isinstance(records[0], list)
    flat = [r for p in records for r in p] if shard_lists else records
    for k, r in enumerate(flat):
        r.setdefault('i', k + 1)
        r.setdefault('tags', [])
    if len({r['i'] for r in flat}) != len(flat):
        raise MachineryError('record ids not unique')
    if only is not None:
        if shard_lists:
            records = [p for p in records if any(r['i'] in only for r in p)]
            flat = [r for p in records for r in p]
        else:
            records = flat = [r for r in flat if r['i'] in only]
    log(f'[{prop_id}] driven {len(flat)} records {time.time() - t0:.1f}s')

    vkw = dict(timeout=getattr(mod, 'V_TIMEOUT', 1500), env=getattr(mod, 'V_ENV', None))
    bad, vstates, vtrans = vlib.validate(mod.TRACE_MODULE, records, os.path.join(work, 'v'), **vkw)

    # canaries: corrupted copies of records that PASSED; the same validator must reject each of them
    crng = random.Random(seed * 7919 + 13)
    want = getattr(mod, 'CANARIES', 6)
    if hasattr(mod, 'make_canaries'):
        clean = [p for p in records if not any(r['i'] in bad for r in p)] if shard_lists else [r for r in flat if r['i'] not in bad]
        canaries = mod.make_canaries(clean, crng, want)     # list of record lists, corrupted records carry 'canary'
    else:
        canaries = []
        cand = [r for r in flat if r['i'] not in bad]
        crng.shuffle(cand)
        for r in cand[:400]:
            if len(canaries) >= want:
                break
            c = mod.canary(json.loads(json.dumps(r)), crng)
            if c is not None:
                canaries.append(c)
    if not canaries and not replay and not bad:
        # (when records already fail, the validator is evidently not vacuous and the failures are reported)
        raise MachineryError('no canary could be built')
    if canaries:
        cparts = [c if isinstance(c, list) else [c] for c in canaries]
        cbad, _, _ = vlib.validate(mod.TRACE_MODULE, cparts, os.path.join(work, 'canary'), **vkw)
        for c in cparts:
            marked = [x for x in c if x.get('canary')]
            for x in marked or c:
                if x['i'] not in cbad:
                    raise MachineryError(f'canary accepted: corrupted record {x["i"]} ({x.get("canary")}) was not rejected')
    # further record streams of the same property that are validated against another trace specification (e.g. object histories
    # next to per-case records): (trace module, shards, canary maker)
    if hasattr(mod, 'extra_generate'):
        first = max([r['i'] for r in flat] + [0]) + 1
        for xi, (tm, xshards, mk_canary) in enumerate(mod.extra_generate(tier, seed, ctx, first)):
            if only is not None:
                xshards = [p for p in xshards if any(r.get('i') in only for r in p)]
            xflat = [r for p in xshards for r in p]
            for r in xflat:
                r.setdefault('tags', [])
            if not xflat:
                continue
            xbad, xs, xt = vlib.validate(tm, xshards, os.path.join(work, f'vx{xi}'), **vkw)
            vstates, vtrans = vstates + xs, vtrans + xt
            if not xbad and not replay:
                xc = mk_canary([p for p in xshards if not any(r.get('i') in xbad for r in p)], crng)
                if not xc:
                    raise MachineryError(f'no canary could be built for {tm}')
                cb, _, _ = vlib.validate(tm, xc, os.path.join(work, f'canaryx{xi}'), **vkw)
                for c in xc:
                    for x in [x for x in c if x.get('canary')]:
                        if x['i'] not in cb:
                            raise MachineryError(f'canary accepted by {tm}: corrupted record {x["i"]} ({x.get("canary")}) was not rejected')
                canaries = canaries + xc
            bad.update(xbad)
            flat = flat + xflat
    log(f'[{prop_id}] validated {time.time() - t0:.1f}s: {len(bad)} records with failed clauses')

    for f in bg:
        r = f.result()
        r.pop('out', None)
        mc_results.append(r)

    # classify
    from collections import Counter
    kinds = Counter(tuple(sorted(f)) for f in bad.values())
    if kinds:
        log(f'[{prop_id}] failure kinds: ' + '; '.join(f'{"+".join(k)} x{n}' for k, n in kinds.most_common(12)))
    mach = [(i, f) for i, f in bad.items() if any(c.startswith('MACHINERY_') for c in f)]
    if mach and len(mach) == len(bad):
        raise MachineryError(f'specification/harness inconsistency on records {mach[:5]}')
    if mach:
        # inputs are partly built with the library itself (hashes of cells used as stored hashes): when the library is broken
        # such inputs can disagree with their labels.  Records that fail on their own merits are reported; the others are set aside.
        log(f'[{prop_id}] {len(mach)} records set aside (their clauses could not be decided: input built with the library contradicts its label, or TLC cannot evaluate them): {mach[:3]}')
        for i, _ in mach:
            bad.pop(i)
    known = vlib.load_known(prop_id)
    by_id = {r['i']: r for r in flat}
    viol, kf = [], {}
    for i, failed in sorted(bad.items()):
        e = vlib.match_known(known, by_id[i], failed)
        if e:
            kf.setdefault(e['id'], [e, 0])[1] += 1
        else:
            viol.append((i, failed))
    for kid, (e, n) in sorted(kf.items()):
        print(f'KNOWN-FINDING: property={prop_id} {e["id"]}: {e["what"]} ({n} records)')
    rc = 0
    if viol:
        rc = 1
        os.makedirs(vlib.REPLAYS, exist_ok=True)
        path = os.path.join(vlib.REPLAYS, f'{prop_id}-{tier}-{seed}.json')
        json.dump({'property': prop_id, 'tier': tier, 'seed': seed, 'ids': [i for i, _ in viol][:200],
                   'failures': [{'i': i, 'failed': f, 'record': vlib.compact(by_id[i], 2000)} for i, f in viol[:25]]},
                  open(path, 'w'), indent=1)
        for i, f in viol[:10]:
            log(f'  record {i} op={by_id[i].get("op")} failed={f} rec={json.dumps(vlib.compact(by_id[i], 600))[:900]}')
        print(f'VIOLATION property={prop_id} replay={path}')

    # evidence
    keys = set()
    for r in flat:
        k = mod.nontrivial_key(r)
        if k is not None:
            keys.add(k)
    ops = {}
    for r in flat:
        ops[r.get('op', '?')] = ops.get(r.get('op', '?'), 0) + 1
    srng = random.Random(seed)
    samples = [vlib.compact(r) for r in srng.sample(flat, min(3, len(flat)))]
    mstates = sum(r['states'] for r in mc_results)
    mtrans = sum(r['transitions'] for r in mc_results)
    cov = dict(states=max(1, mstates + vstates), transitions=max(1, mtrans + vtrans),
               model_states=mstates, model_transitions=mtrans,
               trace_states=vstates,
               traces_validated_against_impl=len(flat), evaluations=len(flat), distinct_nontrivial=len(keys),
               rule=mod.RULE, samples=samples, exhaustive=bool(getattr(mod, 'EXHAUSTIVE', {}).get(tier, False)),
               model_checks=mc_results, records_by_op=ops, canaries_rejected=len(canaries),
               known_findings_hit=sorted(kf), failed_records=len(bad))
    extra = getattr(mod, 'extra_coverage', None)
    if extra:
        cov.update(extra(flat, ctx))
    if not replay:
        vlib.write_evidence(prop_id, tier, seed, cov, mod.ASSUMPTIONS, time.time() - t0, len(viol))
    log(f'[{prop_id}] done rc={rc} {time.time() - t0:.1f}s records={len(flat)} distinct={len(keys)} mc={[(r["name"], r["states"]) for r in mc_results]}')
    shutil.rmtree(work, ignore_errors=True)
    return rc


def main():
    ap = argparse.ArgumentParser()
    ap.add_argument('prop')
    ap.add_argument('--tier', default=os.environ.get('VERIF_TIER', 'quick'))
    ap.add_argument('--replay')
    a = ap.parse_args()
    seed = int(os.environ.get('VERIF_SEED', '0') or 0)
    try:
        rc = run(a.prop.upper(), a.tier if a.tier in ('quick', 'thorough') else 'quick', seed, a.replay)
    except MachineryError as e:
        log('MACHINERY FAILURE:', e)
        rc = 2
    except Exception:
        traceback.print_exc()
        rc = 2
    sys.stdout.flush()
    os._exit(rc)


if __name__ == '__main__':
    main()
