"""Regenerates MANIFEST.json from the table below (kept in one place so it is always valid)."""
import json, os
V = os.path.dirname(os.path.dirname(os.path.abspath(__file__)))
BASE = "cd /repo && env -u PYTONIQ_CORE_VERIF /venv/bin/python -m pytest -ra -q -p no:cacheprovider --timeout=900 --continue-on-collection-errors"
CHECKS = {
 'C18': dict(text="TLC evaluates the bit-serial catalogue definitions of CRC-16/XMODEM and CRC-32C (TonCrc) over every recorded "
                  "library output: all one-byte strings (every table entry), two-byte strings, structured and random strings to 4 KiB, crafted strings "
                  "to 64 KiB whose register is zero at every power-of-two boundary, byte order named by run-time string objects; "
                  "the definitions themselves are model-checked for linearity/burst detection and anchored on catalogue check values. "
                  "A pure function has no interesting state graph, so the model-checking part is small and the weight is on exhaustive "
                  "small scope + trace validation.",
             note="TonCrc transcription (anchored by ASSUME vectors); TLC; the 30-line recording driver",
             tech="TLA+ bit-serial CRC spec evaluated by TLC over recorded library outputs (trace validation) + TLC model check of CRC algebra",
             ref="8/C18"),
}
CHECKS['C01'] = dict(
    text="The TON representation hash/depth is an explicit TLA+ definition (TonCell over a pure-TLA+ SHA-256). TLC model-checks the DAG-growth "
         "machine (hash equality = structural equality, depth definition, level flatness) and enumerates every heap within the constants; each "
         "is replayed through nine construction routes (built, constructed, parsed, copied, converted from whole and partly read slices, ...) and TLC re-derives every reported hash/depth/equality from the recorded content. Random "
         "part covers every data length 0..1023, shared DAGs, a depth-1023 chain, foreign bags that store (right and wrong) hashes next to cells, "
         "and cell pairs whose hashes agree on a 32-bit window (equality and dictionary keys are decided by the whole hash).",
    note="TonSha/TonCell transcriptions (anchored by FIPS vectors, the symbolic-hash invariants and the bundled main-net block in C02); TLC; recording driver",
    tech="TLA+ cell-hash spec (pure-TLA+ SHA-256) model-checked by TLC; TLC-enumerated DAGs replayed into the library; recorded hashes validated by TLC",
    ref="8/C01")
CHECKS['C02'] = dict(
    text="Level masks and per-level hashes/depths of pruned, library, Merkle-proof and Merkle-update cells are defined in TonCell (transcription of "
         "DataCell::create). TLC checks pruning invariance, validity of the exotic constructors, mask laws and proof completeness on the DAG machine "
         "and on a directed pruning machine (symbolic and real hash), emits every reachable heap; the library builds and parses each and TLC "
         "re-derives mask/hash/depth at levels 0..3 of every cell, plus the 301-cell main-net block; parse routes include foreign bags that "
         "store hashes and depths next to special cells.",
    note="TonCell transcription; TLC; stored hashes of the random prunings come from the library (inputs only)",
    tech="TLA+ level-hash spec model-checked by TLC (pruning invariance); TLC-generated exotic DAGs replayed; recorded masks/hashes/depths validated by TLC",
    ref="8/C02")
CHECKS['C03'] = dict(
    text="to_boc/from_boc round trips are recorded for TLC-enumerated and random DAGs (ordinary and exotic, cell-count and payload-width "
         "boundaries, chains at the depth limit parsed under the interpreter's default recursion limit, pools of live cells under several roots) "
         "under all 6 option sets, three input forms and the cell/slice/builder entry points; TLC verifies that the parsed "
         "structure is isomorphic to the source (content, type, reference lists, recursively). The format itself (TonBoc) is model-checked: "
         "Decode(Encode(..)) = id under every encoder freedom.",
    note="TonBoc transcription; isomorphism maps are untrusted hints checked by TLC; content de-duplication of the source heap in the driver",
    tech="TLA+ BoC format spec model-checked by TLC; recorded round trips validated by TLC (structure isomorphism)", ref="8/C03")
CHECKS['C04'] = dict(
    text="Every byte string emitted by Cell.to_boc is decoded by the strict TLA+ decoder (header constraints, widths, forward references, "
         "distinct cells, completion tags, level-mask bits, cumulative/doubled index, CRC-32C, exact length) and must decode to the source "
         "DAG - also when the same live cells are emitted under several roots one after another. The decoder is model-checked against the spec encoder under all freedoms and against corruption (MC_Boc).",
    note="TonBoc.Decode is my reading of boc.tlb/boc.cpp; TonCrc anchored on catalogue vectors",
    tech="strict TLA+ BoC decoder evaluated by TLC on library output (trace validation) + TLC model check Decode/Encode", ref="8/C04")
CHECKS['C05'] = dict(
    text="TLC enumerates every encoding of every small DAG under all encoder freedoms (sizes, offset widths, index, cache bits, CRC, stored "
         "hashes with real SHA-256, 1-2 roots incl. repeated/non-first, every forward cell order, three magics, cells within 7 bits of the "
         "1023-bit limit under every count/offset width); the driver derives "
         "truncations, extensions, single-bit flips and reference corruptions; Cell.from_boc's result on each input is compared by TLC with "
         "Decode of the very same bytes, also when the same bytes are parsed again after the caller emptied the list the first parse returned. FlipDetected/TruncExtendErr/BadRefErr are model-checked on the format.",
    note="TonBoc transcription; corruption classes limited to those the property names; CRC re-sealing uses the library crc32c (validated by C18)",
    tech="TLC-generated encodings (spec -> code) + TLC validation of parser outcomes against the strict TLA+ decoder", ref="8/C05")
BAGNOTE = "TonBag.Do is my reading of the TL-B encodings and of capacity rules; TLC; the pool/projection driver (bagkit.py); Python exceptions of any class count as errors"
CHECKS['C06'] = dict(
    text="TonBag is an explicit state machine of the Builder/Slice/Cell pool with one action per public call; TLC model-checks it with scaled limits "
         "(RoundTrip, PeekEqLoad, Capacity, CellsImmutable, FrameOne, encoding lemmas over all small integers). Recorded library behaviours (typed "
         "stores with boundary values per width/byte class, all address forms, UTF-8 text with multi-byte characters, snake strings, then "
         "peek+load of each item) are validated step by step by TLC: bits written, values read back, nothing left, and what every builder / "
         "slice reports about its remaining room.",
    note=BAGNOTE, tech="TLA+ Builder/Slice state machine model-checked by TLC + trace validation of recorded call sequences (full state after every call)", ref="8/C06")
CHECKS['C07'] = dict(
    text="Same machine; the guard of every action (value fits its width, bits/refs fit the remaining capacity, enough bits/refs remain, depth <= 1023) "
         "is the specification of ok/err. Recorded stores at every fill level x ref level, out-of-range neighbours of every bound, over-reads on "
         "built/BoC-parsed/plain-bitarray cells (by one bit and far beyond, also at 1023 remaining bits), composite stores, the empty field (## 0), bit strings handed over in every iterable form "
         "(for forms without a length the call may be refused, but if accepted it is this store) and depth 1022..1024 are validated by TLC: refused "
         "iff it does not fit.",
    note=BAGNOTE, tech="TLA+ state machine guards decide ok/err; TLC trace validation of recorded boundary behaviours; TLC model check of Capacity", ref="8/C07")
CHECKS['C08'] = dict(
    text="Same machine; every action owns at most one object (FrameOne) and never a cell (CellsImmutable), model-checked by TLC. Random interleavings "
         "of 30-60 calls over a pool of derived objects are recorded with the full projection (bits, refs, hash, sha256 of to_boc) of every live "
         "object after every call - including cells read by the dictionary, message and VM-stack parsers (parse_as) and dictionaries returned by Cell.order that the caller reuses or empties; TLC checks the frame condition, immutability, argument preservation and history-independence.",
    note=BAGNOTE, tech="TLA+ frame conditions as action properties (TLC) + TLC-simulated behaviours of the machine replayed into the library + trace validation with full-state logging after every call", ref="8/C08")
CHECKS['C09'] = dict(
    text="TonHashmap defines the Patricia tree of a map and an independent parser for all label kinds; TLC checks Parse(Build(m)) = m for every "
         "key set of width 3 (4 thorough) under 7 label policies, plain and augmented. Every such key set, wider sparse sets and random sets "
         "up to width 1023 (incl. fork labels that fill a cell to the last bit) are serialised by the library in several insertion orders and parsed through six entry points; HashMap objects are edited, aliased over one dictionary and serialised again along behaviours TLC simulates from the object machine TonHmObj; TLC decodes the "
         "emitted cells itself and compares pairs, order, order-independence, emptiness and key-range rejection (through set, set_int_key "
         "and a key_serializer), for five key forms and three value helpers; one map object serialised, edited (set_int_key, its entry "
         "dictionary, the dictionary it was built over) and serialised again.",
    note="TonHashmap transcription of hm_edge/hml_*; values are 8..32-bit unsigned integers; key widths above 900 only with compressible keys (a leaf must fit a cell)",
    tech="TLA+ Hashmap spec model-checked by TLC over all key sets; TLC-enumerated maps replayed; recorded cells and parse results validated by TLC", ref="8/C09")
CHECKS['C10'] = dict(
    text="RefKind (transcribed append_dict_label) is model-checked equal to the declarative shortest-with-tie-break rule for every (n, m, same) "
         "up to the cfg bound; the library's label choice is observed through the emitted root cell for thousands of triples incl. every decision "
         "boundary; emitted cells must equal the canonical tree structurally (root hash recomputed by TLC on a sample); the plain and augmented "
         "parsers are run on every tree TLC builds for every key set x 7 label policies and on prunings of them, also as an inline field "
         "behind references that have been read already; every serialisation of a map must be the canonical tree.",
    note="RefKind transcription from memory of dict.cpp (cross-checked by the MinKind lemma); pruned branches carry library hashes (inputs)",
    tech="TLC lemma over all label triples + TLC-generated valid/non-canonical/pruned trees replayed into the parsers + TLC validation of results", ref="8/C10")
CHECKS['C11'] = dict(
    text="CheckProof / CheckBlockHeader / account and shard-block acceptance are TLA+ predicates over cells (TonProof, C11Trace). Soundness and completeness of CheckProof "
         "are model-checked with an injective symbolic hash over a bounded forgery space (every candidate body with any pruned token/depth vs "
         "every target tree); completeness and pruning invariance on the directed pruning machine. Genuine proofs (TLC-enumerated prunings, random "
         "DAGs, synthetic block/state/account scenarios incl. update children pruned twice, masterchain states with ShardHashes over two workchains) and some twenty families of forgeries (among them an altered cell arriving in a bag that stores the original hash next to it, a "
         "state smuggled through a hash slot the block hash does not cover, and absence claimed by pruning the path to an account) are run "
         "through the four library checks (generic, block header, account state, shard block) and TLC decides from the recorded cells, with real SHA-256, whether each had to be accepted; the "
         "specification states what commits the new state (UpdateCommitsNewState).",
    note="TonCell/TonProof transcriptions; proofs are assembled with the library Builder and library hashes (inputs only); proofs of absence are not demanded",
    tech="TLC model check of proof soundness (symbolic hash) + TLC validation of accept/reject outcomes on recorded genuine and forged proofs", ref="8/C11")
CHECKS['C12'] = dict(
    text="The signature loop is a TLA+ algorithm (Start/Take/Decide with seen-set) model-checked to refine the declarative supermajority rule for all "
         "validator sets <= 3 x weights 1..3 x signature sequences <= 3 (4 thorough); the variants without de-duplication or with >= are refuted "
         "(negative controls run on every check). The same sets/sequences, realised with real Ed25519 keys, are fed to check_block_signatures and "
         "TLC decides accept/reject per record (signature fields of 63/65/64+n bytes count as invalid; descriptors also taken from the library's "
         "parser with weights up to 2^64-1, compared in limb arithmetic; a member's signature listed under its ADNL address is an unknown signer; the signature list is passed as list, tuple, iterator or generator); node-id and to-sign layouts are recomputed by TLC (SHA-256).",
    note="Ed25519 itself is not specified: items are labelled valid/invalid/other/long/short/padded/foreign by construction with PyNaCl",
    tech="TLA+ quorum algorithm refinement model-checked by TLC (with negative controls) + TLC validation of recorded accept/reject outcomes", ref="8/C12")
CHECKS['C13'] = dict(
    text="TonAddr defines the raw and friendly text forms (tag, int8 workchain, CRC-16/XMODEM, both base64 alphabets). TLC proves ParseRender for all "
         "256 workchains x 8 variants x hash patterns and, via CRC linearity, that none of the 48 x 63 single-symbol error patterns has a zero "
         "syndrome (so every substitution of every address is detectable). The library renders/parses all workchains x variants - also from objects that were themselves parsed from each text form - and thousands of "
         "substituted texts; TLC compares rendered text byte for byte and decides acceptance of each text with its own parser.",
    note="TonAddr transcription; a substitution means a different 6-bit symbol in the variant's alphabet",
    tech="TLA+ address/CRC spec: TLC lemma over all substitution patterns + TLC validation of recorded render/parse results", ref="8/C13")
CHECKS['C19'] = dict(
    text="The ordering algorithm is a TLA+ machine with a step counter; TLC checks on every multigraph DAG <= 4 (5) cells and on double chains "
         "that it terminates (liveness under weak fairness), takes exactly n + e steps and emits a topological order. The library's work is "
         "measured in interpreter line events inside pytoniq_core for adversarial DAG families (double/quad chains to depth 60, ladders, "
         "trees, random shared DAGs, depth-1023 chain) and adversarial byte strings (BoC count fields, TL vector counts up to 2^32-1, TL "
         "bytes lengths, dictionary labels incl. labels longer than the remaining key); TLC checks work <= 50*(n+e+len)^2+2000 per record and, for parsers of byte strings, peak allocation <= 1 MiB + 8 KiB per input byte (memory sized by a count or length field is work too). A tracer aborts at the budget; the address space is capped around every measured call.",
    note="work = Python line events (not wall time); a 60 s per-call watchdog covers loops inside C code; bound constants are a judgement (quadratic allowance)",
    tech="TLA+ memoised-DFS machine model-checked by TLC (safety + termination) + TLC validation of recorded work counts against the polynomial bound", ref="8/C19")
CHECKS['C20'] = dict(
    text="Channel key selection, key ids, packet header and AES key/iv layout are TLA+ definitions with SHA-256 evaluated by TLC; the two-peer channel "
         "machine with symbolic DH/AES is model-checked (A.enc = B.dec, delivery, expected key id) for every id ordering incl. equal ids. Real "
         "channels for seeded key pairs (both orderings, forced equal ids), packets both ways, the signing helper with altered message/key/"
         "signature, datagrams held in bytes / bytearray / memoryview buffers and delivered twice, an entropy source that stays unlucky for thousands of candidates, sequences of packets on one channel pair all held until the end (a packet is a value), mnemonics generated with defaults / explicit count / password, and key-derivation histories (a function of mnemonic and salt, ground truth from hashlib) are "
         "recorded and validated by TLC.",
    note="X25519/Ed25519/AES/PBKDF2 are library primitives taken as ground truth (shared secret recomputed with nacl, reference ciphertext with Cryptodome)",
    tech="TLA+ two-peer channel machine with symbolic crypto model-checked by TLC + TLC validation of recorded keys/packets (SHA-256 in TLA+)", ref="8/C20")
CHECKS['C14'] = dict(
    text="TonTL gives the TL framing (LE ids and integers, 1/4-byte length prefixes with 4-byte padding, vectors, flag-conditional fields, bare/boxed "
         "objects) over schemas-as-data; TLC re-renders every bundled constructor to its declaration text and recomputes its CRC-32 id, checks "
         "injectivity and prefix-freeness of the encoding on a synthetic schema. For each of the ~730 supported bundled constructors (base value, "
         "flag combinations, string/bytes boundary lengths, texts that begin with a constructor id, vector lengths, polymorphic alternatives, boxed objects carried in bytes fields, the smallest encodings) the library's bytes must equal the spec's "
         "encoding and parse back to the same value consuming all bytes - on one long-lived schemas object with malformed nested input interleaved; BlockIdExt helpers on boundary values.",
    note="schema reader and dict<->value conversion in tlkit.py are glue (the reader is checked by TLC through Render and the id); text strings UTF-8; a raw bytes value that begins with a known constructor id is indistinguishable on the wire from the object it spells (MC_TL!NestedAmbiguity) and is not generated",
    tech="TLA+ TL encoding spec evaluated by TLC on recorded serialisations (trace validation) + TLC lemma (unique decodability) + TLC-checked schema transcription", ref="8/C14")
TLBNOTE = "TlbSchema.tla is a hand transcription of block.tlb; attribute-path aliases and representation normalisation live in tlbkit.py (glue); constructors are compared through the label table TlbSchema!Labels"
CHECKS['C15'] = dict(
    text="Messages are specified as logical values with the set of all placements (state-init inline/ref x body inline/ref) that fit a cell "
         "(TonMsg.Encodings over the TL-B interpreter; addresses incl. anycast). For ~2400 header x state-init x body combinations at the bit "
         "and reference boundary of EVERY placement TLC checks that the library's cell is one of the valid encodings and that serialisation "
         "does not fail when one exists, and the parser is run on EVERY fitting encoding produced by the specification; stand-alone wrappers "
         "(StateInit, CurrencyCollection, wallet v3/v4 and highload wallet data with its message dictionary, NFT data, HashUpdate) are compared "
         "with the spec encodings (every placement variant of nested messages) and parsed back; "
         "value-isolation histories (default-constructed / parsed values edited in place must not leak into later values).",
    note=TLBNOTE + "; serialisation direction restricted to canonical (minimal var-int) values",
    tech="TLA+ TL-B interpreter + message placement spec; TLC encodes driver-composed values (spec -> code) and validates recorded cells/fields (code -> spec)", ref="8/C15, 13")
CHECKS['C16'] = dict(
    text="A TL-B interpreter in TLA+ (schemas as data, generic encoder, generic DECODER, leaf flattener with the abstract value each leaf must "
         "parse to) over a transcription of 130 block.tlb types (all seven transaction descriptions and phases, Transaction, Account, "
         "ShardAccount, AccountBlock, InMsg x9, OutMsg x10, envelopes v1/v2, BlockInfo, ValueFlow x2, ShardDescr x2, ValidatorSet x2, "
         "McStateExtra, McBlockExtra, BlockExtra, Block, ShardStateUnsplit, every ConfigParam n, output action lists ...). TLC checks tag prefix-freeness and decode(encode(v)) = v on every generated "
         "value; it generates, per type, a zero and a rich base value, one-factor variations around both, every combination of optional "
         "parts, and (thorough) two-factor variations; the library parses each and TLC compares every leaf, the constructor label and the "
         "consumed bits/refs. The bundled main-net block is decoded by the specification and compared with the library's Block object.",
    note=TLBNOTE + "; types covered are listed in the evidence file; the Merkle update of the block is not transcribed; root extras of HashmapAugE are not exposed by the library and not compared",
    tech="TLC-generated TL-B values and encodings replayed into the parsers; recorded field values validated by TLC leaf by leaf; real block decoded by the TLA+ schema decoder", ref="8/C16, 13")
CHECKS['C17'] = dict(
    text="TonVm encodes stacks (VmStackList chaining, tinyint/int257 selection, tuples with VmTupleRef nil/single/any, cells, slices, builders, "
         "ten continuation kinds with full control data: nargs, saved stack, saved registers, codepage - zero values included). For hundreds "
         "of random and boundary stacks the library serialises twice with a snapshot of the caller's values in between; TLC checks the cell "
         "equals the spec encoding, the caller's values are unchanged and the second cell is equal (also after a nested value was edited in "
         "place between two serialisations); the library parses the specification's "
         "encoding twice (incl. non-canonical VmCellSlice windows) and TLC compares the values of both parses.",
    note="TonVm transcription; values whose encoding needs more than 4 references in one cell are not representable and nothing is demanded for them",
    tech="TLA+ VmStack encoder: TLC-encoded stacks replayed into the parser and recorded serialisations validated by TLC (incl. caller-state frame)", ref="8/C17, 13")
NOT_APPLICABLE = []
def main():
    checks = []
    for pid in sorted(CHECKS):
        c = CHECKS[pid]
        checks.append(dict(property_id=pid, quick_cmd=f"./check {pid} --tier quick", thorough_cmd=f"./check {pid} --tier thorough",
                           evidence_file=f"/verif/evidence/{pid}.json", replay_cmd_template=f"./check {pid} --replay {{path}}",
                           engine="tla-trace", level_claimed=dict(category="model_checking", text=c['text'], design_ref=c['ref']),
                           level_note=c['note'], technique=c['tech']))
    m = dict(version=1, setup_cmd="./setup.sh",
             hooks=dict(guard="PYTONIQ_CORE_VERIF", enable="export PYTONIQ_CORE_VERIF=1 (set by ./check; no source hooks exist: the library is sequential and its abstract state is readable through the public API)",
                        baseline_off_cmd=BASE, source_commits=[], add_only=True),
             engines=[dict(name="tla-trace", path="/verif/check", serves_properties=sorted(CHECKS),
                           kind_free_text="TLA+ specification (spec/*.tla) model-checked by TLC; TLC-generated cases replayed into the library; recorded library behaviour validated by TLC against the same specification")],
             checks=checks, not_applicable=NOT_APPLICABLE,
             notes="Exit 2 from a check means machinery failure (TLC error, canary accepted, spec invariant violated); it is never a verdict.")
    json.dump(m, open(os.path.join(V, 'MANIFEST.json'), 'w'), indent=1)
main()
