"""Building library cells from abstract heaps and projecting live cells back (shared by C01-C05, C11)."""
import random

from bitarray import bitarray

from pytoniq_core.boc import Builder, Cell
from pytoniq_core.boc.tvm_bitarray import TvmBitarray


def bits_of(c):
    """abstract cell {n, y} -> bitarray"""
    b = bitarray()
    b.frombytes(bytes(c['y']))
    return b[:c['n']]


def lib_type(t):
    return -1 if t == 0 else t


def build_cell(c, refs, route):
    bits = bits_of(c)
    if route == 'builder':
        b = Builder(type_=lib_type(c['t'])) if c['t'] != 0 else Builder()
        b.store_bits(bits)
        for r in refs:
            b.store_ref(r)
        return b.end_cell()
    if route == 'reuse':
        # the builder keeps being used after the cell was taken from it (more data, another reference, a second cell)
        b = Builder(type_=lib_type(c['t'])) if c['t'] != 0 else Builder()
        b.store_bits(bits)
        for r in refs:
            b.store_ref(r)
        cell = b.end_cell()
        try:
            if len(bits) < 1023:
                b.store_bit(1)
            if len(refs) < 4:
                b.store_ref(Builder().store_uint(5, 3).end_cell())
            b.end_cell()
        except Exception:
            pass
        return cell
    if route == 'ctor':
        tb = TvmBitarray(1023)
        tb.extend(bits)
        return Cell(tb, list(refs), lib_type(c['t']))
    if route == 'ctor_plain':
        return Cell(bitarray(bits), list(refs), lib_type(c['t']))
    if route == 'ctor_plain_le':
        # the same bit sequence held by a bit array with the other in-memory bit order (bitarray's endian='little'): still the same bits
        return Cell(bitarray(bits.tolist(), endian='little'), list(refs), lib_type(c['t']))
    raise ValueError(route)


def build_heap(heap, route='builder'):
    """-> list of Cell objects (index k-1 for heap cell k); raises what the library raises."""
    objs = []
    for c in heap:
        objs.append(build_cell(c, [objs[j - 1] for j in c['r']], route))
    return objs


def abstract(cell):
    t = cell.type_
    ba = bitarray(cell.bits)
    return {'t': 0 if t == -1 else t, 'n': len(ba), 'y': list(ba.tobytes())}


def project(roots):
    """live cells -> (heap children-first with identity de-duplication, index of each root, objects)."""
    idx, heap, objs = {}, [], []
    for root in roots:
        stack = [(root, 0)]
        while stack:
            c, j = stack.pop()
            if id(c) in idx:
                continue
            if j < len(c.refs):
                stack.append((c, j + 1))
                if id(c.refs[j]) not in idx:
                    stack.append((c.refs[j], 0))
            else:
                a = abstract(c)
                a['r'] = [idx[id(r)] for r in c.refs]
                heap.append(a)
                objs.append(c)
                idx[id(c)] = len(heap)
    return heap, [idx[id(r)] for r in roots], objs


def observe(cell, with_repr=True):
    o = {'hash': list(cell.hash), 'lh': [list(cell.get_hash(l)) for l in range(4)],
         'ld': [cell.get_depth(l) for l in range(4)], 'mask': cell.level_mask.mask}
    if with_repr:
        try:
            o['repr'] = {'ok': list(cell.calculate_representation_hash())}
        except Exception as e:
            o['repr'] = {'err': type(e).__name__}
        try:
            o['reprb'] = list(cell.get_representation())
            o['desc'] = list(cell.get_descriptors(cell.level_mask))
            o['databytes'] = list(cell.get_data_bytes())
        except Exception as e:
            o['reprb'], o['desc'], o['databytes'] = [], [], []
    return o


def pairs_of(objs, rng, limit=24):
    n = len(objs)
    allp = [(a, b) for a in range(n) for b in range(a, n)]
    if len(allp) > limit:
        allp = rng.sample(allp, limit)
    out = []
    for a, b in allp:
        ca, cb = objs[a], objs[b]
        out.append([a + 1, b + 1, int(ca == cb), int(len({ca: 1, cb: 2}) == 1)])
    return out


def rand_bits(rng, n, pat=None):
    pat = pat or rng.choice(['rand', 'zeros', 'ones', 'alt', 'msb', 'lsb'])
    if pat == 'zeros':
        bits = [0] * n
    elif pat == 'ones':
        bits = [1] * n
    elif pat == 'alt':
        bits = [(i + 1) % 2 for i in range(n)]
    elif pat == 'msb':
        bits = [1] + [0] * (n - 1) if n else []
    elif pat == 'lsb':
        bits = [0] * (n - 1) + [1] if n else []
    else:
        bits = [rng.getrandbits(1) for _ in range(n)]
    return bits


def acell(bits, refs, t=0):
    n = len(bits)
    by = bytearray((n + 7) // 8)
    for i, b in enumerate(bits):
        if b:
            by[i // 8] |= 0x80 >> (i % 8)
    return {'t': t, 'n': n, 'y': list(by), 'r': list(refs)}


def rand_heap(rng, ncells, lens, max_refs=4, share=0.5):
    heap = []
    for k in range(ncells):
        n = rng.choice(lens) if not callable(lens) else lens(k)
        nr = rng.randint(0, min(max_refs, k)) if k else 0
        refs = []
        for _ in range(nr):
            if refs and rng.random() < share * 0.3:
                refs.append(rng.choice(refs))
            else:
                refs.append(rng.randint(max(1, k - 6), k))
        heap.append(acell(rand_bits(rng, n), refs))
    return heap


def dedup(heap, roots):
    """content-canonical form of a children-first heap: equal cells (same type, bits and equal children) become one.
    Pure function of the recorded content; no library value is used."""
    canon, key_to_idx, out = [], {}, []
    for c in heap:
        key = (c['t'], c['n'], bytes(c['y']), tuple(canon[j - 1] for j in c['r']))
        if key not in key_to_idx:
            out.append({'t': c['t'], 'n': c['n'], 'y': list(c['y']), 'r': [canon[j - 1] for j in c['r']]})
            key_to_idx[key] = len(out)
        canon.append(key_to_idx[key])
    return out, [canon[r - 1] for r in roots]
