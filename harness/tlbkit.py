"""TL-B glue for C15/C16/C17: build cells from the interpreter's trees, walk library objects along the leaf paths the
specification produced, and normalise what is found into the abstract leaf values (comparison itself is TLC's)."""
from bitarray import bitarray

from pytoniq_core.boc import Builder, Cell, Slice
from pytoniq_core.boc.address import Address, ExternalAddress
from vlib import big


def tree_to_cell(t):
    b = Builder().store_bits(bitarray(t['b']))
    for kid in t['r']:
        b.store_ref(tree_to_cell(kid))
    return b.end_cell()


def cell_tree(c):
    if isinstance(c, Slice):
        return {'b': bitarray(c.bits).tolist(), 'r': [cell_tree(x) for x in c.refs[c.ref_offset:]]}
    return {'b': bitarray(c.bits).tolist(), 'r': [cell_tree(x) for x in c.refs]}


# names the library uses where block.tlb uses another one; '' = the library flattens this level into its parent
ALIAS = {
    'seq_no': ['seq_no', 'seqno'], 'rest': [''], 'a': [''], 'b': [''], 'state_init': ['state_init', ''],
    'storage_ph': ['storage_ph', 'storage'], 'credit_ph': ['credit_ph', 'credit'], 'compute_ph': ['compute_ph', 'compute'],
    'cc': [''], 'prev': ['prev', ''], 'master': ['master', ''], 'blk_ref': ['blk_ref', ''], 'vert_seq_no': ['vert_seq_no', 'vert_seqno'],
}
# schema fields the library reads but does not expose (nothing to compare)
UNEXPOSED = {('CatchainConfig', 'flags')}


def get_attr(cur, name):
    for a in ALIAS.get(name, [name]):
        if a == '':
            return True, cur
        if isinstance(cur, dict) and a in cur:
            return True, cur[a]
        if hasattr(cur, a):
            return True, getattr(cur, a)
    return False, None


def norm(kind, expected, val):
    """library value -> abstract leaf value in the shape of `expected` (only representation, never content)"""
    if kind == 'None':
        return {'none': 1} if val is None else {'present': 1}
    if kind == 'Count':
        if val is None:
            return {'count': 0}
        try:
            return {'count': len(val)}
        except TypeError:
            return {'unexpected': type(val).__name__}
    if val is None:
        return {'none': 1}
    if kind in ('U', 'I', 'Leq', 'VarU', 'VarI'):
        if isinstance(val, (bool, int)):
            return {'int': big(int(val))}
        return {'unexpected': type(val).__name__}
    if kind == 'Bool':
        return {'bool': int(bool(val))} if isinstance(val, (bool, int)) else {'unexpected': type(val).__name__}
    if kind == 'Bits':
        if 'bytes' in expected:
            if isinstance(val, (bytes, bytearray)):
                return {'bytes': list(val)}
            if isinstance(val, str):
                return {'bytes': list(bytes.fromhex(val))}
            if isinstance(val, int) and not isinstance(val, bool) and val >= 0:
                return {'bytes': list(val.to_bytes(len(expected['bytes']), 'big'))}
            if hasattr(val, 'tobytes'):
                return {'bytes': list(val.tobytes())}
        else:
            if isinstance(val, (bool, int)):
                return {'int': big(int(val))}
            if hasattr(val, 'to01'):
                return {'int': big(int(val.to01() or '0', 2))}
        return {'unexpected': type(val).__name__}
    if kind == 'AddrInt':
        if isinstance(val, Address):
            return {'addr': {'wc': val.wc, 'hash': list(val.hash_part)}}
        return {'unexpected': type(val).__name__}
    if kind == 'AddrExt':
        if isinstance(val, ExternalAddress):
            return {'ext': {'len': val.len, 'v': big(val.external_address or 0)}}
        return {'unexpected': type(val).__name__}
    if kind == 'Dict':
        d = getattr(val, 'dict', val)
        if d is None:
            return {'none': 1}
        return {'dict': [[big(k), big(v)] for k, v in d.items()]}
    if kind == 'Cell':
        if isinstance(val, (Cell, Slice)):
            return {'cell': cell_tree(val)}
        return {'unexpected': type(val).__name__}
    if kind == 'Count':
        if val is None:
            return {'count': 0}
        try:
            return {'count': len(val)}
        except TypeError:
            return {'unexpected': type(val).__name__}
    return {'skip': 1}


def observe(obj, flat, ty=None):
    """-> list of abstract values, one per leaf, found by walking the library object along the leaf's path"""
    out = []
    cursors = {}             # path prefix -> [dict, sorted keys, index]
    for leaf in flat:
        path, kind = leaf['path'], leaf['k']
        if kind == 'Ctor' or (ty, path[-1] if path else '') in UNEXPOSED:
            out.append({'skip': 1})
            continue
        cur, ok = obj, True
        i = 0
        while i < len(path):
            name = path[i]
            if name in ('#key', '#val'):
                pre = tuple(path[:i])
                if pre not in cursors:
                    d = getattr(cur, 'dict', cur) or {}
                    if isinstance(d, list):
                        d = dict(enumerate(d))
                    cursors[pre] = [d, sorted(d), -1]
                c = cursors[pre]
                if name == '#key' and i == len(path) - 1:
                    c[2] += 1
                if c[2] >= len(c[1]):
                    ok = False
                    break
                cur = c[1][c[2]] if name == '#key' else c[0][c[1][c[2]]]
            else:
                ok, cur = get_attr(cur, name)
                if not ok:
                    break
                if cur is None and i < len(path) - 1:
                    break
            i += 1
        if not ok:
            out.append({'missing': 1})
        elif kind == 'Count':
            out.append(norm('Count', leaf['a'], cur))
        elif kind == 'Key':
            out.append({'int': big(int(cur))})
        elif kind == 'VarU' and path and path[-1] == 'grams' and not isinstance(cur, int):
            out.append(norm('VarU', leaf['a'], getattr(cur, 'grams', cur)))
        else:
            out.append(norm(kind, leaf['a'], cur))
    return out
