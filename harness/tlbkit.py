"""TL-B glue for C15/C16/C17: build cells from the interpreter's trees, walk library objects along the leaf paths the
specification produced, and normalise what is found into the abstract leaf values (comparison itself is TLC's)."""
from bitarray import bitarray

from pytoniq_core.boc import Builder, Cell, Slice
from pytoniq_core.boc.address import Address, ExternalAddress
from vlib import big


def tree_to_cell(t):
    b = Builder().store_bits(bitarray(t['b']))
    for kid in t['r']:
        b.store_ref(tree_to_cell(kid))
    return b.end_cell()


def cell_tree(c):
    if isinstance(c, Slice):
        return {'b': bitarray(c.bits).tolist(), 'r': [cell_tree(x) for x in c.refs[c.ref_offset:]]}
    return {'b': bitarray(c.bits).tolist(), 'r': [cell_tree(x) for x in c.refs]}


def cell_tree_t(c):
    """cell tree that also carries the exotic cell type (t) where there is one (for the specification's decoder)"""
    t = {'b': bitarray(c.bits).tolist(), 'r': [cell_tree_t(x) for x in c.refs]}
    if c.type_ != -1:
        t['t'] = c.type_
    return t


# names the library uses where block.tlb uses another one; '' = the library flattens this level into its parent
ALIAS = {
    'seq_no': ['seq_no', 'seqno'], 'rest': [''], 'a': [''], 'b': [''], 'state_init': ['state_init', ''],
    'storage_ph': ['storage_ph', 'storage'], 'credit_ph': ['credit_ph', 'credit'], 'compute_ph': ['compute_ph', 'compute'],
    'cc': [''], 'r1': [''], 'prices': ['prices', ''], 'shard_fees_extra': [''], 'external_chain_address': ['external_chain_address', 'external_chain_address_hex'], 'prev': ['prev', ''], 'master': ['master', ''], 'blk_ref': ['blk_ref', ''], 'vert_seq_no': ['vert_seq_no', 'vert_seqno'], 'd': [''],
}
# schema fields the library reads but does not expose (nothing to compare)
UNEXPOSED = {('CatchainConfig', 'flags')}
# ... and whole sub-values it skips over: every leaf below such a path element
UNEXPOSED_BELOW = {'shard_fees_extra'}


def get_attr(cur, name):
    for a in ALIAS.get(name, [name]):
        if a == '':
            return True, cur
        if isinstance(cur, dict) and a in cur:
            return True, cur[a]
        if hasattr(cur, a):
            return True, getattr(cur, a)
    return False, None


def norm(kind, expected, val):
    """library value -> abstract leaf value in the shape of `expected` (only representation, never content)"""
    if kind == 'None':
        return {'none': 1} if val is None else {'present': 1}
    if kind == 'Present':
        return {'none': 1} if val is None else {'present': 1}
    if kind == 'Count':
        if val is None:
            return {'count': 0}
        if isinstance(getattr(val, 'list', None), list):
            val = val.list
        elif hasattr(val, 'dict') and not isinstance(val, dict):
            val = val.dict or {}
        try:
            return {'count': len(val)}
        except TypeError:
            return {'unexpected': type(val).__name__}
    if val is None:
        return {'none': 1}
    if kind in ('U', 'I', 'Leq', 'VarU', 'VarI'):
        if isinstance(val, (bool, int)):
            return {'int': big(int(val))}
        return {'unexpected': type(val).__name__}
    if kind == 'Bool':
        return {'bool': int(bool(val))} if isinstance(val, (bool, int)) else {'unexpected': type(val).__name__}
    if kind == 'Bits':
        if 'bytes' in expected:
            if isinstance(val, (bytes, bytearray)):
                return {'bytes': list(val)}
            if isinstance(val, str):
                return {'bytes': list(bytes.fromhex(val))}
            if isinstance(val, int) and not isinstance(val, bool) and val >= 0:
                return {'bytes': list(val.to_bytes(len(expected['bytes']), 'big'))}
            if hasattr(val, 'tobytes'):
                return {'bytes': list(val.tobytes())}
        else:
            if isinstance(val, (bool, int)):
                return {'int': big(int(val))}
            if hasattr(val, 'to01'):
                return {'int': big(int(val.to01() or '0', 2))}
        return {'unexpected': type(val).__name__}
    if kind == 'AddrInt':
        if isinstance(val, Address):
            ac = getattr(val, 'anycast', None)
            return {'addr': {'wc': val.wc, 'hash': list(val.hash_part),
                             'any': [] if ac is None else [{'len': ac.depth, 'v': big(ac.rewrite_pfx)}]}}
        return {'unexpected': type(val).__name__}
    if kind == 'AddrExt':
        if isinstance(val, ExternalAddress):
            return {'ext': {'len': val.len, 'v': big(val.external_address or 0)}}
        return {'unexpected': type(val).__name__}
    if kind == 'Dict':
        d = getattr(val, 'dict', val)
        if d is None:
            return {'none': 1}
        return {'dict': [[big(k), big(v)] for k, v in d.items()]}
    if kind == 'Cell':
        if isinstance(val, (Cell, Slice)):
            return {'cell': cell_tree(val)}
        return {'unexpected': type(val).__name__}
    if kind == 'Count':
        if val is None:
            return {'count': 0}
        try:
            return {'count': len(val)}
        except TypeError:
            return {'unexpected': type(val).__name__}
    return {'skip': 1}


def _dict_of(cur):
    """the mapping inside a parsed dictionary value: plain dict, wrapper with .dict, (dict, extras) pair of an augmented
    dictionary, or a list (keys dropped by the library: positions stand in for them)"""
    if isinstance(cur, tuple) and len(cur) == 2 and isinstance(cur[0], dict):
        return cur[0], True
    d = getattr(cur, 'dict', cur)
    if d is cur and isinstance(getattr(cur, 'list', None), list):
        d = cur.list                              # BinTree: the list of its leaves
    if d is None:
        return {}, True
    if isinstance(d, list):
        return dict(enumerate(d)), False          # keys are not observable
    return d, True


def walk(obj, path, cursors, ty=None):
    """-> (found, value) following block.tlb field names (with ALIAS) and dictionary cursors"""
    cur = obj
    i = 0
    while i < len(path):
        name = path[i]
        if name in ('#key', '#val'):
            pre = tuple(path[:i])
            if pre not in cursors:
                d, keyed = _dict_of(cur)
                if not isinstance(d, dict):
                    return False, None
                # ascending order of the key BIT STRINGS: signed keys (config parameter ids) sort their negatives last
                cursors[pre] = [d, sorted(d, key=lambda z: z if not isinstance(z, int) or z >= 0 else z + (1 << 300)), -1, keyed]
            c = cursors[pre]
            if name == '#key' and i == len(path) - 1:
                c[2] += 1
                for k2 in [k2 for k2 in cursors if len(k2) > len(pre) and k2[:len(pre)] == pre]:
                    del cursors[k2]          # dictionaries nested in the previous entry's value are other objects
            if c[2] >= len(c[1]):
                return False, None
            if name == '#key':
                cur = c[1][c[2]] if c[3] else KeyHidden
            else:
                cur = c[0][c[1][c[2]]]
        else:
            ok, cur = get_attr(cur, name)
            if not ok:
                return False, None
            if cur is None and i < len(path) - 1:
                return True, None                  # an absent object on the way: everything below is absent
        i += 1
    return True, cur


class KeyHidden:
    pass


def observe(obj, flat, ty=None):
    """-> list of abstract values, one per leaf, found by walking the library object along the leaf's path"""
    out = []
    cursors = {}             # path prefix -> [dict, sorted keys, index, keys observable]
    for leaf in flat:
        path, kind = leaf['path'], leaf['k']
        if (ty, path[-1] if path else '') in UNEXPOSED or any(x in UNEXPOSED_BELOW for x in path):
            out.append({'skip': 1})
            continue
        ok, cur = walk(obj, path, cursors, ty)
        if not ok:
            out.append({'missing': 1})
        elif kind == 'Ctor':
            if cur is None:
                out.append({'none': 1})
            elif isinstance(getattr(cur, 'type_', None), str):
                out.append({'label': cur.type_})
            else:
                out.append({'skip': 1})
        elif kind == 'Count':
            if isinstance(cur, tuple) and len(cur) == 2 and isinstance(cur[0], dict):
                cur = cur[0]
            out.append(norm('Count', leaf['a'], cur))
        elif kind == 'Key':
            out.append({'skip': 1} if cur is KeyHidden else {'int': big(int(cur))})
        elif kind == 'AugExtras':
            ex = cur[1] if isinstance(cur, tuple) and len(cur) == 2 else None
            if isinstance(cur, tuple) and len(cur) == 2 and cur[0] == {}:
                out.append({'skip': 1})      # empty HashmapAugE: the library hands back the unparsed root extra, nothing to compare
            elif not isinstance(ex, list):
                out.append({'unexpected': type(cur).__name__})
            else:
                want = leaf['a']['extras']
                out.append({'extras': [observe(e, want[j], None) if j < len(want) else [] for j, e in enumerate(ex)]})
        elif kind == 'VarU' and path and path[-1] == 'grams' and not isinstance(cur, int):
            out.append(norm('VarU', leaf['a'], getattr(cur, 'grams', cur)))
        else:
            out.append(norm(kind, leaf['a'], cur))
    return out


def drain(sl):
    """the caller reads on: whatever is left of the slice a parser was given is consumed (the object the parser returned is a value
    of its own - it does not change because its source slice is read further)"""
    try:
        if sl.remaining_bits:
            sl.load_bits(sl.remaining_bits)
        while sl.remaining_refs:
            sl.load_ref()
    except Exception:
        pass


def scramble_object(obj, depth=0, seen=None):
    """what a caller may do with an object a parser handed over: strip it bare, recursively (a later parse starts from the cell)"""
    seen = seen if seen is not None else set()
    if depth > 12 or id(obj) in seen or obj is None:
        return
    seen.add(id(obj))
    if isinstance(obj, dict):
        for v in list(obj.values()):
            scramble_object(v, depth + 1, seen)
        obj.clear()
    elif isinstance(obj, list):
        for v in obj:
            scramble_object(v, depth + 1, seen)
        del obj[:]
    elif hasattr(obj, '__dict__') and type(obj).__module__.startswith('pytoniq_core.tlb'):
        for v in list(vars(obj).values()):
            scramble_object(v, depth + 1, seen)
        vars(obj).clear()
