"""Which lines of the library do the checks execute?   usage: libcov.py <tier> <id> [<id> ...]   (report: libcov.py report)

Runs harness/main.py for each property under coverage.py (source = $VERIF_REPO/pytoniq_core, branch coverage) and keeps the data
under build/libcov/.  A development aid: it shows which library behaviour no check drives yet (the to-do list for growing the
specification); it is not part of any verdict and is not registered in MANIFEST.json."""
import os
import subprocess
import sys

HERE = os.path.dirname(os.path.abspath(__file__))
VERIF = os.path.dirname(HERE)
REPO = os.environ.get('VERIF_REPO', '/repo')
OUT = os.path.join(VERIF, 'build', 'libcov')
BOOT = r'''
import coverage, os, sys
cov = coverage.Coverage(data_file=os.environ['LIBCOV_DATA'], source=[os.environ['LIBCOV_SRC']], branch=True)
cov.start()
_exit = os._exit
def _stop(rc):
    cov.stop(); cov.save(); _exit(rc)
os._exit = _stop
sys.argv = ['main.py'] + sys.argv[1:]
sys.path.insert(0, os.environ['LIBCOV_HARNESS'])
import runpy
runpy.run_path(os.path.join(os.environ['LIBCOV_HARNESS'], 'main.py'), run_name='__main__')
'''


def main():
    os.makedirs(OUT, exist_ok=True)
    if sys.argv[1] == 'report':
        import coverage
        files = [os.path.join(OUT, f) for f in os.listdir(OUT) if f.startswith('data.')]
        cov = coverage.Coverage(data_file=os.path.join(OUT, 'combined'), branch=True)
        cov.combine(files, keep=True)
        cov.save()
        cov.report(show_missing=True, file=sys.stdout, skip_empty=True)
        return
    tier = sys.argv[1]
    for pid in sys.argv[2:]:
        env = dict(os.environ, LIBCOV_DATA=os.path.join(OUT, 'data.' + pid), LIBCOV_SRC=os.path.join(REPO, 'pytoniq_core'),
                   LIBCOV_HARNESS=HERE, VERIF_REPO=REPO, PYTHONPATH=REPO, PYTHONHASHSEED='0', PYTHONDONTWRITEBYTECODE='1', PYTONIQ_CORE_VERIF='1')
        p = subprocess.run(['/venv/bin/python', '-u', '-c', BOOT, pid, '--tier', tier], cwd=VERIF, env=env,
                           stdout=subprocess.PIPE, stderr=subprocess.STDOUT, text=True)
        print(pid, 'rc=%d' % p.returncode, p.stdout.strip().splitlines()[-1][:200] if p.stdout.strip() else '', flush=True)


if __name__ == '__main__':
    main()
