"""Shared machinery: TLC runner, trace sharding/validation, canary, known findings, evidence.

The only verdict path is TLC evaluating the TLA+ specification over recorded traces; this
module moves data and never judges a record itself.
"""
import json
import os
import random
import re
import shutil
import subprocess
import sys
import threading
import time
from concurrent.futures import ThreadPoolExecutor

VERIF = os.path.dirname(os.path.dirname(os.path.abspath(__file__)))
SPEC = os.path.join(VERIF, 'spec')
BUILD = os.path.join(VERIF, 'build')
EVID = os.path.join(VERIF, 'evidence')
REPLAYS = os.path.join(VERIF, 'replays')
KNOWN = os.path.join(VERIF, 'KNOWN_FINDINGS.jsonl')
JARS = '/opt/veriftools/tla/tla2tools.jar:/opt/veriftools/tla/CommunityModules-deps.jar'
LIBPATH = os.pathsep.join([SPEC, os.path.join(SPEC, 'mc'), os.path.join(SPEC, 'trace')])
NCPU = os.cpu_count() or 4


class MachineryError(Exception):
    """TLC failed, a canary was accepted, a spec invariant broke: exit 2, never a verdict."""


def log(*a):
    print(*a, file=sys.stderr, flush=True)


class LibraryRecursion(Exception):
    """the library exhausted the interpreter stack a user's program would have (an error outcome of the call, not a machinery failure)"""


class user_stack:
    """Run library calls with the interpreter's DEFAULT recursion limit (1000 frames above a shallow caller).  The harness itself
    runs with a raised limit (its own helpers recurse over deep DAGs); without this a parser that recurses once per tree level
    would pass here and fail in every user's program on a legal depth-1023 tree."""

    def __enter__(self):
        self.old = sys.getrecursionlimit()
        d, f = 0, sys._getframe()
        while f is not None:
            d, f = d + 1, f.f_back
        sys.setrecursionlimit(d + 985)
        return self

    def __exit__(self, et, ev, tb):
        sys.setrecursionlimit(self.old)
        if et is not None and issubclass(et, RecursionError):
            raise LibraryRecursion(str(ev)) from None
        return False


# ------------------------------------------------------------------ TLC
_STATS = re.compile(r'(\d+) states generated, (\d+) distinct states found, (\d+) states left')
_DEPTH = re.compile(r'The depth of the complete state graph search is (\d+)')


def tlc(module, cfg, workdir, env=None, workers=1, timeout=600, simulate=None, extra=(), heap='2g',
        deadlock=False, stack='256m'):
    """Run TLC on spec module `module` (a path) with config text `cfg`.

    Returns dict(rc, out, generated, distinct, depth, wall).  Raises MachineryError on timeout.
    """
    os.makedirs(workdir, exist_ok=True)
    cfg_path = os.path.join(workdir, os.path.basename(module).replace('.tla', '') + '.cfg')
    with open(cfg_path, 'w') as f:
        f.write(cfg)
    meta = os.path.join(workdir, 'meta')
    shutil.rmtree(meta, ignore_errors=True)
    cmd = ['java', '-XX:+UseSerialGC' if workers == 1 else '-XX:+UseParallelGC', '-Xss' + stack, '-Xmx' + heap,
           '-DTLA-Library=' + LIBPATH, '-cp', JARS, 'tlc2.TLC', '-workers', str(workers),
           '-metadir', meta, '-noGenerateSpecTE', '-nowarning', '-config', cfg_path]
    if not deadlock:
        cmd += ['-deadlock']
    if simulate:
        cmd += ['-simulate', simulate]
    cmd += list(extra) + [module]
    e = dict(os.environ)
    e.pop('JAVA_TOOL_OPTIONS', None)
    if env:
        e.update({k: str(v) for k, v in env.items()})
    t0 = time.time()
    try:
        p = subprocess.run(cmd, cwd=workdir, env=e, stdout=subprocess.PIPE, stderr=subprocess.STDOUT,
                           timeout=timeout, text=True, errors='replace')
    except subprocess.TimeoutExpired as ex:
        raise MachineryError(f'TLC timeout after {timeout}s on {module}: {(ex.stdout or "")[-2000:]}')
    finally:
        shutil.rmtree(meta, ignore_errors=True)
    out = p.stdout
    res = dict(rc=p.returncode, out=out, wall=time.time() - t0, generated=0, distinct=0, depth=0)
    m = None
    for m in _STATS.finditer(out):
        pass
    if m:
        res['generated'], res['distinct'] = int(m.group(1)), int(m.group(2))
    d = _DEPTH.search(out)
    if d:
        res['depth'] = int(d.group(1))
    return res


def tlc_ok(r):
    return r['rc'] == 0 and 'Model checking completed. No error has been found.' in r['out'] or \
        (r['rc'] == 0 and 'Finished in' in r['out'] and 'Error:' not in r['out'])


def model_check(name, module, cfg, workdir, workers=NCPU, timeout=900, heap='8g', expect_violation=None,
                simulate=None, extra=()):
    """M: model-check a spec. expect_violation: name of an invariant that MUST be violated
    (negative control of the model)."""
    r = tlc(os.path.join(SPEC, 'mc', module), cfg, os.path.join(workdir, 'mc_' + name), workers=workers,
            timeout=timeout, heap=heap, simulate=simulate, extra=extra)
    if expect_violation:
        pat = f'Invariant {expect_violation} is violated'
        pat2 = f'property {expect_violation} was violated'.lower()
        if pat not in r['out'] and pat2 not in r['out'].lower():
            raise MachineryError(f'negative control {name}: expected violation of {expect_violation}:\n{r["out"][-3000:]}')
        return dict(name=name, states=r['distinct'], transitions=r['generated'], depth=r['depth'],
                    wall=round(r['wall'], 1), negative_control=True)
    if not tlc_ok(r):
        o = r['out']
        k0 = max(o.find('Error:'), o.find('*** Errors'))
        raise MachineryError(f'model check {name} failed:\n{o[k0:k0 + 3000] if k0 >= 0 else o[-3000:]}')
    return dict(name=name, states=r['distinct'], transitions=r['generated'], depth=r['depth'],
                wall=round(r['wall'], 1), out=r['out'])


def printed_json(out):
    """Lines that a spec printed with PrintT(ToJson(x)) -> list of python values."""
    res = []
    for line in out.splitlines():
        line = line.strip()
        if line.startswith('"') and line.endswith('"') and len(line) > 2 and line[1] in '[{':
            try:
                res.append(json.loads(json.loads(line)))
            except Exception:
                try:
                    res.append(json.loads(line[1:-1].replace('\\"', '"')))
                except Exception:
                    pass
    return res


# ------------------------------------------------------------------ trace validation (V)
TRACE_CFG = 'INIT TInit\nNEXT TNext\nINVARIANT KitDone\nPOSTCONDITION KitPost\nCHECK_DEADLOCK FALSE\n'


def _validate_shard(trace_module, recs, workdir, k, timeout, cfg, env=None, depth=0):
    tf = os.path.join(workdir, f'shard{k}.ndjson')
    of = os.path.join(workdir, f'verdict{k}.ndjson')
    with open(tf, 'w') as f:
        for r in recs:
            f.write(json.dumps(r, separators=(',', ':')) + '\n')
    if os.path.exists(of):
        os.remove(of)
    r = tlc(os.path.join(SPEC, 'trace', trace_module), cfg, os.path.join(workdir, f'v{k}'),
            env=dict(env or {}, TRACE_FILE=tf, OUT_FILE=of), workers=1, timeout=timeout, heap='3g')
    if not tlc_ok(r) or not os.path.exists(of):
        o = r['out']
        # TLC cannot evaluate the clauses of ONE record (e.g. it refuses to compare values of different shapes, which is
        # what a broken parser may return): that record is set aside with a MACHINERY_ clause and the rest of the shard is
        # still validated.  main.py decides: alone it is a machinery failure, next to genuine failures it is set aside.
        m = None
        for m in re.finditer(r'/\\ pos = (\d+)', o):
            pass
        if m and ('Attempted to' in o or 'was not in the domain' in o or 'CASE with no conditions' in o) and depth < 6 and len(recs) > 1:
            n = int(m.group(1))
            if 1 <= n <= len(recs):
                log(f'  [{trace_module} shard {k}] record {recs[n - 1].get("i")} cannot be evaluated by TLC; set aside')
                b1, s1, t1 = _validate_shard(trace_module, recs[:n - 1], workdir, f'{k}a', timeout, cfg, env, depth + 1) if n > 1 else ([], 0, 0)
                b2, s2, t2 = _validate_shard(trace_module, recs[n:], workdir, f'{k}b', timeout, cfg, env, depth + 1) if n < len(recs) else ([], 0, 0)
                return b1 + [(recs[n - 1]['i'], ['MACHINERY_clauses_not_evaluable'])] + b2, s1 + s2, t1 + t2
        k0 = o.find('Error:')
        raise MachineryError(f'trace validation failed (shard {k} of {trace_module}):\n{o[k0:k0 + 1500] if k0 >= 0 else o[-1500:]}\n...\n{o[-1200:]}')
    with open(of) as f:
        v = json.loads(f.readline())
    if v['n'] != len(recs):
        raise MachineryError(f'shard {k}: {v["n"]} records consumed, {len(recs)} written')
    os.remove(tf)
    os.remove(of)
    return [(b['i'], list(b['failed'])) for b in v['bad']], r['distinct'], r['generated']


def validate(trace_module, records, workdir, shards=NCPU, timeout=900, cfg=TRACE_CFG, contiguous=False, env=None):
    """Validate records with TLC. Returns (bad: dict i -> failed clauses, states, transitions).

    contiguous=True keeps the record order inside shards (state-machine traces are sharded by the
    caller instead and passed as a list of lists)."""
    os.makedirs(workdir, exist_ok=True)
    if records and isinstance(records[0], list):
        parts = [p for p in records if p]
    else:
        n = max(1, min(shards, (len(records) + 49) // 50))
        if contiguous:
            sz = (len(records) + n - 1) // n
            parts = [records[i:i + sz] for i in range(0, len(records), sz)]
        else:
            parts = [records[k::n] for k in range(n)]
        parts = [p for p in parts if p]
    bad, st, tr = {}, 0, 0
    with ThreadPoolExecutor(max_workers=NCPU) as ex:
        futs = [ex.submit(_validate_shard, trace_module, p, workdir, k, timeout, cfg, env) for k, p in enumerate(parts)]
        for f in futs:
            b, s, t = f.result()
            st += s
            tr += t
            for i, failed in b:
                bad.setdefault(i, []).extend(failed)
    return bad, st, tr


# ------------------------------------------------------------------ known findings
def load_known(prop):
    known = []
    if os.path.exists(KNOWN):
        for line in open(KNOWN):
            line = line.strip()
            if not line or line.startswith('#') or line.startswith('fixed:'):
                continue
            e = json.loads(line)
            if e.get('property') == prop and e.get('status', 'known') == 'known':
                known.append(e)
    return known


def match_known(known, rec, failed):
    """A failing record is a known finding iff some entry matches op, covers every failed clause,
    and the record carries the entry's input-class tag (tags are computed from the INPUT by the driver)."""
    for e in known:
        if e['op'] != rec.get('op'):
            continue
        if not set(failed) <= set(e['clauses']):
            continue
        if e['tag'] not in rec.get('tags', []):
            continue
        return e
    return None


# ------------------------------------------------------------------ evidence
def write_evidence(prop, tier, seed, coverage, assumptions, wall, violations):
    os.makedirs(EVID, exist_ok=True)
    ev = dict(property_id=prop, tier=tier, seed=seed, level='model_checking', coverage=coverage,
              assumptions=assumptions, wall_s=round(wall, 2), violations=violations)
    with open(os.path.join(EVID, prop + '.json'), 'w') as f:
        json.dump(ev, f, indent=1, sort_keys=True)
        f.write('\n')


def compact(rec, limit=400):
    """A sample record shortened for the evidence file."""
    s = json.dumps(rec, separators=(',', ':'))
    if len(s) <= limit:
        return rec
    out = {}
    for k, v in rec.items():
        sv = json.dumps(v, separators=(',', ':'))
        out[k] = v if len(sv) <= 120 else sv[:117] + '...'
    return out


# ------------------------------------------------------------------ value encodings for traces
def big(v):
    """python int -> sign-magnitude record (mag big-endian bytes, no leading zeros)."""
    m = abs(v)
    return {'neg': 1 if v < 0 else 0, 'mag': list(m.to_bytes((m.bit_length() + 7) // 8, 'big'))}


def unbig(d):
    v = int.from_bytes(bytes(d['mag']), 'big')
    return -v if d['neg'] else v


def bitstr(ba):
    """bitarray -> {n, y}: bit length and zero-padded bytes."""
    from bitarray import bitarray
    b = bitarray(ba)
    n = len(b)
    return {'n': n, 'y': list(b.tobytes())}


def bitstr_of_list(bits):
    n = len(bits)
    by = bytearray((n + 7) // 8)
    for i, b in enumerate(bits):
        if b:
            by[i // 8] |= 0x80 >> (i % 8)
    return {'n': n, 'y': list(by)}


def exc_name(e):
    return type(e).__name__


def tlc_map(module, records, workdir, timeout=900, shards=8):
    """G on demand: run a utility spec (spec/mc/<module>) that reads IN_FILE (ndjson, each record has 'id') and writes
    OUT_FILE (ndjson).  Returns dict id -> output record."""
    os.makedirs(workdir, exist_ok=True)
    parts = [records[k::shards] for k in range(shards)]
    parts = [p for p in parts if p]

    def one(k, part):
        inf = os.path.join(workdir, f'in{k}.ndjson')
        outf = os.path.join(workdir, f'out{k}.ndjson')
        with open(inf, 'w') as f:
            for r in part:
                f.write(json.dumps(r, separators=(',', ':')) + '\n')
        r = tlc(os.path.join(SPEC, 'mc', module), 'INIT Init\nNEXT Next\nCHECK_DEADLOCK FALSE\n', os.path.join(workdir, f'm{k}'),
                env={'IN_FILE': inf, 'OUT_FILE': outf}, workers=1, timeout=timeout, heap='3g')
        if not tlc_ok(r) or not os.path.exists(outf):
            o = r['out']
            k0 = o.find('Error:')
            raise MachineryError(f'tlc_map {module} failed:\n{o[k0:k0 + 2500] if k0 >= 0 else o[-2500:]}')
        return [json.loads(line) for line in open(outf) if line.strip()]
    res = {}
    with ThreadPoolExecutor(max_workers=NCPU) as ex:
        for outs in ex.map(lambda a: one(*a), enumerate(parts)):
            for o in outs:
                res[o['id']] = o
    return res
