"""Re-run the checks against every kept seeded change (or the ones named) and refresh meta.json's detection record.
usage: seedmatrix.py [--tier quick] [ids...]   -- applies each patch to /repo, runs ./check, and undoes it straight afterwards"""
import json, os, subprocess, sys, time

args = [a for a in sys.argv[1:] if not a.startswith('--')]
tier = sys.argv[sys.argv.index('--tier') + 1] if '--tier' in sys.argv else 'quick'
if '--tier' in sys.argv:
    args = [a for a in args if a != tier]
root = '/verif/seeded'
ids = args or sorted(os.listdir(root))
assert subprocess.run('git -C /repo status --porcelain', shell=True, capture_output=True, text=True).stdout.strip() == '', '/repo not clean'
for sid in ids:
    d = os.path.join(root, sid)
    meta = json.load(open(os.path.join(d, 'meta.json')))
    checks = list(meta.get('detected_by') or {meta['property']: None})
    if meta['property'] not in checks:
        checks.insert(0, meta['property'])
    assert subprocess.run(f'git -C /repo apply {d}/patch.diff', shell=True).returncode == 0, sid
    res = {}
    try:
        for c in checks:
            t0 = time.time()
            try:
                p = subprocess.run(f'./check {c} --tier {tier}', cwd='/verif', shell=True, stdout=subprocess.PIPE, stderr=subprocess.STDOUT, text=True, timeout=1800)
                rc, out = p.returncode, p.stdout
            except subprocess.TimeoutExpired as e:
                rc, out = 124, (e.stdout or b'').decode(errors='replace') if isinstance(e.stdout, bytes) else (e.stdout or '')
            lines = [l[:300] for l in out.splitlines() if 'failure kinds' in l or 'VIOLATION' in l or 'MACHINERY' in l]
            res[c] = {'rc': rc, 'lines': lines, 'wall_s': round(time.time() - t0)}
            print(sid, c, 'rc=%d' % rc, '%ds' % (time.time() - t0), (lines[:1] or [''])[0][:160], flush=True)
    finally:
        subprocess.run('git -C /repo checkout -- .', shell=True)
    meta['detected_by'] = {c: r['rc'] == 1 for c, r in res.items()}
    meta['check_output'] = res
    meta['rechecked_at_verif_commit'] = subprocess.run('git -C /verif rev-parse --short HEAD', shell=True, capture_output=True, text=True).stdout.strip()
    json.dump(meta, open(os.path.join(d, 'meta.json'), 'w'), indent=1)
