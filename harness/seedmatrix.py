"""Re-run the checks against every kept seeded change (or the ones named) and refresh meta.json's detection record.
usage: seedmatrix.py [--tier quick] [ids...]
Works on private copies so that neither /repo nor /verif's evidence/build are touched: a scratch git worktree of /repo
(the patch is applied there, VERIF_REPO points the checks at it) and a scratch copy of /verif; both are removed at the end."""
import json, os, shutil, subprocess, sys, time

args = [a for a in sys.argv[1:] if not a.startswith('--')]
tier = sys.argv[sys.argv.index('--tier') + 1] if '--tier' in sys.argv else 'quick'
if '--tier' in sys.argv:
    args = [a for a in args if a != tier]
root = '/verif/seeded'
ids = args or sorted(d for d in os.listdir(root) if os.path.isdir(os.path.join(root, d)))
tag = str(os.getpid())
REPO, VERIF = f'/tmp/sm_repo_{tag}', f'/tmp/sm_verif_{tag}'
sh = lambda c, **kw: subprocess.run(c, shell=True, text=True, **kw)
assert sh(f'git -C /repo worktree add --detach {REPO} HEAD -q').returncode == 0
sh(f'mkdir -p {VERIF} && rsync -a --exclude build --exclude .git --exclude replays /verif/ {VERIF}/')
commit = sh('git -C /verif rev-parse --short HEAD', capture_output=True).stdout.strip()
try:
    for sid in ids:
        d = os.path.join(root, sid)
        meta = json.load(open(os.path.join(d, 'meta.json')))
        checks = list(meta.get('detected_by') or {meta['property']: None})
        if meta['property'] not in checks:
            checks.insert(0, meta['property'])
        sh(f'git -C {REPO} reset -q --hard && git -C {REPO} clean -qfd')
        if sh(f'git -C {REPO} apply --check {d}/patch.diff', capture_output=True).returncode != 0 or \
                sh(f'git -C {REPO} apply {d}/patch.diff', capture_output=True).returncode != 0:
            # written against an earlier HEAD; a later fix: commit rewrote the same lines.  The recorded detection stays.
            sh(f'git -C {REPO} reset -q --hard')
            meta['patch_applies_to_current_head'] = False
            json.dump(meta, open(os.path.join(d, 'meta.json'), 'w'), indent=1)
            print(sid, 'patch no longer applies to HEAD (kept as recorded)', flush=True)
            continue
        meta['patch_applies_to_current_head'] = True
        res = {}
        for c in checks:
            t0 = time.time()
            try:
                p = subprocess.run(f'./check {c} --tier {tier}', cwd=VERIF, shell=True, stdout=subprocess.PIPE, stderr=subprocess.STDOUT, text=True,
                                   timeout=2400, env=dict(os.environ, VERIF_REPO=REPO))
                rc, out = p.returncode, p.stdout
            except subprocess.TimeoutExpired as e:
                rc, out = 124, e.stdout.decode(errors='replace') if isinstance(e.stdout, bytes) else (e.stdout or '')
            lines = [l[:300] for l in out.splitlines() if 'failure kinds' in l or 'VIOLATION' in l or 'MACHINERY' in l]
            res[c] = {'rc': rc, 'lines': lines, 'wall_s': round(time.time() - t0)}
            print(sid, c, 'rc=%d' % rc, '%ds' % (time.time() - t0), (lines[:1] or [''])[0][:160], flush=True)
        meta['detected_by'] = {c: r['rc'] == 1 for c, r in res.items()}
        meta['check_output'] = res
        meta['rechecked_at_verif_commit'] = commit
        json.dump(meta, open(os.path.join(d, 'meta.json'), 'w'), indent=1)
finally:
    sh(f'git -C /repo worktree remove --force {REPO}; git -C /repo worktree prune')
    shutil.rmtree(VERIF, ignore_errors=True)
