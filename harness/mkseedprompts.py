"""Write the prompts for one round of seeding.   usage: mkseedprompts.py <round-dir under /tmp> [<id> ...]

A development aid (not registered in MANIFEST.json).  For each property it writes <round-dir>/<id>.prompt: the task for a fresh
sub-agent that gets ONLY the property's text (from properties.jsonl) and the first lines of what earlier kept changes needed
(from seeded/<id>-k/meta.json, so that a new round does not repeat them) and nothing else from /verif.  The sub-agent works in its
own scratch worktree <round-dir>/<id> (create with `git -C /repo worktree add --detach <round-dir>/<id> HEAD`; remove afterwards
with `git -C /repo worktree remove --force ...`).  Keep what comes back with harness/seedkeep.py."""
import glob
import json
import os
import sys

VERIF = os.path.dirname(os.path.dirname(os.path.abspath(__file__)))

HEAD = """You are helping to evaluate a verification effort for the Python library yungwine/pytoniq-core (pure-Python TON blockchain primitives). Your job is to act as a careful 'bug seeder': produce TWO independent, realistic code changes to the library, each of which breaks the semantic property quoted below, while the library still imports and its existing test suite still passes.

Your private scratch git worktree of the library is {wt} (HEAD of the repository). Work ONLY inside that directory. Never touch /repo or /verif, do not read anything under /verif, and do not create other worktrees. Python to use: /venv/bin/python (run things with PYTHONPATH={wt} so that your worktree's pytoniq_core is imported, e.g. `cd {wt} && PYTHONPATH={wt} /venv/bin/python -m pytest -q -p no:cacheprovider tests`). There is no network.

THE PROPERTY ({id}: {title})
Statement: {statement}
Quantified over: {quant}
Why the existing tests cannot settle it: {why}
Code the property is anchored in: {code}; observable at: {obs}

WHAT TO PRODUCE (two changes, numbered 1 and 2), all under {wt}/seed_out/ :
  seed_out/mutation1.diff, seed_out/mutation2.diff  - each a `git diff` of pytoniq_core/ against the clean HEAD (each must apply on its own to a clean tree with `git apply`; they are independent alternatives, not cumulative)
  seed_out/demo1.py, seed_out/demo2.py  - a small stand-alone program that exits 0 on the clean tree and exits non-zero (assertion failure is fine) when the corresponding change is applied; it must import pytoniq_core from PYTHONPATH, be deterministic, run in a few seconds, and demonstrate a violation of the PROPERTY (not merely 'the code differs')
  seed_out/notes1.txt, seed_out/notes2.txt  - plain text: which file/function was changed and how, which sub-claim of the property breaks and why, exactly what is needed to trigger it (inputs / sequence of calls), and why the existing tests and ordinary use do not notice

REQUIREMENTS FOR EACH CHANGE
  * It must look like something a maintainer could plausibly commit: a refactor, an optimisation, a cache, a tidy-up, a 'hardening', a boundary simplification, a feature addition - not sabotage, no dead code, no special-casing of magic values.
  * The library must import, and the complete existing test suite under tests/ must pass with the change applied (run it and confirm).
  * It must need something SPECIFIC to manifest: an unusual but legal input (boundary sizes, rare constructor alternatives, specific flag combinations, deep or heavily shared structures), a multi-step sequence of operations, state carried between calls or between objects, two cooperating sites that each look fine alone, or a helper far away from the anchored functions that they depend on (shared utilities in other modules). Changes that ordinary use would expose at once are not wanted.
  * The two changes must use different mechanisms and different code sites from each other, and must differ from the ones already used in earlier rounds, listed here (do not repeat these sites/mechanisms). Earlier rounds have used the obvious and many unobvious sites; look for what they leave untouched - re-read the statement clause by clause and the 'quantified over' line; consider helpers in OTHER modules that the anchored functions depend on, rarely used entry points and argument forms, interactions between two public calls, values at the far ends of their ranges, state that survives between calls or is shared between objects, error paths, and what a caller may do with a returned object afterwards:
{earlier}
  * Never use `git stash` (the stash is shared between worktrees of one repository); use `git diff > file`, `git checkout -- pytoniq_core`, `git apply file`, `git apply -R file`.
  * Leave the worktree CLEAN at the end (`git checkout -- pytoniq_core`), with only the untracked seed_out/ directory added. Verify each diff with `git apply --check` on the clean tree, and verify each demo both ways (clean: exit 0; with the change: exit non-zero).

Read the anchored code first. When done, reply with a short summary of the two changes (site, mechanism, trigger) and the confirmation results you observed (tests pass, demo exit codes both ways)."""


def main():
    out = sys.argv[1]
    assert out.startswith('/tmp/'), 'scratch directories live under /tmp'
    os.makedirs(out, exist_ok=True)
    props = [json.loads(l) for l in open(os.path.join(VERIF, 'properties.jsonl')) if l.strip()]
    want = set(sys.argv[2:])
    for p in props:
        if want and p['id'] not in want:
            continue
        metas = sorted(glob.glob(os.path.join(VERIF, 'seeded', p['id'] + '-*', 'meta.json')),
                       key=lambda f: int(os.path.basename(os.path.dirname(f)).split('-')[1]))
        earlier = []
        for f in metas:
            needs = ' '.join(str(json.load(open(f)).get('needs', '')).split())
            earlier.append('- ' + needs[:170])
        a = p['anchors']
        text = HEAD.format(wt=os.path.join(out, p['id']), id=p['id'], title=p['title'], statement=p['statement'],
                           quant=p['quantifier']['text'], why=p['why_tests_cant'], code=json.dumps(a.get('mechanism', a)),
                           obs=json.dumps(a.get('observe_at', [])), earlier='\n'.join(earlier) or '- (none yet)')
        open(os.path.join(out, p['id'] + '.prompt'), 'w').write(text)
        print(p['id'], len(earlier), 'earlier changes listed')


if __name__ == '__main__':
    main()
