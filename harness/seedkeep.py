"""Confirm a seeded change (tests pass, demo fails with / passes without), run our check against it, and keep it
under /verif/seeded/<id>/ with meta.json.   usage: seedkeep.py <PROP> <k> <worktree> [--tier quick] [--check PROPS] [--offset N]  (kept as <PROP>-<k+N>)"""
import json, os, shutil, subprocess, sys

prop, k, wt = sys.argv[1], sys.argv[2], sys.argv[3]
tier = 'quick'
checks = [prop]
if '--check' in sys.argv:
    checks = sys.argv[sys.argv.index('--check') + 1].split(',')
if '--tier' in sys.argv:
    tier = sys.argv[sys.argv.index('--tier') + 1]
src = os.path.join(wt, 'seed_out')
diff, demo, notes = [os.path.join(src, f'{n}{k}{e}') for n, e in (('mutation', '.diff'), ('demo', '.py'), ('notes', '.txt'))]
env = dict(os.environ, PYTHONPATH=wt, PYTHONDONTWRITEBYTECODE='1')


def sh(cmd, cwd=wt, **kw):
    return subprocess.run(cmd, cwd=cwd, shell=True, env=env, stdout=subprocess.PIPE, stderr=subprocess.STDOUT, text=True, **kw)


sh('git checkout -- pytoniq_core')
clean_demo = sh(f'/venv/bin/python {demo}').returncode
assert sh(f'git apply {diff}').returncode == 0, 'diff does not apply to worktree'
tests = sh('/venv/bin/python -m pytest -q -p no:cacheprovider tests')
tests_ok = ' passed' in tests.stdout and 'failed' not in tests.stdout
mut_demo = sh(f'/venv/bin/python {demo}').returncode
sh('git checkout -- pytoniq_core')
print(f'clean demo rc={clean_demo} mutated demo rc={mut_demo} tests_ok={tests_ok} ({tests.stdout.strip().splitlines()[-1]})')
if clean_demo != 0 or mut_demo == 0 or not tests_ok:
    print('NOT CONFIRMED'); sys.exit(1)
# run our checks against the change: the patch stays applied in the scratch worktree (VERIF_REPO points the checks at it) and the
# checks run in a scratch copy of /verif, so neither /repo nor /verif's evidence and build directories are touched
results = {}
assert sh(f'git apply {diff}').returncode == 0
scratch = f'/tmp/sk_verif_{os.getpid()}'
subprocess.run(f'mkdir -p {scratch} && rsync -a --exclude build --exclude .git --exclude replays --exclude seeded /verif/ {scratch}/', shell=True, check=True)
try:
    for c in checks:
        p = subprocess.run(f'./check {c} --tier {tier}', cwd=scratch, shell=True, stdout=subprocess.PIPE, stderr=subprocess.STDOUT, text=True,
                           env=dict(os.environ, VERIF_REPO=wt))
        kinds = [l for l in p.stdout.splitlines() if 'failure kinds' in l or 'VIOLATION' in l or 'MACHINERY' in l]
        results[c] = {'rc': p.returncode, 'lines': [l[:300] for l in kinds]}
        print(c, p.returncode, kinds[:2])
finally:
    sh('git checkout -- pytoniq_core')
    shutil.rmtree(scratch, ignore_errors=True)
off = int(sys.argv[sys.argv.index('--offset') + 1]) if '--offset' in sys.argv else 0
dst = f'/verif/seeded/{prop}-{int(k) + off}'
os.makedirs(dst, exist_ok=True)
shutil.copy(diff, os.path.join(dst, 'patch.diff'))
shutil.copy(demo, os.path.join(dst, 'demo.py'))
meta = {'property': prop, 'needs': open(notes).read().strip() if os.path.exists(notes) else '',
        'confirmed': {'existing_tests_pass_with_change': tests_ok, 'demo_rc_clean': clean_demo, 'demo_rc_with_change': mut_demo,
                      'ran': [f'PYTHONPATH=<worktree> /venv/bin/python -m pytest -q tests', 'demo.py with and without the change',
                              f'./check <id> --tier {tier} with VERIF_REPO pointing at the scratch worktree holding the change']},
        'detected_by': {c: r['rc'] == 1 for c, r in results.items()}, 'check_output': results}
json.dump(meta, open(os.path.join(dst, 'meta.json'), 'w'), indent=1)
print('kept', dst, meta['detected_by'])
