"""BoC helpers shared by the C03/C04/C05 drivers.

scan() is a HINT generator only (positions of cells inside an encoding, so that an isomorphism map can be proposed
to TLC); every map is verified by the specification (IsoVia), a wrong hint can only make a record fail."""
import base64

import cellkit as ck
from vlib import user_stack
from pytoniq_core.boc import Builder, Cell, Slice


def popcount(m):
    return bin(m).count('1')


def scan(data):
    """-> list of bag cells [{t,n,y,refs(0-based bag idx)}] in bag order, root list; raises ValueError if not scannable"""
    data = bytes(data)
    magic = data[:4]
    if magic == b'\xb5\xee\x9c\x72':
        fl = data[4]
        size, hasidx = fl & 7, bool(fl & 128)
        gen = True
    elif magic in (b'\x68\xff\x65\xf3', b'\xac\xc3\xa7\x28'):
        size, hasidx, gen = data[4], True, False
    else:
        raise ValueError('magic')
    offb = data[5]
    p = 6
    cells = int.from_bytes(data[p:p + size], 'big'); p += size
    roots = int.from_bytes(data[p:p + size], 'big'); p += size
    p += size
    tot = int.from_bytes(data[p:p + offb], 'big'); p += offb
    if gen:
        rootlist = [int.from_bytes(data[p + i * size:p + (i + 1) * size], 'big') for i in range(roots)]
        p += roots * size
    else:
        rootlist = [0]
    if hasidx:
        p += cells * offb
    out, starts = [], []
    for _ in range(cells):
        starts.append(p)
        d1, d2 = data[p], data[p + 1]
        nr, ex, wh, lm = d1 & 7, (d1 >> 3) & 1, (d1 >> 4) & 1, d1 >> 5
        q = p + 2 + wh * (popcount(lm) + 1) * 34
        dsz = (d2 >> 1) + (d2 & 1)
        y = bytearray(data[q:q + dsz])
        n = dsz * 8
        if d2 & 1:
            last = y[-1]
            tz = (last & -last).bit_length() - 1
            n = dsz * 8 - 1 - tz
            y[-1] = last & ~(1 << tz) & 0xff
            if tz == 7:
                y = y[:-1]
        q += dsz
        refs = [int.from_bytes(data[q + i * size:q + (i + 1) * size], 'big') for i in range(nr)]
        q += nr * size
        out.append({'t': y[0] if ex else 0, 'n': n, 'y': list(y), 'refs': refs})
        p = q
    starts.append(p)
    return out, rootlist, starts


def positions_by_content(bag):
    """content key (t,n,y,child positions) -> children-first index (N - bagpos) for every bag cell, bottom-up"""
    n = len(bag)
    key_to_idx, idx_of_pos = {}, {}
    for pos in range(n - 1, -1, -1):
        c = bag[pos]
        key = (c['t'], c['n'], bytes(c['y']), tuple(idx_of_pos.get(r, -1) for r in c['refs']))
        idx = n - pos
        idx_of_pos[pos] = idx
        key_to_idx.setdefault(key, idx)
    return key_to_idx


def map_heap_to(heap, key_to_idx):
    """heap (children-first, refs 1-based) -> list m with m[k-1] = index in the other heap (0 if no match)"""
    m = []
    for c in heap:
        key = (c['t'], c['n'], bytes(c['y']), tuple(m[j - 1] for j in c['r']))
        m.append(key_to_idx.get(key, 0))
    return m


def keys_of_heap(heap):
    """children-first heap -> content key -> index (first occurrence), keys expressed in this heap's own indices
    after content de-duplication"""
    canon, key_to_idx = [], {}
    for k, c in enumerate(heap):
        key = (c['t'], c['n'], bytes(c['y']), tuple(canon[j - 1] for j in c['r']))
        idx = key_to_idx.setdefault(key, k + 1)
        canon.append(idx)
    return key_to_idx, canon


OPTION_SETS = [dict(idx=0, crc=0, cache=0), dict(idx=1, crc=0, cache=0), dict(idx=0, crc=1, cache=0),
               dict(idx=1, crc=1, cache=0), dict(idx=1, crc=0, cache=1), dict(idx=1, crc=1, cache=1)]


def emit(root, o):
    with user_stack():
        return root.to_boc(has_idx=bool(o['idx']), hash_crc32=bool(o['crc']), has_cache_bits=bool(o['cache']))


def emit_with_hashes(root, which, corrupt=None, claim=None):
    """input construction: a serialized_boc of root's DAG in which cells carry their stored hashes and depths (the "with hashes"
    descriptor flag): which = 'exotic' (special cells only), 'level' (cells of level > 0) or 'all'.  The stored values are the
    ones the live cells report; what the parser makes of the bag is judged by TLC like every other route."""
    order, seen = [], {}

    def visit(c):
        if id(c) in seen:
            return
        seen[id(c)] = None
        for r in c.refs:
            visit(r)
        order.append(c)
    visit(root)
    order.reverse()                                  # parents first: references point forward
    pos = {id(c): k for k, c in enumerate(order)}
    size = 1 if len(order) < 256 else 2
    body = bytearray()
    stored = []                                     # (offset, length) of every stored hash / depth field written
    for c in order:
        m = c.level_mask.mask
        ex = c.type_ != -1
        wh = which == 'all' or (which == 'exotic' and ex) or (which == 'level' and m != 0) or (which == 'claimed' and id(c) in (claim or {}))
        src = (claim or {}).get(id(c), c)             # claim: cells written with ANOTHER cell's hashes and depths next to them
        raw = c.to_boc()                              # only to take this cell's own descriptor/data bytes from a one-root bag
        bag, _, starts = scan(raw)
        own = raw[starts[0]:starts[1]]
        nbytes = len(own) - 2 - len(c.refs) * (raw[4] & 7)
        d1 = len(c.refs) + (8 if ex else 0) + (16 if wh else 0) + 32 * m
        body += bytes([d1, own[1]])
        if wh:
            lv = [l for l in range(4) if l == 0 or (m >> (l - 1)) & 1]
            for l in lv:
                stored.append((len(body), 32))
                body += src.get_hash(l)
            for l in lv:
                stored.append((len(body), 2))
                body += src.get_depth(l).to_bytes(2, 'big')
        body += own[2:2 + nbytes]
        for r in c.refs:
            body += pos[id(r)].to_bytes(size, 'big')
    if corrupt is not None and stored:
        # a bag whose stored values are NOT the cells' hashes / depths: a parser may refuse it, but must not believe it
        off, ln = corrupt.choice(stored)
        body[off + corrupt.randrange(ln)] ^= 1 << corrupt.randrange(8)
    offb = 2 if len(body) < 65536 else 3
    hdr = b'\xb5\xee\x9c\x72' + bytes([size, offb]) + len(order).to_bytes(size, 'big') + (1).to_bytes(size, 'big') + (0).to_bytes(size, 'big') \
        + len(body).to_bytes(offb, 'big') + (0).to_bytes(size, 'big')
    return hdr + bytes(body)


def tree_heap(ncells, databits=32, fan=4):
    """children-first heap of ncells distinct cells forming a fan-ary tree"""
    heap = []
    for k in range(ncells):          # k-th cell in children-first order has parent-first number p = ncells-1-k
        p = ncells - 1 - k
        kids = [fan * p + j for j in range(1, fan + 1) if fan * p + j < ncells]
        refs = [ncells - c for c in kids]     # children-first 1-based index of parent-first number c is ncells - c
        bits = [(p >> (databits - 1 - i)) & 1 if i >= databits - 32 else 0 for i in range(databits)]
        heap.append(ck.acell(bits, refs))
    return heap


def encode_forms(data, form):
    if form == 'bytes':
        return data
    if form == 'hex':
        return data.hex()
    if form == 'HEX':
        return data.hex().upper()
    if form == 'hEx':
        return ''.join(c.upper() if i % 3 == 0 else c for i, c in enumerate(data.hex()))
    if form == 'b64':
        return base64.b64encode(data).decode()
    raise ValueError(form)


def parse_entry(entry, payload):
    """-> list of root-like objects as (bits, refs, type) triples turned into projectable pseudo cells"""
    with user_stack():
        if entry == 'cell':
            return [Cell.one_from_boc(payload)]
        if entry == 'cells':
            return Cell.from_boc(payload)
        if entry == 'slice':
            return [Slice.one_from_boc(payload)]
        if entry == 'builder':
            return [Builder.one_from_boc(payload)]
    raise ValueError(entry)


def project_any(roots):
    """like ck.project but the roots may be Slice/Builder objects (their children are cells)"""
    kids = []
    for r in roots:
        kids.extend(r.refs if not isinstance(r, Slice) else r.refs[r.ref_offset:])
    heap, _, objs = ck.project([r for r in roots if isinstance(r, Cell)] + list(kids))
    idx = {id(o): k + 1 for k, o in enumerate(objs)}
    root_idx = []
    for r in roots:
        if isinstance(r, Cell):
            root_idx.append(idx[id(r)])
        else:
            a = ck.abstract(r)
            rr = r.refs if not isinstance(r, Slice) else r.refs[r.ref_offset:]
            a['r'] = [idx[id(x)] for x in rr]
            heap.append(a)
            root_idx.append(len(heap))
    return heap, root_idx
