#!/bin/sh
# usage: seedtest.sh <prop> <diff> [tier]  -- apply a seeded change to /repo, run the check, undo
prop=$1; diff=$2; tier=${3:-quick}
cd /repo && git apply "$diff" || { echo "APPLY FAILED"; exit 3; }
cd /verif && ./check "$prop" --tier "$tier" 2>&1 | grep -E "VIOLATION|KNOWN|failure kinds|done rc|MACHINERY" | cut -c1-300
git -C /repo checkout -- .
