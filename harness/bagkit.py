"""Object pool over the real Builder / Slice / Cell objects: executes abstract TonBag calls on the library,
projects every live object after every call, records one trace record per call (C06, C07, C08)."""
import hashlib
import random

from bitarray import bitarray

from pytoniq_core.boc import Builder, Cell, Slice
from pytoniq_core.boc.address import Address, ExternalAddress
from pytoniq_core.boc.tvm_bitarray import TvmBitarray

from vlib import big, bitstr, bitstr_of_list, unbig


def ba_of(bs):
    b = bitarray()
    b.frombytes(bytes(bs['y']))
    return b[:bs['n']]


def addr_to_lib(a):
    if a['kind'] == 'none':
        return None
    if a['kind'] == 'ext':
        return ExternalAddress(unbig(a['v']), a['len'])
    x = Address((a['wc'], bytes(a['hash'])))
    if a['any']:
        x.set_anycast(a['any'][0]['depth'], unbig(a['any'][0]['pfx']))
    return x


def addr_of_lib(x):
    if x is None:
        return {'kind': 'none'}
    if isinstance(x, ExternalAddress):
        return {'kind': 'ext', 'len': x.len, 'v': big(x.external_address or 0)}
    any_ = []
    if x.anycast is not None:
        any_ = [{'depth': x.anycast.depth, 'pfx': big(x.anycast.rewrite_pfx)}]
    return {'kind': 'std', 'wc': x.wc, 'hash': list(x.hash_part), 'any': any_}


def rebuild(c, memo):
    """structurally identical cell made of fresh objects (no state carried over from earlier calls)"""
    if id(c) in memo:
        return memo[id(c)]
    tb = TvmBitarray(1023, bitarray(c.bits))
    f = Cell(tb, [rebuild(r, memo) for r in c.refs], c.type_)
    memo[id(c)] = f
    return f


def level_view(c):
    """digest of what a cell reports about its levels (mask, hashes and depths at levels 1..3): part of its observable value"""
    try:
        m = bytes([c.level_mask.mask]) + b''.join(c.get_hash(l) + c.get_depth(l).to_bytes(2, 'big') for l in (1, 2, 3))
    except Exception as e:
        m = type(e).__name__.encode()
    return list(hashlib.sha256(m).digest()[:8])


class Unobservable(Exception):
    pass


class Pool:
    def __init__(self):
        self.records = []
        self.reset()

    def reset(self):
        self.objs = {}       # id -> (kind, object)
        self.pyid = {}       # id(python object) -> pool id
        self.next = 1
        self.keep = []       # python objects kept alive so id() stays unique
        self.opaque = set()
        self.dead = False
        self.records.append({'op': 'reset'})

    def reg(self, obj, kind):
        i = self.next
        self.next += 1
        self.objs[i] = (kind, obj)
        self.pyid[id(obj)] = i
        self.keep.append(obj)
        return i

    def adopt(self, cell):
        """register a cell built outside the pool WITHOUT its children (opaque: projected with no references)"""
        if self.dead:
            return 0
        c = {'op': 'adopt', 'new': self.next}
        self.opaque.add(id(cell))
        i = self.reg(cell, 'cell')
        self.finish({'op': 'call', 'call': c, 'tags': [], 'out': {'res': {'new': i}}})
        return i

    def cell_id(self, c):
        """pool id of a cell object, registering cells the library created internally (children first)"""
        if id(c) in self.pyid and self.pyid[id(c)] in self.objs:
            return self.pyid[id(c)]
        for r in c.refs:
            self.cell_id(r)
        return self.reg(c, 'cell')

    def project(self):
        # discover first so that ids are stable within this projection
        for i in sorted(self.objs):
            kind, o = self.objs[i]
            refs = o.refs[o.ref_offset:] if kind == 'slice' else o.refs
            if id(o) in self.opaque:
                continue
            for r in refs:
                self.cell_id(r)
        out = []
        for i in sorted(self.objs):
            kind, o = self.objs[i]
            refs = o.refs[o.ref_offset:] if kind == 'slice' else o.refs
            if id(o) in self.opaque:
                refs = []
            bs = bitstr(o.bits)
            t = getattr(o, 'type_', -1)
            p = {'id': i, 'k': kind, 't': 0 if t == -1 else t, 'n': bs['n'], 'y': bs['y'],
                 'r': [self.cell_id(r) for r in refs], 'd': 0}
            # what the object itself reports about its room (read through the public properties)
            if kind == 'builder':
                p['room'] = [o.used_bits, o.available_bits, o.available_bytes, o.available_refs]
            elif kind == 'slice':
                p['room'] = [o.remaining_bits, o.remaining_refs]
            if kind == 'cell':
                p['d'] = max(o.get_depth(l) for l in range(4))      # the limit holds at every level
                p['h'] = list(o.hash) + level_view(o)
                if id(o) in self.opaque:
                    p['s'], p['fh'], p['fs'] = [], p['h'], []
                else:
                    p['s'] = list(hashlib.sha256(o.to_boc()).digest())
                    # the same value rebuilt from scratch (fresh objects, no call history): results must agree
                    f = rebuild(o, {})
                    p['fh'] = list(f.hash) + level_view(f)
                    p['fs'] = list(hashlib.sha256(f.to_boc()).digest())
            out.append(p)
        return out

    def ids(self, kind):
        return [i for i, (k, _) in self.objs.items() if k == kind]

    def o(self, i):
        return self.objs[i][1]

    # ------------------------------------------------------------------ one call
    DEAD = {'op': 'call', 'out': {'err': 'pool_unobservable'}, 'post': []}

    def call(self, c, tags=()):
        if self.dead:
            return self.DEAD
        rec = {'op': 'call', 'call': c, 'tags': list(tags)}
        try:
            res = self._exec(c, rec)
            rec['out'] = {'res': res}
        except RecursionError:
            raise
        except Exception as e:
            rec['out'] = {'err': type(e).__name__}
        self.finish(rec)
        return rec

    def finish(self, rec):
        """project every live object; if the library cannot even be observed, record that and stop the behaviour"""
        try:
            rec['post'] = self.project()
            self.last_post = rec['post']
        except BaseException as e:
            rec['post'] = getattr(self, 'last_post', [])
            rec['broken'] = type(e).__name__
            self.records.append(rec)
            self.dead = True          # the pool cannot be observed any more: ignore calls until the next reset
            return
        self.records.append(rec)

    def _new(self, c, obj, kind):
        i = self.reg(obj, kind)
        assert i == c['new'], (i, c)
        return {'new': i}

    def _exec(self, c, rec):
        op = c['op']
        if op == 'new_builder':
            return self._new(c, Builder(), 'builder')
        if op == 'forget':
            for i in c['ids']:
                del self.objs[i]
            return {'unit': 1}
        x = self.o(c['obj'])
        U = {'unit': 1}
        if op == 'store_bits':
            ba = ba_of(c['bits'])
            form = c.get('form')
            arg = ba if form in (None, 'bitarray') else ba.to01() if form == 'str' else ba.tolist() if form == 'list' else \
                tuple(ba.tolist()) if form == 'tuple' else TvmBitarray(1023, ba) if form == 'tvm' else \
                (int(b) for b in ba.tolist()) if form == 'gen' else map(int, ba.to01()) if form == 'map' else \
                iter(ba.tolist()) if form == 'iter' else __import__('itertools').chain(ba.tolist()[:1], ba.tolist()[1:])
            x.store_bits(arg); return U
        if op == 'store_bit':
            getattr(x, c.get('via', 'store_bit'))(c['bit'] if c.get('via') != 'store_bool' else bool(c['bit'])); return U
        if op == 'store_uint':
            x.store_uint(unbig(c['v']), c['w']); return U
        if op == 'store_int':
            x.store_int(unbig(c['v']), c['w']); return U
        if op == 'store_var_uint':
            x.store_var_uint(unbig(c['v']), c['L']); return U
        if op == 'store_var_int':
            x.store_var_int(unbig(c['v']), c['L']); return U
        if op == 'store_coins':
            x.store_coins(unbig(c['v'])); return U
        if op == 'store_bytes':
            x.store_bytes(bytes(c['bytes'])); return U
        if op == 'store_string':
            x.store_string(bytes(c['bytes']).decode()); return U
        if op == 'store_snake_bytes':
            getattr(x, c.get('via', 'store_snake_bytes'))(bytes(c['bytes']) if c.get('via') != 'store_snake_string' else bytes(c['bytes']).decode()); return U
        if op == 'store_ref':
            x.store_ref(self.o(c['ref'])); return U
        if op in ('store_maybe_ref', 'store_dict'):
            getattr(x, op)(self.o(c['ref']) if c['ref'] else None); return U
        if op == 'store_cell':
            x.store_cell(self.o(c['ref'])); return U
        if op == 'store_slice':
            x.store_slice(self.o(c['ref'])); return U
        if op == 'store_address':
            a = addr_to_lib(c['addr'])
            if c.get('via') == 'str' and c['addr']['kind'] == 'std' and not c['addr']['any']:
                a = a.to_str(is_user_friendly=bool(c['i'] % 2) if 'i' in c else False)
            x.store_address(a); return U
        if op == 'end_cell':
            return self._new(c, x.end_cell() if c.get('via') != 'to_cell' else x.to_cell(), 'cell')
        if op == 'builder_to_slice':
            return self._new(c, x.to_slice(), 'slice')
        if op == 'begin_parse':
            return self._new(c, x.begin_parse() if c.get('via') != 'from_cell' else Slice.from_cell(x), 'slice')
        if op == 'cell_copy':
            return self._new(c, x.copy(), 'cell')
        if op == 'cell_to_builder':
            return self._new(c, x.to_builder(), 'builder')
        if op == 'slice_to_cell':
            return self._new(c, x.to_cell(), 'cell')
        if op == 'slice_copy':
            return self._new(c, x.copy(), 'slice')
        if op == 'slice_to_builder':
            return self._new(c, x.to_builder(), 'builder')
        if op == 'skip_bits':
            x.skip_bits(c['n']); return U
        if op == 'load_snake_bytes':
            r = x.load_snake_bytes() if c.get('via') != 'load_snake_string' else x.load_snake_string().encode()
            return {'bytes': list(r)}
        if op in ('load', 'preload'):
            return self._read(x, op, c)
        if op == 'observe':
            x.hash; x.to_boc(); x.to_boc(True, True, True); hash(x); repr(x)
            return U
        if op == 'parse_as':
            return self._parse_as(x, c)
        if op == 'order':
            d = x.order() if c.get('via') != 'explicit' else x.order({})
            ids = [self.cell_id(k) for k in d]
            # the caller owns the dictionary it was given: it collects a second root in it (what the `result` parameter is for), or
            # empties it - neither may change what this cell reports or serialises to afterwards
            if c.get('via') == 'reuse':
                self.o(c['other']).order(d)
            elif c.get('via') == 'edit':
                d.clear()
            return {'ids': ids}
        raise ValueError(op)

    def _parse_as(self, cell, c):
        """run one of the library's parsers over a live cell and READ what it returned (value slices are consumed to the end)"""
        kind = c['as']
        drain = lambda sl: sl.load_bits(len(sl.bits)) if hasattr(sl, 'load_bits') else None
        if kind == 'dict':
            from pytoniq_core.boc.hashmap.hashmap import HashMap
            d = HashMap.parse(cell.begin_parse(), c['w'])
            for v in (d or {}).values():
                drain(v)
            d2 = cell.begin_parse().load_hashmap(c['w'])
            # the object route, twice, the values of the first result read to the end in between: the second result is as fresh
            view = lambda mp: hashlib.sha256(repr(sorted((k, len(v.bits), v.bits.to01()) for k, v in mp.items())).encode()).hexdigest()[:16]
            m1 = HashMap.from_cell(cell, c['w']).map
            v1 = view(m1)
            for v in m1.values():
                drain(v)
            v2 = view(HashMap.from_cell(cell, c['w']).map)
            return {'n': len(d or {}), 'n2': len(d2 or {}), 'first': v1, 'second': v2}
        if kind == 'dict_via_holder':
            sl = Builder().store_dict(cell).end_cell().begin_parse()
            a = sl.preload_dict(c['w'])
            b = sl.load_dict(c['w'])
            for v in list((a or {}).values()) + list((b or {}).values()):
                drain(v)
            return {'n': len(a or {}), 'n2': len(b or {})}
        if kind == 'dict_aug':
            from pytoniq_core.boc.hashmap.parse import parse_hashmap_aug
            r = parse_hashmap_aug(cell.begin_parse(), c['w'], lambda sl: sl.load_bits(len(sl.bits)), lambda sl: sl.load_bits(min(4, len(sl.bits))))
            return {'n': len(r[0]) if r else 0, 'n2': 0}
        if kind == 'message':
            from pytoniq_core.tlb.transaction import MessageAny
            m = MessageAny.deserialize(cell.begin_parse())
            drain(m.body.begin_parse())
            return {'n': 1, 'n2': 0}
        if kind == 'account':
            from pytoniq_core.tlb.account import Account
            Account.deserialize(cell.begin_parse())
            return {'n': 1, 'n2': 0}
        if kind == 'stateinit':
            from pytoniq_core.tlb.account import StateInit
            StateInit.deserialize(cell.begin_parse())
            return {'n': 1, 'n2': 0}
        if kind == 'vmstack':
            from pytoniq_core.tlb.vm_stack import VmStack
            VmStack.deserialize(cell.begin_parse())
            return {'n': 1, 'n2': 0}
        raise ValueError(kind)

    def adopt_tree(self, cell):
        """register a cell built outside the pool WITH everything it references (children get their own ids)"""
        if self.dead:
            return 0
        i = self.cell_id(cell)
        self.finish({'op': 'call', 'call': {'op': 'adopt', 'new': i}, 'tags': [], 'out': {'res': {'new': i}}})
        return i

    def _read(self, s, op, c):
        w = c['what']
        pre = op + '_'
        if w == 'bits':
            return {'bits': bitstr(getattr(s, pre + 'bits')(c['n']))}
        if w == 'bit':
            return {'v': big(int(getattr(s, pre + 'bit')()))}
        if w == 'bool':
            return {'bool': int(getattr(s, pre + 'bool')())}
        if w == 'uint':
            return {'v': big(getattr(s, pre + 'uint')(c['w']))}
        if w == 'int':
            return {'v': big(getattr(s, pre + 'int')(c['w']))}
        if w == 'bytes':
            if c.get('via') == 'string':
                return {'bytes': list(getattr(s, pre + 'string')(c['n']).encode())}
            return {'bytes': list(getattr(s, pre + 'bytes')(c['n']))}
        if w == 'var_uint':
            if c.get('via') == 'coins':
                return {'v': big(getattr(s, pre + 'coins')())}
            return {'v': big(getattr(s, pre + 'var_uint')(c['L']))}
        if w == 'var_int':
            return {'v': big(getattr(s, pre + 'var_int')(c['L']))}
        if w == 'ref':
            return {'ref': self.cell_id(getattr(s, pre + 'ref')())}
        if w == 'maybe_ref':
            r = getattr(s, pre + 'maybe_ref')()
            return {'none': 1} if r is None else {'ref': self.cell_id(r)}
        if w == 'address':
            return {'addr': addr_of_lib(getattr(s, pre + 'address')())}
        raise ValueError(w)

    def cell_from_bits(self, bits, refs, plain=True):
        """Cell(bits, refs) constructed directly; records whether the caller's bit array was touched"""
        if self.dead:
            return self.DEAD
        c = {'op': 'cell_from_bits', 'bits': bitstr_of_list(bits), 'refs': list(refs), 'new': self.next}
        rec = {'op': 'call', 'call': c, 'tags': []}
        arg = bitarray(bits) if plain else TvmBitarray(1023, bitarray(bits))
        reflist = [self.o(r) for r in refs]
        try:
            obj = Cell(arg, reflist, -1)
            rec['out'] = {'res': self._new(c, obj, 'cell')}
        except Exception as e:
            rec['out'] = {'err': type(e).__name__}
        rec['argafter'] = bitstr(arg)
        self.finish(rec)
        return rec


# ------------------------------------------------------------------ value menus
def int_menu(w, signed, rng):
    """in-range boundary values for width w, plus out-of-range neighbours (flagged)"""
    if signed:
        lo, hi = -(1 << (w - 1)), (1 << (w - 1)) - 1
    else:
        lo, hi = 0, (1 << w) - 1
    inr = {lo, hi, 0, 1 if hi >= 1 else 0, hi >> 1, rng.randint(lo, hi), rng.randint(lo, hi)}
    if signed:
        inr |= {-1, lo + 1 if lo + 1 <= hi else lo}
    for k in range(8, w + 1, 8):
        for v in ((1 << (k - 1)) - 1, 1 << (k - 1), (1 << k) - 1, -(1 << (k - 1)), -(1 << (k - 1)) - 1):
            if lo <= v <= hi:
                inr.add(v)
    out = {lo - 1, hi + 1, hi + 2, lo - (1 << w)}
    if not signed:
        out |= {-1, -hi - 1}
    return sorted(v for v in inr if lo <= v <= hi), sorted(out)


def var_menu(L, signed, rng):
    maxb = (1 << L) - 1
    vals = {0, 1, 127, 128, 255, 256, 32767, 32768, 65535, 65536, (1 << 63) - 1, 1 << 63, (1 << 64) - 1}
    for k in range(1, maxb + 1):
        vals |= {(1 << (8 * k - 1)) - 1, 1 << (8 * k - 1), (1 << (8 * k)) - 1}
    if signed:
        vals |= {-v for v in list(vals)} | {-(1 << (8 * k - 1)) - 1 for k in range(1, maxb + 1)} | {-129, -128, -1}
        fits = lambda v: (v == 0) or (((v.bit_length() if v > 0 else (-v - 1).bit_length()) + 1 + 7) // 8 <= maxb)
    else:
        fits = lambda v: v >= 0 and (v.bit_length() + 7) // 8 <= maxb
    inr = sorted(v for v in vals if fits(v))
    out = sorted(v for v in vals if not fits(v)) + ([-1] if not signed else [])
    return inr, out


_ACCOUNTS = []


def rand_addr(rng, kind=None):
    kind = kind or rng.choice(['none', 'ext', 'ext0', 'std', 'std', 'any', 'any30'])
    if kind == 'none':
        return {'kind': 'none'}
    if kind in ('ext', 'ext0'):
        ln = 0 if kind == 'ext0' else rng.choice([1, 7, 8, 9, 64, 255, 256, 511])
        v = rng.getrandbits(ln) if ln else 0
        if ln and rng.random() < 0.5:
            v |= 1 << (ln - 1)
        return {'kind': 'ext', 'len': ln, 'v': big(v)}
    a = {'kind': 'std', 'wc': rng.choice([-128, -1, 0, 1, 127, rng.randint(-128, 127)]),
         'hash': [rng.getrandbits(8) for _ in range(32)], 'any': []}
    # the same account keeps coming back in other forms (plain, other anycast prefixes, as text): what is written depends on the
    # form given NOW, not on the form the account had when it was first seen
    if len(_ACCOUNTS) < 6:
        _ACCOUNTS.append((a['wc'], list(a['hash'])))
    elif rng.random() < 0.5:
        a['wc'], a['hash'] = rng.choice(_ACCOUNTS)
        a['hash'] = list(a['hash'])
    if kind in ('any', 'any30'):
        d = 30 if kind == 'any30' else rng.choice([1, 2, 5, 29])
        a['any'] = [{'depth': d, 'pfx': big(rng.getrandbits(d))}]
    return a


def addr_bits(a):
    if a['kind'] == 'none':
        return 2
    if a['kind'] == 'ext':
        return 11 + a['len']
    return 267 + (5 + a['any'][0]['depth'] if a['any'] else 0)


# ------------------------------------------------------------------ canaries for state-machine traces
def behaviours(shards):
    out = []
    for sh in shards:
        cur = None
        for r in sh:
            if r.get('op') == 'reset':
                cur = [r]
                out.append(cur)
            else:
                cur.append(r)
    return out


def make_bag_canaries(shards, rng, want, klass):
    """copies of whole behaviours with ONE corrupted record (marked 'canary') that the class's clauses must reject"""
    import json
    behs = [b for b in behaviours(shards) if len(b) > 3]
    rng.shuffle(behs)
    out = []
    for b in behs:
        if len(out) >= want:
            break
        b = json.loads(json.dumps(b))
        cands = [k for k, r in enumerate(b) if r.get('op') == 'call' and 'res' in r['out'] and r['call']['op'] != 'forget']
        rng.shuffle(cands)
        done = False
        for k in cands:
            r = b[k]
            c = r['call']
            if klass == 'value':
                if c['op'] == 'load' and 'v' in r['out']['res']:
                    v = unbig(r['out']['res']['v'])
                    r['out']['res']['v'] = big(v + 1)
                    r['canary'] = 'result+1'
                elif c['op'].startswith('store_') and c['op'] not in ('store_ref', 'store_snake_bytes'):
                    tgt = [p for p in r['post'] if p['id'] == c['obj']][0]
                    if not tgt['y']:
                        continue
                    tgt['y'][0] ^= 0x80
                    r['canary'] = 'stored bit'
                else:
                    continue
            elif klass == 'guard':
                if not c['op'].startswith('store_') and c['op'] != 'load':
                    continue
                r['out'] = {'err': 'Canary'}
                r['canary'] = 'refused'
            else:
                # (only cells that were already there before this call: a cell first seen in this record has no earlier state to differ from)
                before = {q['id'] for q in (b[k - 1].get('post') or [])} if k > 0 else set()
                cells = [p for p in r['post'] if p['k'] == 'cell' and p['id'] != c.get('new') and p['y'] and p['id'] in before]
                if not cells:
                    continue
                p = rng.choice(cells)
                p['y'][-1] ^= 0x80 if p['n'] % 8 == 1 or p['n'] < 8 else (1 << (7 - ((p['n'] - 1) % 8)))
                r['canary'] = 'cell %d mutated' % p['id']
            done = True
            break
        if done:
            out.append(b)
    return out
